//! C18 correspondence: the real `RoutePattern` / `RouteUri` driven through their public API.
//! Every string travels as the hex of its UTF-8 bytes; see `lean/SwimVerif/Model/RouteMon.lean` for the ops.
use std::collections::HashMap;
use std::panic::{catch_unwind, AssertUnwindSafe};

use svh::{hex, parse_args, unhex, Mode, Rng, Trace};
use swimos_route::{RoutePattern, RouteUri};

fn arg(s: &str) -> Option<String> {
    String::from_utf8(unhex(s)?).ok()
}

fn kv_arg(s: &str) -> Option<HashMap<String, String>> {
    let mut m = HashMap::new();
    if s == "." {
        return Some(m);
    }
    for e in s.split(',') {
        let mut it = e.split('=');
        let (k, v) = (it.next()?, it.next()?);
        if it.next().is_some() {
            return None;
        }
        m.insert(arg(k)?, arg(v)?);
    }
    Some(m)
}

fn render_kv(m: &HashMap<String, String>) -> String {
    if m.is_empty() {
        return ".".into();
    }
    let mut es: Vec<(&String, &String)> = m.iter().collect();
    es.sort();
    es.iter()
        .map(|(k, v)| format!("{}={}", hex(k.as_bytes()), hex(v.as_bytes())))
        .collect::<Vec<_>>()
        .join(",")
}

fn render_match<E>(r: Result<HashMap<String, String>, E>) -> String {
    match r {
        Ok(m) => format!("match {}", render_kv(&m)),
        Err(_) => "nomatch".into(),
    }
}

fn opt_hex(o: Option<&str>) -> String {
    o.map(|s| hex(s.as_bytes())).unwrap_or_else(|| "none".into())
}

/// `ParseError`'s offset is private: read it from `Display` ("... failed at offset N.").
fn parse_pat(p: &str) -> Result<RoutePattern, String> {
    RoutePattern::parse_str(p).map_err(|e| {
        let s = e.to_string();
        let n: String = s
            .trim_end_matches('.')
            .rsplit(' ')
            .next()
            .unwrap_or("?")
            .to_string();
        format!("err {}", n)
    })
}

/// `ApplyError`'s fields are private: the missing names are read from `Display`
/// ("Failed to populate '<pattern>', missing parameters: a, b.") as one string.
fn render_apply(p: &RoutePattern, pat: &str, m: &HashMap<String, String>) -> Result<String, String> {
    p.apply(m).map_err(|e| {
        let s = e.to_string();
        let prefix = format!("Failed to populate '{}', missing parameters: ", pat);
        let body = s.strip_prefix(prefix.as_str()).unwrap_or("?");
        let body = body.strip_suffix('.').unwrap_or(body);
        format!("missing {}", hex(body.as_bytes()))
    })
}

fn exec_inner(op: &str) -> String {
    let parts: Vec<&str> = op.split_whitespace().collect();
    match parts.as_slice() {
        ["parse", p] => {
            let Some(p) = arg(p) else { return "bad-op".into() };
            match parse_pat(&p) {
                Ok(pat) => {
                    let ps: Vec<String> = pat.parameters().map(|s| hex(s.as_bytes())).collect();
                    format!(
                        "ok {} {} {}",
                        opt_hex(pat.scheme_str()),
                        if pat.has_absolute_path() { 1 } else { 0 },
                        if ps.is_empty() { ".".to_string() } else { ps.join(",") }
                    )
                }
                Err(e) => e,
            }
        }
        ["uri", u] => {
            let Some(u) = arg(u) else { return "bad-op".into() };
            match u.parse::<RouteUri>() {
                Ok(uri) => format!(
                    "ok {} {} {} {}",
                    opt_hex(uri.scheme()),
                    hex(uri.path().as_bytes()),
                    opt_hex(uri.query()),
                    opt_hex(uri.fragment())
                ),
                Err(_) => "err".into(),
            }
        }
        ["apply", p, m] => {
            let (Some(p), Some(m)) = (arg(p), kv_arg(m)) else { return "bad-op".into() };
            match parse_pat(&p) {
                Ok(pat) => match render_apply(&pat, &p, &m) {
                    Ok(r) => format!("ok {}", hex(r.as_bytes())),
                    Err(e) => e,
                },
                Err(_) => "badpat".into(),
            }
        }
        ["un", p, u] => {
            let (Some(p), Some(u)) = (arg(p), arg(u)) else { return "bad-op".into() };
            match parse_pat(&p) {
                Ok(pat) => render_match(pat.unapply_str(&u)),
                Err(_) => "badpat".into(),
            }
        }
        ["unr", p, u] => {
            let (Some(p), Some(u)) = (arg(p), arg(u)) else { return "bad-op".into() };
            match parse_pat(&p) {
                Ok(pat) => match RouteUri::try_from(u) {
                    Ok(uri) => render_match(pat.unapply_route_uri(&uri)),
                    Err(_) => "baduri".into(),
                },
                Err(_) => "badpat".into(),
            }
        }
        ["amb", p, q] => {
            let (Some(p), Some(q)) = (arg(p), arg(q)) else { return "bad-op".into() };
            match (parse_pat(&p), parse_pat(&q)) {
                (Ok(a), Ok(b)) => if RoutePattern::are_ambiguous(&a, &b) { "1" } else { "0" }.into(),
                _ => "badpat".into(),
            }
        }
        ["rt", p, m] => {
            let (Some(p), Some(m)) = (arg(p), kv_arg(m)) else { return "bad-op".into() };
            match parse_pat(&p) {
                Ok(pat) => match render_apply(&pat, &p, &m) {
                    Ok(r) => format!("ok {} {}", hex(r.as_bytes()), render_match(pat.unapply_str(&r))),
                    Err(e) => e,
                },
                Err(_) => "badpat".into(),
            }
        }
        ["both", p, q, u] => {
            let (Some(p), Some(q), Some(u)) = (arg(p), arg(q), arg(u)) else { return "bad-op".into() };
            match (parse_pat(&p), parse_pat(&q)) {
                (Ok(a), Ok(b)) => format!(
                    "{} | {} | {}",
                    render_match(a.unapply_str(&u)),
                    render_match(b.unapply_str(&u)),
                    if RoutePattern::are_ambiguous(&a, &b) { 1 } else { 0 }
                ),
                _ => "badpat".into(),
            }
        }
        _ => "bad-op".into(),
    }
}

fn exec(op: &str) -> String {
    catch_unwind(AssertUnwindSafe(|| exec_inner(op))).unwrap_or_else(|_| "panic".into())
}

fn run_case(t: &mut Trace, ops: &[String]) {
    for op in ops {
        let o = exec(op);
        t.op(op, o);
    }
}

// ------------------------------------------------------------------------------------------- generator

const LITS: &[&str] = &[
    "a", "b", "ab", "abc", "A", "1", "a1", "a.b", "a_b", "a-b", "x:y", "a%62", "%61b", "%61%62", "a%2Fb", "a%2fb",
    "%41", "a%41", "%C3%A9", "%c3%a9", "é", "日本", "a~b", "~", "a b", "a?b", "a#b", "%", "%4", "%zz", "a%", "+",
    "$", "(x)", "a=b", "a;b", "a,b", "a@b", "a&b", "a!", "*", "'", "a|b", "<", "\u{1F600}", "%F0%9F%98%80", "%FF",
    "a%00b", "%2F", "%3A", "%25", "%2541", "unit", "lane", "node",
];
const NAMES: &[&str] = &[
    "id", "x", "y", "z", "name", "a", "%69d", "i%64", "é", "na me", "i~d", "%", "%zz", "a.b", "1", "%78", "X",
];
const SCHEMES: &[&str] = &["swim", "warp", "a", "a+b", "a.b-c", "A1", "a_b", "a%62", "aé", "swims"];
const VALUES: &[&str] = &[
    "x", "1", "ab", "a b", "a/b", "é", "a%b", "%41", "%", "~", "a~b", "~~", ":", "a:b", "?", "#", "q?x=1", "日本語",
    "\u{0}", "\u{7f}", " ", "+", "a.b-c_d", "\u{1F600}", "a\u{80}", "\u{7ff}\u{800}", "\u{ffff}", "\u{10ffff}", "/",
    "//", "a/", "%2F", "%zz", "ÿ", "\u{fffd}", "A", "Z", "0", "9", "-", "_", ".", "a=b", "a&b", "a;b", "\"", "<>",
    "[]", "{}", "|", "\\", "^", "`", "\t", "\n",
];
const BAD_PATTERNS: &[&str] = &[
    "", "/", "//", "/a/", "/:", "/a//b", "/:x:y", "/:x/:x", ":", "a:", "a::", "/a/:", "::", "a:/", "a:b:", "a:/:",
    "/a/:x/:y/:x", "/:x/a/:x", ":x/:x", "a:/b//", "///", "/:/a", "a/", "é/", "/é/:é/:é", ":x:", "1:", "1:/", "a:b/:",
];

#[derive(Clone, Debug)]
enum S {
    Lit(String),
    Par(String),
}

#[derive(Clone, Debug)]
struct P {
    scheme: Option<String>,
    absolute: bool,
    segs: Vec<S>,
}

impl P {
    fn text(&self) -> String {
        let mut s = String::new();
        if let Some(sc) = &self.scheme {
            s.push_str(sc);
            s.push(':');
        }
        for (i, seg) in self.segs.iter().enumerate() {
            if i > 0 || self.absolute {
                s.push('/');
            }
            match seg {
                S::Lit(l) => s.push_str(l),
                S::Par(n) => {
                    s.push(':');
                    s.push_str(n);
                }
            }
        }
        s
    }
    fn names(&self) -> Vec<String> {
        self.segs.iter().filter_map(|s| if let S::Par(n) = s { Some(n.clone()) } else { None }).collect()
    }
}

fn rand_string(rng: &mut Rng, alphabet: &[char], lo: u64, hi: u64) -> String {
    let n = rng.range(lo, hi);
    (0..n).map(|_| *rng.pick(alphabet)).collect()
}

const LIT_ALPHA: &[char] = &[
    'a', 'b', 'c', 'A', 'Z', '0', '9', '-', '_', '.', '~', '%', '4', '1', '6', '2', 'f', 'F', ':', ' ', '?', '#', '+',
    '$', '!', '*', '\'', '(', ')', ',', '@', '&', '=', ';', 'é', '日', '\u{1F600}', '|', '"',
];

fn gen_lit(rng: &mut Rng) -> String {
    if rng.chance(7, 10) {
        rng.pick(LITS).to_string()
    } else {
        rand_string(rng, LIT_ALPHA, 1, 5)
    }
}

fn gen_pattern(rng: &mut Rng, wellformed: bool) -> P {
    let nseg = if rng.chance(1, 12) { rng.range(4, 6) } else { rng.range(1, 3) } as usize;
    let mut segs = vec![];
    let mut used: Vec<String> = vec![];
    for _ in 0..nseg {
        if rng.chance(2, 5) {
            let mut n = if wellformed {
                rng.pick(&["id", "x", "y", "z", "name", "a", "é", "na me", "a.b", "X"]).to_string()
            } else {
                rng.pick(NAMES).to_string()
            };
            // the parser rejects duplicate names; keep most patterns valid
            let mut tries = 0;
            while used.contains(&n) && tries < 4 {
                n.push(char::from(b'0' + rng.below(10) as u8));
                tries += 1;
            }
            used.push(n.clone());
            segs.push(S::Par(n));
        } else if wellformed {
            segs.push(S::Lit(
                rng.pick(&["a", "b", "ab", "abc", "A", "a.b", "a_b", "x:y", "a%62", "%61b", "%C3%A9", "(x)", "a=b",
                    "unit", "lane", "a%2Fb", "%41", "1", "$", "a,b"]).to_string(),
            ));
        } else {
            segs.push(S::Lit(gen_lit(rng)));
        }
    }
    let scheme = if rng.chance(3, 10) {
        Some(if wellformed { rng.pick(&["swim", "warp", "a", "a+b", "A1"]).to_string() } else { rng.pick(SCHEMES).to_string() })
    } else {
        None
    };
    if !wellformed && rng.chance(1, 12) {
        // a second parameter whose name is a different spelling of an existing one
        if let Some(n) = used.first().cloned() {
            let v = pct_variant(rng, &n);
            if !used.contains(&v) {
                segs.push(S::Par(v));
            }
        }
    }
    let mut p = P { scheme, absolute: rng.chance(4, 5), segs };
    // a relative pattern whose first literal starts with a letter and has a ':' would read as a scheme: the text decides
    if p.scheme.is_none() && !p.absolute {
        if let Some(S::Lit(l)) = p.segs.first() {
            if l.contains(':') {
                p.absolute = true;
            }
        }
    }
    p
}

fn pct_variant(rng: &mut Rng, s: &str) -> String {
    // re-spell one character of `s` as %XX (or one escape as its character)
    let bs = s.as_bytes();
    if bs.is_empty() {
        return s.to_string();
    }
    let i = rng.below(bs.len() as u64) as usize;
    let mut out: Vec<u8> = bs[..i].to_vec();
    let h = if rng.chance(1, 2) { format!("%{:02X}", bs[i]) } else { format!("%{:02x}", bs[i]) };
    out.extend_from_slice(h.as_bytes());
    out.extend_from_slice(&bs[i + 1..]);
    String::from_utf8(out).unwrap_or_else(|_| s.to_string())
}

fn mutate_pattern(rng: &mut Rng, p: &P) -> P {
    let mut q = p.clone();
    for _ in 0..rng.range(1, 2) {
        let n = q.segs.len();
        match rng.below(9) {
            0 | 1 => {
                // same literal, different spelling (the F12 class)
                let i = rng.below(n as u64) as usize;
                if let S::Lit(l) = &q.segs[i] {
                    q.segs[i] = S::Lit(pct_variant(rng, l));
                }
            }
            2 => {
                let i = rng.below(n as u64) as usize;
                let name = format!("m{}", rng.below(100));
                q.segs[i] = S::Par(name);
            }
            3 => {
                let i = rng.below(n as u64) as usize;
                q.segs[i] = S::Lit(gen_lit(rng));
            }
            4 => q.absolute = !q.absolute,
            5 => q.scheme = if rng.chance(1, 2) { None } else { Some(rng.pick(SCHEMES).to_string()) },
            6 => {
                if rng.chance(1, 2) && n > 1 {
                    q.segs.pop();
                } else {
                    q.segs.push(S::Lit(gen_lit(rng)));
                }
            }
            _ => {}
        }
    }
    q
}

fn gen_value(rng: &mut Rng) -> String {
    if rng.chance(3, 4) {
        rng.pick(VALUES).to_string()
    } else {
        let n = rng.range(1, 4);
        (0..n)
            .map(|_| {
                let r = rng.below(10);
                let cp = if r < 5 {
                    rng.range(0x20, 0x7e) as u32
                } else if r < 7 {
                    rng.range(0x80, 0x7ff) as u32
                } else if r < 9 {
                    rng.range(0x800, 0xffff) as u32
                } else {
                    rng.range(0x10000, 0x10ffff) as u32
                };
                char::from_u32(cp).unwrap_or('x')
            })
            .collect()
    }
}

/// A URI that `p` is meant to match, spelled by hand (not through `apply`).
fn synth_uri(rng: &mut Rng, p: &P) -> String {
    let mut s = String::new();
    if let Some(sc) = &p.scheme {
        if rng.chance(4, 5) {
            s.push_str(sc);
            s.push(':');
        }
    } else if rng.chance(1, 8) {
        s.push_str("swim:");
    }
    for (i, seg) in p.segs.iter().enumerate() {
        if i > 0 || p.absolute {
            s.push('/');
        }
        match seg {
            S::Lit(l) => {
                if rng.chance(1, 4) {
                    s.push_str(&pct_variant(rng, l));
                } else {
                    s.push_str(l);
                }
            }
            S::Par(_) => {
                let v = gen_value(rng);
                let enc: String = if rng.chance(1, 6) {
                    v.clone()
                } else {
                    v.bytes()
                        .map(|b| {
                            if b.is_ascii_alphanumeric() || b == b'-' || b == b'_' || b == b'.' {
                                (b as char).to_string()
                            } else {
                                format!("%{:02X}", b)
                            }
                        })
                        .collect()
                };
                s.push_str(&enc);
            }
        }
    }
    match rng.below(16) {
        0 => s.push('/'),
        1 => s.push_str("?q=1"),
        2 => s.push_str("#frag"),
        3 => s.push_str("/extra"),
        4 => s.push_str(" tail"),
        5 => s.push_str("%FF"),
        6 => s.push_str("%E9"),
        _ => {}
    }
    s
}

fn kv_text(es: &[(String, String)]) -> String {
    if es.is_empty() {
        return ".".into();
    }
    es.iter().map(|(k, v)| format!("{}={}", hex(k.as_bytes()), hex(v.as_bytes()))).collect::<Vec<_>>().join(",")
}

fn gen_map(rng: &mut Rng, p: &P) -> String {
    let mut es: Vec<(String, String)> = vec![];
    for n in p.names() {
        let r = rng.below(20);
        if r == 0 {
            continue; // missing
        }
        let v = if r == 1 { String::new() } else { gen_value(rng) };
        es.push((n, v));
    }
    if rng.chance(1, 10) {
        es.push(("extra".into(), "v".into()));
    }
    kv_text(&es)
}

fn h(s: &str) -> String {
    hex(s.as_bytes())
}

fn gen_case(rng: &mut Rng) -> Vec<String> {
    let mut ops = vec![];
    let r = rng.below(20);
    if r == 0 {
        // malformed patterns
        let bad = if rng.chance(2, 3) {
            rng.pick(BAD_PATTERNS).to_string()
        } else {
            rand_string(rng, &['/', ':', 'a', 'b', '%', 'é', ' ', '1'], 0, 7)
        };
        let good = gen_pattern(rng, true).text();
        ops.push(format!("parse {}", h(&bad)));
        ops.push(format!("amb {} {}", h(&bad), h(&good)));
        ops.push(format!("un {} {}", h(&bad), h("/a")));
        ops.push(format!("rt {} .", h(&bad)));
        ops.push(format!("uri {}", h(&bad)));
        return ops;
    }
    let wf = rng.chance(3, 5);
    let p = gen_pattern(rng, wf);
    let q = if rng.chance(3, 4) { mutate_pattern(rng, &p) } else { gen_pattern(rng, wf) };
    let (pt, qt) = (p.text(), q.text());
    ops.push(format!("parse {}", h(&pt)));
    ops.push(format!("parse {}", h(&qt)));
    ops.push(format!("amb {} {}", h(&pt), h(&qt)));
    ops.push(format!("amb {} {}", h(&qt), h(&pt)));
    ops.push(format!("rt {} {}", h(&pt), gen_map(rng, &p)));
    ops.push(format!("rt {} {}", h(&qt), gen_map(rng, &q)));
    if rng.chance(1, 4) {
        ops.push(format!("apply {} {}", h(&pt), gen_map(rng, &q)));
    }
    let mut uris: Vec<String> = vec![];
    for _ in 0..rng.range(1, 3) {
        uris.push(synth_uri(rng, &p));
        uris.push(synth_uri(rng, &q));
    }
    // the route produced by the real `apply` is also a candidate URI for the other pattern
    for (pat, txt) in [(&p, &pt), (&q, &qt)] {
        if let Ok(rp) = RoutePattern::parse_str(txt) {
            let m: HashMap<String, String> = pat.names().into_iter().map(|n| (n, gen_value(rng))).collect();
            if let Ok(route) = rp.apply(&m) {
                uris.push(route);
            }
        }
    }
    for u in &uris {
        ops.push(format!("both {} {} {}", h(&pt), h(&qt), h(u)));
        match rng.below(6) {
            0 => {
                ops.push(format!("un {} {}", h(&pt), h(u)));
                ops.push(format!("un {} {}", h(&pt), h(u)));
            }
            1 => ops.push(format!("unr {} {}", h(&qt), h(u))),
            2 => ops.push(format!("uri {}", h(u))),
            _ => {}
        }
    }
    ops
}

// ---------------------------------------------------------------------- exhaustive tables (small scope)

/// Every ASCII character and a few multi-byte ones as a parameter value; every single escaped byte and every
/// sequence over a boundary alphabet of bytes (UTF-8 range edges) as an escaped URI segment.
fn table(t: &mut Trace, depth: usize) {
    let pat = h("/:x");
    let mut id = 0u64;
    let mut chars: Vec<char> = (0u32..128).filter_map(char::from_u32).collect();
    chars.extend(['\u{80}', '\u{7ff}', '\u{800}', '\u{d7ff}', '\u{e000}', '\u{fffd}', '\u{ffff}', '\u{10000}', '\u{10ffff}']);
    for c in chars {
        t.case(format!("table char U+{:04X}", c as u32));
        let v = c.to_string();
        let ops = vec![
            format!("rt {} {}={}", pat, h("x"), h(&v)),
            format!("rt {} {}={}", h("s:p/:x/q"), h("x"), h(&format!("a{}b", v))),
            format!("un {} {}", h(&format!("/{}", v)), h(&format!("/{}", v))),
            format!("uri {}", h(&format!("/a{}b", v))),
        ];
        run_case(t, &ops);
        id += 1;
    }
    for b in 0u32..256 {
        t.case(format!("table byte {:02x}", b));
        let ops = vec![
            format!("un {} {}", pat, h(&format!("/%{:02X}", b))),
            format!("un {} {}", pat, h(&format!("/%{:02x}a", b))),
            format!("un {} {}", h(&format!("/%{:02X}", b)), h(&format!("/%{:02x}", b))),
            format!("both {} {} {}", h(&format!("/%{:02X}", b)), h(&format!("/%{:02x}", b)), h(&format!("/%{:02x}", b))),
        ];
        run_case(t, &ops);
        id += 1;
    }
    const EDGE: &[u8] = &[
        0x41, 0x7f, 0x80, 0x8f, 0x90, 0x9f, 0xa0, 0xbf, 0xc0, 0xc1, 0xc2, 0xdf, 0xe0, 0xe1, 0xec, 0xed, 0xee, 0xef,
        0xf0, 0xf1, 0xf3, 0xf4, 0xf5, 0xff,
    ];
    for len in 2..=depth {
        let mut idx = vec![0usize; len];
        'outer: loop {
            let seg: String = idx.iter().map(|&i| format!("%{:02X}", EDGE[i])).collect();
            if idx[len - 1] == 0 {
                t.case(format!("table seq{} #{}", len, id));
                id += 1;
            }
            let ops = vec![format!("un {} {}", pat, h(&format!("/{}", seg)))];
            run_case(t, &ops);
            let mut p = len;
            loop {
                if p == 0 {
                    break 'outer;
                }
                p -= 1;
                idx[p] += 1;
                if idx[p] < EDGE.len() {
                    break;
                }
                idx[p] = 0;
            }
        }
    }
}

fn main() {
    match parse_args() {
        Mode::Gen { seed, cases, out } => {
            let mut t = Trace::create(&out);
            let extra: Vec<String> = std::env::args().skip(5).collect();
            if extra.first().map(|s| s.as_str()) == Some("table") {
                if seed % 1000 == 0 {
                    table(&mut t, extra[1].parse().unwrap());
                }
                t.finish();
                return;
            }
            let mut rng = Rng::new(seed);
            for c in 0..cases {
                let ops = gen_case(&mut rng);
                t.case(format!("{} seed={}", c, seed));
                run_case(&mut t, &ops);
            }
            t.finish();
        }
        Mode::Replay { ops, out } => {
            let mut t = Trace::create(&out);
            for (i, case) in ops.iter().enumerate() {
                t.case(i);
                run_case(&mut t, case);
            }
            t.finish();
        }
    }
}
