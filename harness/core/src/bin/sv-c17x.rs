//! C17 (extension): the vote coordinator as it is USED.
//!
//! Engine `rt-inactivity` (first op `rt …`): the REAL agent runtime (`AgentRouteTask::run_agent`: attachment, read,
//! write and HTTP tasks with the three-party stop-vote coordinator) on a paused current-thread tokio runtime with
//! `inactive_timeout` = `T` ms. The `Agent` is implemented by the harness: it registers a value lane `v0`, a map lane
//! `m1` (both with an input buffer that holds ONE command frame), an HTTP lane `h` (request queue of length 1) and a
//! sentinel lane that only the agent task reads: when the runtime drops it the agent task ends (as a real agent
//! would), so that `run_agent` can return. The harness plays the agent side and the remotes; between two ops the
//! runtime runs to quiescence WITHOUT the clock moving (yield loop); only `adv` moves the (virtual) clock.
//!
//! ops:  rt <T ms>
//!       attach <r> | detach <r> | link <r> <l> | sync <r> <l> | unlink <r> <l> | cmd <r> <l>
//!       (l: 0 = value lane, 1 = map lane, 9 = a lane that does not exist)
//!       take <l>            the agent reads one request from the input of lane l
//!       ev <l>              the agent emits an event on lane l
//!       synced <l> <r>      the agent answers a sync of remote r on lane l (`Synced`)
//!       http h | http x     an HTTP request for the HTTP lane / for a lane that does not exist
//!       httpread            the agent takes one request from the queue of the HTTP lane
//!       adv <k>             the clock advances by k * 100 ms
//! out:  <ack> <status>      ack: ok | skipped | got:<request> | none;
//!       status: up | down <ret|noret> <reason the attached remotes were given, `none` without remotes> @<ms>
//! The case ends at the first `down`.
//!
//! Engine `rt-prune` (first op `pr <D ms>`): the same agent runtime with `prune_remote_delay` = `D` ms (the inactivity
//! timeout is a day, the lane inputs never block): the write task's `PruneRemotes` queue and `remove_remote_if_idle`.
//! ops:  attach <r> | link <r> <l> | unlink <r> <l> | rsync <r> <l> (the remote syncs, the agent reads the request and
//!       answers with an event and `synced`) | ev <l> | adv <k>
//! out:  ok, then what every remote received since the last op (sorted by remote):
//!       r<id>=linked<l> | unlinked<l> | ev<l> | synced<l> | closed:<DisconnectionReason>@<ms>
//!
//! Engine `dl-inactivity` (first op `dl <T ms>`): the REAL `ValueDownlinkRuntime` (attachment, read and write task
//! with the two-party coordinator) with `empty_timeout` = `T` ms on the paused clock; the remote lane has answered
//! `linked` before the script starts; consumers attach without the SYNC option.
//! ops:  attach <c> | dropc <c> (the consumer drops both its channels) | ev (the remote lane sends an event)
//!       | cmd <c> (consumer c sends a command; the socket is always drained) | adv <k>
//! out:  <ack> <status>   ack: ok | skipped;  status: up | down @<ms> (the time `run()` returned)
//!
//! Engine `coord-threads` (first op `threads <n> <seed> <len>`): the REAL coordinator for n = 2 or 3 parties, every
//! voter on its own OS thread doing `len` random `vote` / `rescind` calls and then a final `vote`, `rescind` or drop.
//! Every call is bracketed by two tickets from one global counter. (The voters of the three-party coordinator are
//! those of `agent_timeout_coordinator`, of the two-party one those of `downlink_timeout_coordinator`.)
//! out:  t0=<call>,… t1=… ready=<0|1>    call = v|r U|P :<start>-<end>  or  d:<start>-<end>
//! and (every 100th case) `wake <n> <seed> <rounds>`: the waiter rounds, see `wake_case`.
use std::collections::{BTreeMap, HashMap};
use std::num::NonZeroUsize;
use std::sync::{Arc, Mutex};
use std::time::Duration;

use bytes::Bytes;
use futures::future::BoxFuture;
use futures::{FutureExt, SinkExt};
use svh::{parse_args, Mode, Rng, Trace};
use swimos_agent_protocol::encoding::lane::{RawMapLaneResponseEncoder, RawValueLaneResponseEncoder};
use swimos_agent_protocol::{LaneResponse, MapOperation};
use swimos_api::address::RelativeAddress;
use swimos_api::agent::{
    Agent, AgentConfig, AgentContext, AgentInitResult, HttpLaneRequest, HttpResponseReceiver, LaneConfig, WarpLaneKind,
};
use swimos_api::http::{HttpRequest, Method, Version};
use swimos_messages::protocol::{RawRequestMessageEncoder, RequestMessage};
use swimos_runtime::agent::{
    AgentAttachmentRequest, AgentRouteChannels, AgentRouteDescriptor, AgentRouteTask, AgentRuntimeConfig,
    CombinedAgentConfig, DisconnectionReason,
};
use swimos_utilities::byte_channel::{byte_channel, ByteReader, ByteWriter};
use swimos_utilities::routing::RouteUri;
use swimos_utilities::trigger::{self, promise};
use tokio::io::AsyncReadExt;
use tokio::sync::mpsc;
use tokio::time::Instant;
use tokio_util::codec::FramedWrite;
use uuid::Uuid;

// ------------------------------------------------------------------------------------------------ rt-inactivity

/// What the agent hands to the harness.
#[derive(Default)]
struct Shared {
    lanes: Vec<(ByteWriter, ByteReader)>,
    http: Option<mpsc::Receiver<HttpLaneRequest>>,
    ready: bool,
    /// virtual time (ms since the start of the case) at which the attachment task of the runtime ended
    closed_at: Option<u64>,
}

struct Holder {
    shared: Arc<Mutex<Shared>>,
    start: Instant,
    /// input buffer of the two lanes (32 bytes = one request frame; large = never blocks)
    lane_cap: usize,
}

const LANE_CAP: usize = 32;

impl Agent for Holder {
    fn run(
        &self,
        _route: RouteUri,
        _route_params: HashMap<String, String>,
        _config: AgentConfig,
        context: Box<dyn AgentContext + Send>,
    ) -> BoxFuture<'static, AgentInitResult> {
        let shared = self.shared.clone();
        let start = self.start;
        let lane_cap = self.lane_cap;
        async move {
            let cfg = |cap: usize| LaneConfig {
                input_buffer_size: NonZeroUsize::new(cap).unwrap(),
                output_buffer_size: NonZeroUsize::new(4096).unwrap(),
                transient: true,
            };
            let v0 = context.add_lane("v0", WarpLaneKind::Value, cfg(lane_cap)).await.expect("lane");
            let m1 = context.add_lane("m1", WarpLaneKind::Map, cfg(lane_cap)).await.expect("lane");
            let (s_tx, mut s_rx) = context.add_lane("zz", WarpLaneKind::Value, cfg(64)).await.expect("lane");
            let http = context.add_http_lane("h").await.expect("http lane");
            {
                let mut g = shared.lock().unwrap();
                g.lanes.push(v0);
                g.lanes.push(m1);
                g.http = Some(http);
                g.ready = true;
            }
            let task: BoxFuture<'static, Result<(), swimos_api::error::AgentTaskError>> = async move {
                let _keep = (context, s_tx);
                let mut buf = [0u8; 64];
                loop {
                    match s_rx.read(&mut buf).await {
                        Ok(0) | Err(_) => break,
                        Ok(_) => {}
                    }
                }
                let _ = start;
                Ok(())
            }
            .boxed();
            Ok(task)
        }
        .boxed()
    }
}

struct RemoteCtx {
    id: Uuid,
    tx: FramedWrite<ByteWriter, RawRequestMessageEncoder>,
    _rx: ByteReader,
    completion: promise::Receiver<DisconnectionReason>,
    _attached: trigger::Receiver,
}

/// The agent's end of the input of a lane, read ONE FRAME AT A TIME and not a byte more (a `FramedRead` would empty the
/// channel into its own buffer, and the point of the small input buffer is that the read task blocks on it).
struct LaneRx(ByteReader);

enum LaneTx {
    Value(FramedWrite<ByteWriter, RawValueLaneResponseEncoder>),
    Map(FramedWrite<ByteWriter, RawMapLaneResponseEncoder>),
}

impl LaneRx {
    /// `LaneRequest` wire format: tag 0 = command (u64 length, body), 1 = sync (u128 id), 4 = init complete.
    async fn next(&mut self) -> Option<String> {
        let mut tag = [0u8; 1];
        match soon(self.0.read_exact(&mut tag)).await {
            None => return None,
            Some(Err(_)) => return Some("closed".into()),
            Some(Ok(_)) => {}
        }
        match tag[0] {
            0 => {
                let mut len = [0u8; 8];
                if self.0.read_exact(&mut len).await.is_err() {
                    return Some("closed".into());
                }
                let n = u64::from_be_bytes(len) as usize;
                let mut body = vec![0u8; n.min(1 << 16)];
                if self.0.read_exact(&mut body).await.is_err() {
                    return Some("closed".into());
                }
                Some("cmd".into())
            }
            1 => {
                let mut id = [0u8; 16];
                if self.0.read_exact(&mut id).await.is_err() {
                    return Some("closed".into());
                }
                Some(format!("sync{}", u128::from_be_bytes(id) - 0x2000))
            }
            4 => Some("init-complete".into()),
            t => Some(format!("bad-tag{}", t)),
        }
    }
}

async fn settle() {
    for _ in 0..SETTLE_YIELDS {
        tokio::task::yield_now().await;
    }
}

const SETTLE_YIELDS: usize = 48;

/// The future's output if it completes without the clock moving (the byte channels are cooperative: a send may be
/// `Pending` only because the task's budget is used up, so one poll is not enough).
async fn soon<F: std::future::Future>(f: F) -> Option<F::Output> {
    tokio::select! {
        biased;
        x = f => Some(x),
        _ = settle() => None,
    }
}

struct Rig {
    start: Instant,
    shared: Arc<Mutex<Shared>>,
    att_tx: mpsc::Sender<AgentAttachmentRequest>,
    http_tx: mpsc::Sender<HttpLaneRequest>,
    http_rx: mpsc::Receiver<HttpLaneRequest>,
    responses: Vec<HttpResponseReceiver>,
    remotes: BTreeMap<u64, RemoteCtx>,
    lane_rx: Vec<LaneRx>,
    lane_tx: Vec<LaneTx>,
    returned: Arc<Mutex<Option<String>>>,
    seq: u64,
    /// commands handed to the input of a lane and not yet taken by the agent (the bookkeeping of what blocks)
    fill: [usize; 2],
    /// the lane the read task is blocked on
    read_blocked: Option<usize>,
    http_fill: usize,
    http_blocked: bool,
}

fn reason_name(r: DisconnectionReason) -> String {
    match r {
        DisconnectionReason::AgentStoppedExternally => "stopped-externally".into(),
        DisconnectionReason::RemoteTimedOut => "remote-timed-out".into(),
        DisconnectionReason::AgentTimedOut => "agent-timed-out".into(),
        DisconnectionReason::DuplicateRegistration(_) => "duplicate".into(),
        DisconnectionReason::ChannelClosed => "channel-closed".into(),
        DisconnectionReason::Failed => "failed".into(),
    }
}

impl Rig {
    fn status(&mut self) -> String {
        let closed = self.shared.lock().unwrap().closed_at;
        let ret = self.returned.lock().unwrap().clone();
        if closed.is_none() {
            return if ret.is_none() { "up".into() } else { format!("returned-without-stopping {:?}", ret) };
        }
        let mut reasons: Vec<String> = vec![];
        for ctx in self.remotes.values_mut() {
            let r = match (&mut ctx.completion).now_or_never() {
                Some(Ok(r)) => reason_name(r),
                Some(Err(_)) => "dropped".into(),
                None => "pending".into(),
            };
            if !reasons.contains(&r) {
                reasons.push(r);
            }
        }
        reasons.sort();
        let reason = if reasons.is_empty() { "none".to_string() } else { reasons.join("+") };
        let at = closed.unwrap_or_else(|| self.start.elapsed().as_millis() as u64);
        format!("down {} {} @{}", ret.unwrap_or_else(|| "noret".into()), reason, at)
    }

    async fn exec(&mut self, op: &str) -> String {
        let p: Vec<&str> = op.split_whitespace().collect();
        match p.as_slice() {
            ["attach", r] => {
                let r: u64 = r.parse().unwrap();
                if self.remotes.contains_key(&r) || self.read_blocked.is_some() {
                    return "skipped".into();
                }
                let id = Uuid::from_u128(0x2000 + r as u128);
                let (to_agent_tx, to_agent_rx) = byte_channel(NonZeroUsize::new(1 << 16).unwrap());
                let (from_agent_tx, from_agent_rx) = byte_channel(NonZeroUsize::new(1 << 16).unwrap());
                let (ctx_tx, ctx_rx) = promise::promise();
                let (on_tx, on_rx) = trigger::trigger();
                let req = AgentAttachmentRequest::with_confirmation(id, (from_agent_tx, to_agent_rx), ctx_tx, on_tx);
                if self.att_tx.try_send(req).is_err() {
                    return "agent-gone".into();
                }
                self.remotes.insert(
                    r,
                    RemoteCtx {
                        id,
                        tx: FramedWrite::new(to_agent_tx, Default::default()),
                        _rx: from_agent_rx,
                        completion: ctx_rx,
                        _attached: on_rx,
                    },
                );
                "ok".into()
            }
            ["detach", r] => {
                let r: u64 = r.parse().unwrap();
                if self.read_blocked.is_some() {
                    return "skipped".into();
                }
                match self.remotes.remove(&r) {
                    Some(ctx) => {
                        drop(ctx);
                        "ok".into()
                    }
                    None => "skipped".into(),
                }
            }
            [kind @ ("link" | "sync" | "unlink" | "cmd"), r, l] => {
                let r: u64 = r.parse().unwrap();
                let l: usize = l.parse().unwrap();
                if self.read_blocked.is_some() {
                    return "skipped".into();
                }
                let lane = match l {
                    0 => "v0",
                    1 => "m1",
                    _ => "nolane",
                };
                self.seq += 1;
                let seq = self.seq;
                let ctx = match self.remotes.get_mut(&r) {
                    Some(c) => c,
                    None => return "skipped".into(),
                };
                let path = RelativeAddress::new("/node", lane);
                let msg: RequestMessage<&str, Bytes> = match *kind {
                    "link" => RequestMessage::link(ctx.id, path),
                    "sync" => RequestMessage::sync(ctx.id, path),
                    "unlink" => RequestMessage::unlink(ctx.id, path),
                    _ => {
                        // bodies of fixed length: one frame fills the input buffer of the lane
                        let body = if l == 1 {
                            format!("@update(key:{}) {}", seq % 10, (seq / 10) % 10)
                        } else {
                            format!("{:016}", seq)
                        };
                        RequestMessage::command(ctx.id, path, Bytes::from(body.into_bytes()))
                    }
                };
                if soon(ctx.tx.send(msg)).await.is_none() {
                    return "remote-buffer-full".into();
                }
                if (*kind == "cmd" || *kind == "sync") && l < 2 {
                    self.fill[l] += 1;
                    if self.fill[l] > 1 {
                        self.read_blocked = Some(l);
                    }
                }
                "ok".into()
            }
            ["take", l] => {
                let l: usize = l.parse().unwrap();
                if l >= 2 {
                    return "bad-op".into();
                }
                let got = self.lane_rx[l].next().await;
                match got {
                    Some(q) => {
                        if q.starts_with("cmd") || q.starts_with("sync") {
                            self.fill[l] = self.fill[l].saturating_sub(1);
                            if self.read_blocked == Some(l) {
                                self.read_blocked = None;
                            }
                        }
                        format!("got:{}", q)
                    }
                    None => "none".into(),
                }
            }
            ["ev", l] => {
                let l: usize = l.parse().unwrap();
                if l >= 2 {
                    return "bad-op".into();
                }
                self.seq += 1;
                let body = format!("{}", self.seq);
                let sent = match &mut self.lane_tx[l] {
                    LaneTx::Value(tx) => soon(tx.send(LaneResponse::StandardEvent(body.as_bytes()))).await,
                    LaneTx::Map(tx) => {
                        soon(tx.send(LaneResponse::StandardEvent(MapOperation::Update {
                            key: body.as_bytes(),
                            value: body.as_bytes(),
                        })))
                        .await
                    }
                };
                match sent {
                    Some(Ok(())) => "ok".into(),
                    Some(Err(_)) => "lane-closed".into(),
                    None => "lane-buffer-full".into(),
                }
            }
            ["synced", l, r] => {
                let l: usize = l.parse().unwrap();
                let r: u64 = r.parse().unwrap();
                if l >= 2 {
                    return "bad-op".into();
                }
                let id = Uuid::from_u128(0x2000 + r as u128);
                let sent = match &mut self.lane_tx[l] {
                    LaneTx::Value(tx) => soon(tx.send(LaneResponse::<&[u8]>::Synced(id))).await,
                    LaneTx::Map(tx) => soon(tx.send(LaneResponse::<MapOperation<&[u8], &[u8]>>::Synced(id))).await,
                };
                match sent {
                    Some(Ok(())) => "ok".into(),
                    Some(Err(_)) => "lane-closed".into(),
                    None => "lane-buffer-full".into(),
                }
            }
            ["http", which] => {
                if self.http_blocked {
                    return "skipped".into();
                }
                let uri = if *which == "h" {
                    "http://example:8080/node?lane=h"
                } else {
                    "http://example:8080/node?lane=nolane"
                };
                let (req, rx) = HttpLaneRequest::new(HttpRequest {
                    method: Method::GET,
                    version: Version::HTTP_1_1,
                    uri: http::Uri::from_static(uri),
                    headers: vec![],
                    payload: Bytes::from("body"),
                });
                if self.http_tx.try_send(req).is_err() {
                    return "agent-gone".into();
                }
                self.responses.push(rx);
                if *which == "h" {
                    if self.http_fill >= 1 {
                        self.http_blocked = true;
                    } else {
                        self.http_fill = 1;
                    }
                }
                "ok".into()
            }
            ["httpread"] => match self.http_rx.try_recv() {
                Ok(req) => {
                    drop(req);
                    if self.http_blocked {
                        self.http_blocked = false;
                    } else {
                        self.http_fill = 0;
                    }
                    "got:req".into()
                }
                Err(_) => "none".into(),
            },
            ["adv", k] => {
                let k: u64 = k.parse().unwrap();
                tokio::time::sleep(Duration::from_millis(100 * k.min(100))).await;
                "ok".into()
            }
            _ => "bad-op".into(),
        }
    }
}

async fn rt_case_async(ops: Vec<String>) -> Vec<(String, String)> {
    let mut results = vec![];
    let first: Vec<&str> = ops.first().map(|s| s.split_whitespace().collect()).unwrap_or_default();
    let t_ms = match first.as_slice() {
        ["rt", t] => match t.parse::<u64>() {
            Ok(t) if (100..=100000).contains(&t) => t,
            _ => return ops.iter().map(|o| (o.clone(), "bad-op".to_string())).collect(),
        },
        _ => return ops.iter().map(|o| (o.clone(), "bad-op".to_string())).collect(),
    };
    let start = Instant::now();
    let shared: Arc<Mutex<Shared>> = Arc::new(Mutex::new(Shared::default()));
    let agent = Holder { shared: shared.clone(), start, lane_cap: LANE_CAP };
    let (att_tx, att_rx) = mpsc::channel(16);
    let (http_tx, http_rx) = mpsc::channel(16);
    let (link_tx, mut link_rx) = mpsc::channel(16);
    let (stop_tx, stop_rx) = trigger::trigger();
    let long = Duration::from_secs(3600 * 24);
    let config = CombinedAgentConfig {
        agent_config: AgentConfig::DEFAULT,
        runtime_config: AgentRuntimeConfig {
            inactive_timeout: Duration::from_millis(t_ms),
            prune_remote_delay: long,
            shutdown_timeout: Duration::from_secs(600),
            lane_http_request_channel_size: NonZeroUsize::new(1).unwrap(),
            ..Default::default()
        },
    };
    let task = AgentRouteTask::new(
        &agent,
        AgentRouteDescriptor {
            identity: Uuid::from_u128(1),
            route: "/node".parse().unwrap(),
            route_params: HashMap::new(),
        },
        AgentRouteChannels::new(att_rx, http_rx, link_tx),
        stop_rx,
        config,
        None,
    );
    let returned: Arc<Mutex<Option<String>>> = Arc::new(Mutex::new(None));
    let returned2 = returned.clone();
    let agent_fut = async move {
        let r = task.run_agent().await;
        *returned2.lock().unwrap() = Some(match r {
            Err(e) => format!("ret-err:{:?}", e).replace(' ', "_"),
            Ok(()) => "ret".to_string(),
        });
        futures::future::pending::<()>().await;
    };
    let att_watch = att_tx.clone();
    let shared_w = shared.clone();
    let watcher = async move {
        att_watch.closed().await;
        shared_w.lock().unwrap().closed_at = Some(start.elapsed().as_millis() as u64);
        futures::future::pending::<()>().await;
    };
    let links = async move {
        while link_rx.recv().await.is_some() {}
        futures::future::pending::<()>().await;
    };
    let driver = async {
        for _ in 0..200 {
            tokio::task::yield_now().await;
            if shared.lock().unwrap().ready {
                break;
            }
        }
        settle().await;
        let (lanes, http_lane_rx) = {
            let mut g = shared.lock().unwrap();
            (std::mem::take(&mut g.lanes), g.http.take())
        };
        let http_lane_rx = match http_lane_rx {
            Some(rx) if lanes.len() == 2 => rx,
            _ => return vec![(ops[0].clone(), "init-failed".to_string())],
        };
        let mut lane_rx = vec![];
        let mut lane_tx = vec![];
        for (i, (tx, rx)) in lanes.into_iter().enumerate() {
            lane_rx.push(LaneRx(rx));
            if i == 0 {
                lane_tx.push(LaneTx::Value(FramedWrite::new(tx, Default::default())));
            } else {
                lane_tx.push(LaneTx::Map(FramedWrite::new(tx, Default::default())));
            }
        }
        let mut rig = Rig {
            start,
            shared: shared.clone(),
            att_tx,
            http_tx,
            http_rx: http_lane_rx,
            responses: vec![],
            remotes: BTreeMap::new(),
            lane_rx,
            lane_tx,
            returned: returned.clone(),
            seq: 0,
            fill: [0, 0],
            read_blocked: None,
            http_fill: 0,
            http_blocked: false,
        };
        let init_ms = start.elapsed().as_millis();
        let mut out = vec![(ops[0].clone(), format!("ok init@{}", init_ms))];
        for op in ops.iter().skip(1) {
            let ack = rig.exec(op).await;
            settle().await;
            let st = rig.status();
            let down = st.starts_with("down");
            out.push((op.clone(), format!("{} {}", ack, st)));
            if down {
                break;
            }
        }
        stop_tx.trigger();
        out
    };
    tokio::select! {
        biased;
        out = driver => results.extend(out),
        _ = agent_fut => {},
        _ = links => {},
        _ = watcher => {},
    }
    results
}

fn rt_case(t: &mut Trace, ops: &[String]) {
    let rt = tokio::runtime::Builder::new_current_thread().enable_time().start_paused(true).build().unwrap();
    let ops_v = ops.to_vec();
    let res = std::panic::catch_unwind(std::panic::AssertUnwindSafe(|| {
        rt.block_on(async move { tokio::time::timeout(Duration::from_secs(3600 * 48), rt_case_async(ops_v)).await })
    }));
    match res {
        Ok(Ok(lines)) => {
            for (op, o) in lines {
                t.op(op, o);
            }
        }
        Ok(Err(_)) => t.op("end", "hang"),
        Err(_) => t.op("end", "panic"),
    }
}




// ------------------------------------------------------------------------------------------------ rt-prune

mod pr {
    use super::*;
    use futures::stream::SelectAll;
    use futures::StreamExt;
    use swimos_messages::protocol::{Notification, RawResponseMessageDecoder};
    use tokio_util::codec::FramedRead;

    type News = Arc<Mutex<Vec<(u64, String)>>>;

    struct Remote {
        id: Uuid,
        tx: FramedWrite<ByteWriter, RawRequestMessageEncoder>,
    }

    fn lane_no(name: &str) -> String {
        match name {
            "v0" => "0".into(),
            "m1" => "1".into(),
            _ => "9".into(),
        }
    }

    pub async fn case(ops: Vec<String>) -> Vec<(String, String)> {
        let first: Vec<&str> = ops.first().map(|s| s.split_whitespace().collect()).unwrap_or_default();
        let d_ms = match first.as_slice() {
            ["pr", d] => match d.parse::<u64>() {
                Ok(d) if (100..=100000).contains(&d) => d,
                _ => return ops.iter().map(|o| (o.clone(), "bad-op".to_string())).collect(),
            },
            _ => return ops.iter().map(|o| (o.clone(), "bad-op".to_string())).collect(),
        };
        let start = Instant::now();
        let shared: Arc<Mutex<Shared>> = Arc::new(Mutex::new(Shared::default()));
        let agent = Holder { shared: shared.clone(), start, lane_cap: 1 << 14 };
        let (att_tx, att_rx) = mpsc::channel(16);
        let (_http_tx, http_rx) = mpsc::channel::<HttpLaneRequest>(16);
        let (link_tx, mut link_rx) = mpsc::channel(16);
        let (stop_tx, stop_rx) = trigger::trigger();
        let long = Duration::from_secs(3600 * 24);
        let config = CombinedAgentConfig {
            agent_config: AgentConfig::DEFAULT,
            runtime_config: AgentRuntimeConfig {
                inactive_timeout: long,
                prune_remote_delay: Duration::from_millis(d_ms),
                shutdown_timeout: Duration::from_secs(600),
                ..Default::default()
            },
        };
        let task = AgentRouteTask::new(
            &agent,
            AgentRouteDescriptor { identity: Uuid::from_u128(1), route: "/node".parse().unwrap(), route_params: HashMap::new() },
            AgentRouteChannels::new(att_rx, http_rx, link_tx),
            stop_rx,
            config,
            None,
        );
        let returned: Arc<Mutex<bool>> = Arc::new(Mutex::new(false));
        let returned2 = returned.clone();
        let agent_fut = async move {
            let _ = task.run_agent().await;
            *returned2.lock().unwrap() = true;
            futures::future::pending::<()>().await;
        };
        let links = async move {
            while link_rx.recv().await.is_some() {}
            futures::future::pending::<()>().await;
        };
        // everything the remotes receive, with the time their channel closed
        let news: News = Arc::new(Mutex::new(vec![]));
        let news_p = news.clone();
        type Incoming = (u64, ByteReader, promise::Receiver<DisconnectionReason>);
        let (reg_tx, mut reg_rx) = mpsc::unbounded_channel::<Incoming>();
        let pump = async move {
            let mut all = SelectAll::new();
            let mut completions: HashMap<u64, promise::Receiver<DisconnectionReason>> = HashMap::new();
            loop {
                tokio::select! {
                    biased;
                    Some((r, reader, completion)) = reg_rx.recv() => {
                        completions.insert(r, completion);
                        let frames = FramedRead::new(reader, RawResponseMessageDecoder).map(move |f| (r, Some(f)));
                        all.push(frames.chain(futures::stream::once(async move { (r, None) })).boxed());
                    }
                    Some((r, item)) = all.next(), if !all.is_empty() => {
                        let text = match item {
                            Some(Ok(msg)) => {
                                let l = lane_no(msg.path.lane.as_str());
                                match msg.envelope {
                                    Notification::Linked => format!("linked{}", l),
                                    Notification::Synced => format!("synced{}", l),
                                    Notification::Unlinked(_) => format!("unlinked{}", l),
                                    Notification::Event(_) => format!("ev{}", l),
                                }
                            }
                            Some(Err(_)) => "decode-error".to_string(),
                            None => {
                                let at = start.elapsed().as_millis();
                                let reason = match completions.remove(&r) {
                                    Some(c) => match soon(c).await {
                                        Some(Ok(reason)) => reason_name(reason),
                                        Some(Err(_)) => "dropped".into(),
                                        None => "pending".into(),
                                    },
                                    None => "unknown".into(),
                                };
                                format!("closed:{}@{}", reason, at)
                            }
                        };
                        news_p.lock().unwrap().push((r, text));
                    }
                    else => futures::future::pending::<()>().await,
                }
            }
        };
        let driver = async {
            for _ in 0..200 {
                tokio::task::yield_now().await;
                if shared.lock().unwrap().ready {
                    break;
                }
            }
            settle().await;
            let lanes = std::mem::take(&mut shared.lock().unwrap().lanes);
            let _keep_http = shared.lock().unwrap().http.take();
            if lanes.len() != 2 {
                return vec![(ops[0].clone(), "init-failed".to_string())];
            }
            let mut lane_rx = vec![];
            let mut lane_tx = vec![];
            for (i, (tx, rx)) in lanes.into_iter().enumerate() {
                lane_rx.push(LaneRx(rx));
                if i == 0 {
                    lane_tx.push(LaneTx::Value(FramedWrite::new(tx, Default::default())));
                } else {
                    lane_tx.push(LaneTx::Map(FramedWrite::new(tx, Default::default())));
                }
            }
            let mut remotes: BTreeMap<u64, Remote> = BTreeMap::new();
            let mut seq = 0u64;
            let mut out = vec![(ops[0].clone(), format!("ok init@{}", start.elapsed().as_millis()))];
            for op in ops.iter().skip(1) {
                let p: Vec<&str> = op.split_whitespace().collect();
                let ack: String = match p.as_slice() {
                    ["attach", r] => {
                        let r: u64 = r.parse().unwrap();
                        if remotes.contains_key(&r) {
                            "skipped".into()
                        } else {
                            let id = Uuid::from_u128(0x2000 + r as u128);
                            let (to_agent_tx, to_agent_rx) = byte_channel(NonZeroUsize::new(1 << 16).unwrap());
                            let (from_agent_tx, from_agent_rx) = byte_channel(NonZeroUsize::new(1 << 16).unwrap());
                            let (ctx_tx, ctx_rx) = promise::promise();
                            let (on_tx, _on_rx) = trigger::trigger();
                            let req = AgentAttachmentRequest::with_confirmation(id, (from_agent_tx, to_agent_rx), ctx_tx, on_tx);
                            if att_tx.try_send(req).is_err() {
                                "agent-gone".into()
                            } else {
                                let _ = reg_tx.send((r, from_agent_rx, ctx_rx));
                                remotes.insert(r, Remote { id, tx: FramedWrite::new(to_agent_tx, Default::default()) });
                                "ok".into()
                            }
                        }
                    }
                    [kind @ ("link" | "unlink" | "rsync"), r, l] => {
                        let r: u64 = r.parse().unwrap();
                        let l: usize = l.parse().unwrap();
                        match remotes.get_mut(&r) {
                            None => "skipped".into(),
                            Some(_) if l >= 2 => "skipped".into(),
                            Some(ctx) => {
                                let lane = if l == 0 { "v0" } else { "m1" };
                                let path = RelativeAddress::new("/node", lane);
                                let msg: RequestMessage<&str, Bytes> = match *kind {
                                    "link" => RequestMessage::link(ctx.id, path),
                                    "unlink" => RequestMessage::unlink(ctx.id, path),
                                    _ => RequestMessage::sync(ctx.id, path),
                                };
                                let id = ctx.id;
                                if soon(ctx.tx.send(msg)).await.is_none() {
                                    "remote-buffer-full".into()
                                } else if *kind == "rsync" {
                                    // the agent reads the sync request and answers: one event, then `synced`
                                    settle().await;
                                    match lane_rx[l].next().await {
                                        Some(q) if q.starts_with("sync") => {
                                            seq += 1;
                                            let body = format!("{}", seq);
                                            let sent = match &mut lane_tx[l] {
                                                LaneTx::Value(tx) => {
                                                    let a = soon(tx.send(LaneResponse::SyncEvent(id, body.as_bytes()))).await;
                                                    let b = soon(tx.send(LaneResponse::<&[u8]>::Synced(id))).await;
                                                    a.is_some() && b.is_some()
                                                }
                                                LaneTx::Map(tx) => {
                                                    let a = soon(tx.send(LaneResponse::SyncEvent(
                                                        id,
                                                        MapOperation::Update { key: body.as_bytes(), value: body.as_bytes() },
                                                    )))
                                                    .await;
                                                    let b = soon(tx.send(LaneResponse::<MapOperation<&[u8], &[u8]>>::Synced(id))).await;
                                                    a.is_some() && b.is_some()
                                                }
                                            };
                                            if sent { "ok".into() } else { "lane-blocked".into() }
                                        }
                                        other => format!("no-sync-request:{:?}", other),
                                    }
                                } else {
                                    "ok".into()
                                }
                            }
                        }
                    }
                    ["ev", l] => {
                        let l: usize = l.parse().unwrap();
                        if l >= 2 {
                            "bad-op".into()
                        } else {
                            seq += 1;
                            let body = format!("{}", seq);
                            let sent = match &mut lane_tx[l] {
                                LaneTx::Value(tx) => soon(tx.send(LaneResponse::StandardEvent(body.as_bytes()))).await.is_some(),
                                LaneTx::Map(tx) => soon(tx.send(LaneResponse::StandardEvent(MapOperation::Update {
                                    key: body.as_bytes(),
                                    value: body.as_bytes(),
                                })))
                                .await
                                .is_some(),
                            };
                            if sent { "ok".into() } else { "lane-blocked".into() }
                        }
                    }
                    ["adv", k] => {
                        let k: u64 = k.parse().unwrap();
                        tokio::time::sleep(Duration::from_millis(100 * k.min(100))).await;
                        "ok".into()
                    }
                    _ => "bad-op".into(),
                };
                settle().await;
                settle().await;
                let mut got: Vec<(u64, String)> = std::mem::take(&mut *news.lock().unwrap());
                got.sort_by_key(|(r, _)| *r); // stable: per remote in order of arrival
                let mut line = ack;
                for (r, t) in got {
                    line.push_str(&format!(" r{}={}", r, t));
                }
                if *returned.lock().unwrap() {
                    line.push_str(" runtime-returned");
                }
                out.push((op.clone(), line));
            }
            stop_tx.trigger();
            out
        };
        tokio::select! {
            biased;
            out = driver => out,
            _ = agent_fut => vec![],
            _ = links => vec![],
            _ = pump => vec![],
        }
    }

    pub fn gen(rng: &mut Rng) -> Vec<String> {
        let mut ops = vec!["pr 701".to_string()];
        let len = rng.range(5, 30);
        let mut next = 1u64;
        let mut attached: Vec<u64> = vec![];
        for _ in 0..len {
            let c = rng.below(100);
            let r = if attached.is_empty() || rng.chance(1, 20) { rng.range(1, 4) } else { *rng.pick(&attached) };
            let l = rng.below(2);
            if c < 30 {
                let k = *rng.pick(&[1u64, 1, 2, 2, 3, 4, 5, 6, 7, 8, 9, 15]);
                ops.push(format!("adv {}", k));
            } else if c < 45 {
                if next <= 5 {
                    ops.push(format!("attach {}", next));
                    attached.push(next);
                    next += 1;
                }
            } else if c < 63 {
                ops.push(format!("link {} {}", r, l));
            } else if c < 78 {
                ops.push(format!("unlink {} {}", r, l));
            } else if c < 90 {
                ops.push(format!("rsync {} {}", r, l));
            } else {
                ops.push(format!("ev {}", l));
            }
        }
        ops.push("adv 8".into());
        ops
    }
}

fn pr_case(t: &mut Trace, ops: &[String]) {
    let rt = tokio::runtime::Builder::new_current_thread().enable_time().start_paused(true).build().unwrap();
    let ops_v = ops.to_vec();
    let res = std::panic::catch_unwind(std::panic::AssertUnwindSafe(|| {
        rt.block_on(async move { tokio::time::timeout(Duration::from_secs(3600 * 48), pr::case(ops_v)).await })
    }));
    match res {
        Ok(Ok(lines)) => {
            for (op, o) in lines {
                t.op(op, o);
            }
        }
        Ok(Err(_)) => t.op("end", "hang"),
        Err(_) => t.op("end", "panic"),
    }
}

// ------------------------------------------------------------------------------------------------ dl-inactivity

mod dl {
    use super::{settle, soon};
    use bytes::{BufMut, Bytes, BytesMut};
    use futures::SinkExt;
    use std::collections::BTreeMap;
    use std::num::NonZeroUsize;
    use std::sync::{Arc, Mutex};
    use std::time::Duration;
    use swimos_api::address::RelativeAddress;
    use swimos_messages::protocol::{RawResponseMessageEncoder, ResponseMessage};
    use swimos_model::Text;
    use swimos_runtime::downlink::{
        AttachAction, DownlinkOptions, DownlinkRuntimeConfig, IdentifiedAddress, ValueDownlinkRuntime,
    };
    use swimos_utilities::byte_channel::{byte_channel, ByteReader, ByteWriter};
    use swimos_utilities::trigger;
    use tokio::io::{AsyncReadExt, AsyncWriteExt};
    use tokio::sync::mpsc;
    use tokio::time::Instant;
    use tokio_util::codec::FramedWrite;
    use uuid::Uuid;

    const REMOTE: Uuid = Uuid::from_u128(7);

    fn nz(n: usize) -> NonZeroUsize {
        NonZeroUsize::new(n.max(1)).unwrap()
    }

    struct Consumer {
        _rx: ByteReader,
        tx: ByteWriter,
    }

    pub async fn case(ops: Vec<String>) -> Vec<(String, String)> {
        let first: Vec<&str> = ops.first().map(|s| s.split_whitespace().collect()).unwrap_or_default();
        let t_ms = match first.as_slice() {
            ["dl", t] => match t.parse::<u64>() {
                Ok(t) if (100..=100000).contains(&t) => t,
                _ => return ops.iter().map(|o| (o.clone(), "bad-op".to_string())).collect(),
            },
            _ => return ops.iter().map(|o| (o.clone(), "bad-op".to_string())).collect(),
        };
        let start = Instant::now();
        let (req_tx, req_rx) = mpsc::channel(16);
        let (sock_out_tx, mut sock_out_rx) = byte_channel(nz(1 << 16));
        let (sock_in_tx, sock_in_rx) = byte_channel(nz(1 << 16));
        let (stop_tx, stop_rx) = trigger::trigger();
        let config = DownlinkRuntimeConfig {
            empty_timeout: Duration::from_millis(t_ms),
            attachment_queue_size: nz(16),
            abort_on_bad_frames: true,
            remote_buffer_size: nz(4096),
            downlink_buffer_size: nz(4096),
        };
        let address = IdentifiedAddress {
            identity: REMOTE,
            address: RelativeAddress::new(Text::new("/node"), Text::new("lane")),
        };
        let rt = ValueDownlinkRuntime::new(req_rx, (sock_out_tx, sock_in_rx), stop_rx, address, config);
        let done: Arc<Mutex<Option<u64>>> = Arc::new(Mutex::new(None));
        let done2 = done.clone();
        let runtime = async move {
            rt.run().await;
            *done2.lock().unwrap() = Some(start.elapsed().as_millis() as u64);
            futures::future::pending::<()>().await;
        };
        let driver = async {
            let mut sock_in = FramedWrite::new(sock_in_tx, RawResponseMessageEncoder);
            let path = RelativeAddress::new("/node", "lane");
            let linked: ResponseMessage<&str, Bytes, Bytes> = ResponseMessage::linked(REMOTE, path.clone());
            let _ = soon(sock_in.send(linked)).await;
            settle().await;
            let mut consumers: BTreeMap<u64, Consumer> = BTreeMap::new();
            let mut ever: Vec<u64> = vec![];
            let mut seq = 0u64;
            let mut out = vec![(ops[0].clone(), format!("ok init@{}", start.elapsed().as_millis()))];
            for op in ops.iter().skip(1) {
                let p: Vec<&str> = op.split_whitespace().collect();
                let ack: String = match p.as_slice() {
                    ["attach", c] => {
                        let c: u64 = c.parse().unwrap();
                        if ever.contains(&c) {
                            "skipped".into()
                        } else {
                            ever.push(c);
                            let (to_consumer_tx, to_consumer_rx) = byte_channel(nz(1 << 16));
                            let (from_consumer_tx, from_consumer_rx) = byte_channel(nz(1 << 16));
                            let action = AttachAction::new((to_consumer_tx, from_consumer_rx), DownlinkOptions::empty());
                            if req_tx.try_send(action).is_err() {
                                "runtime-gone".into()
                            } else {
                                consumers.insert(c, Consumer { _rx: to_consumer_rx, tx: from_consumer_tx });
                                "ok".into()
                            }
                        }
                    }
                    ["dropc", c] => match consumers.remove(&c.parse::<u64>().unwrap()) {
                        Some(cons) => {
                            drop(cons);
                            "ok".into()
                        }
                        None => "skipped".into(),
                    },
                    ["ev"] => {
                        seq += 1;
                        let msg: ResponseMessage<&str, Bytes, Bytes> =
                            ResponseMessage::event(REMOTE, path.clone(), Bytes::from(format!("{}", seq)));
                        match soon(sock_in.send(msg)).await {
                            Some(Ok(())) => "ok".into(),
                            _ => "socket-closed".into(),
                        }
                    }
                    ["cmd", c] => match consumers.get_mut(&c.parse::<u64>().unwrap()) {
                        Some(cons) => {
                            seq += 1;
                            let body = format!("{}", seq).into_bytes();
                            let mut frame = BytesMut::new();
                            frame.put_u64(body.len() as u64);
                            frame.put_slice(&body);
                            match soon(cons.tx.write_all(&frame)).await {
                                Some(Ok(())) => "ok".into(),
                                _ => "cmd-failed".into(),
                            }
                        }
                        None => "skipped".into(),
                    },
                    ["adv", k] => {
                        let k: u64 = k.parse().unwrap();
                        tokio::time::sleep(Duration::from_millis(100 * k.min(100))).await;
                        "ok".into()
                    }
                    _ => "bad-op".into(),
                };
                // run to quiescence, the socket is always drained
                for _ in 0..3 {
                    settle().await;
                    let mut tmp = [0u8; 4096];
                    while let Some(Ok(n)) = soon(sock_out_rx.read(&mut tmp)).await {
                        if n == 0 {
                            break;
                        }
                    }
                }
                let st = match *done.lock().unwrap() {
                    Some(t) => format!("down @{}", t),
                    None => "up".to_string(),
                };
                let down = st.starts_with("down");
                out.push((op.clone(), format!("{} {}", ack, st)));
                if down {
                    break;
                }
            }
            stop_tx.trigger();
            out
        };
        tokio::select! {
            biased;
            out = driver => out,
            _ = runtime => vec![],
        }
    }

    pub fn gen(rng: &mut svh::Rng) -> Vec<String> {
        let mut ops = vec!["dl 1001".to_string()];
        let len = rng.range(3, 22);
        let mut next = 1u64;
        let mut live: Vec<u64> = vec![];
        for _ in 0..len {
            let c = rng.below(100);
            if c < 32 {
                let k = *rng.pick(&[1u64, 2, 3, 5, 5, 6, 9, 10, 11, 11, 12, 15, 21]);
                ops.push(format!("adv {}", k));
            } else if c < 50 {
                ops.push(format!("attach {}", next));
                live.push(next);
                next += 1;
            } else if c < 68 {
                let x = if live.is_empty() || rng.chance(1, 10) { rng.range(1, 4) } else { *rng.pick(&live) };
                ops.push(format!("dropc {}", x));
                live.retain(|y| *y != x);
            } else if c < 86 {
                ops.push("ev".into());
            } else {
                let x = if live.is_empty() || rng.chance(1, 10) { rng.range(1, 4) } else { *rng.pick(&live) };
                ops.push(format!("cmd {}", x));
            }
        }
        ops
    }
}

fn dl_case(t: &mut Trace, ops: &[String]) {
    let rt = tokio::runtime::Builder::new_current_thread().enable_time().start_paused(true).build().unwrap();
    let ops_v = ops.to_vec();
    let res = std::panic::catch_unwind(std::panic::AssertUnwindSafe(|| {
        rt.block_on(async move { tokio::time::timeout(Duration::from_secs(3600 * 48), dl::case(ops_v)).await })
    }));
    match res {
        Ok(Ok(lines)) => {
            for (op, o) in lines {
                t.op(op, o);
            }
        }
        Ok(Err(_)) => t.op("end", "hang"),
        Err(_) => t.op("end", "panic"),
    }
}

// ------------------------------------------------------------------------------------------------ coord-threads

fn threads_case(n: usize, seed: u64, len: u64) -> String {
    use std::sync::atomic::{AtomicU64, Ordering};
    use std::sync::Barrier;
    use swimos_runtime::verif::timeout_coord::{coordinator, VoteResult};
    let (voters, mut rx) = match coordinator(n) {
        Some(x) => x,
        None => return "bad-op".into(),
    };
    let ticket = Arc::new(AtomicU64::new(1));
    let barrier = Arc::new(Barrier::new(n));
    let mut handles = vec![];
    for (i, voter) in voters.into_iter().enumerate() {
        let ticket = ticket.clone();
        let barrier = barrier.clone();
        let mut rng = Rng::new(seed.wrapping_mul(31).wrapping_add(i as u64));
        handles.push(std::thread::spawn(move || {
            let mut log: Vec<String> = vec![];
            // 0: mostly votes, 1: balanced, 2: mostly rescinds, 3: strict vote / rescind alternation, 4: holds its vote
            let bias = rng.below(5);
            barrier.wait();
            let call = |vote: bool, log: &mut Vec<String>| {
                let a = ticket.fetch_add(1, Ordering::SeqCst);
                let r = if vote { voter.vote() } else { voter.rescind() };
                let b = ticket.fetch_add(1, Ordering::SeqCst);
                log.push(format!(
                    "{}{}:{}-{}",
                    if vote { 'v' } else { 'r' },
                    if r == VoteResult::Unanimous { 'U' } else { 'P' },
                    a,
                    b
                ));
            };
            for k in 0..len {
                let vote = match bias {
                    0 => rng.chance(2, 3),
                    1 => rng.chance(1, 2),
                    2 => rng.chance(1, 3),
                    3 => k % 2 == 0,
                    _ => true,
                };
                call(vote, &mut log);
                if rng.chance(1, 8) {
                    std::thread::yield_now();
                }
            }
            match rng.below(3) {
                0 => call(true, &mut log),
                1 => call(false, &mut log),
                _ => {
                    let a = ticket.fetch_add(1, Ordering::SeqCst);
                    drop(voter);
                    let b = ticket.fetch_add(1, Ordering::SeqCst);
                    log.push(format!("d:{}-{}", a, b));
                    return log;
                }
            }
            // the voter must outlive the log: it is dropped only after the final readiness check
            std::mem::forget(voter);
            log
        }));
    }
    let mut toks = vec![];
    for (i, h) in handles.into_iter().enumerate() {
        match h.join() {
            Ok(log) => toks.push(format!("t{}={}", i, if log.is_empty() { "-".to_string() } else { log.join(",") })),
            Err(_) => toks.push(format!("t{}=panic", i)),
        }
    }
    let ready = (&mut rx).now_or_never().is_some();
    toks.push(format!("ready={}", if ready { 1 } else { 0 }));
    toks.join(" ")
}


/// `wake <n> <seed> <rounds>`: the waiter. Per round a fresh coordinator for `n` voters; every voter sits on its own
/// (persistent) thread and casts ONE vote after a tiny random spin; the calling thread polls the real `Receiver` with a
/// real park/unpark waker after its own random spin, so that the final vote races with the poll. A poll that returned
/// `Pending` must be woken by the vote that completes unanimity: once every vote of the round has returned (`wake()` is
/// called inside `vote()`), a waker that has not been woken is a LOST WAKE-UP.
/// out: rounds=<r> ready=<polls that were Ready at once> pending=<p> woken=<w> lost=<l> unanimous=<votes told Unanimous>
fn wake_case(n: usize, seed: u64, rounds: u64) -> String {
    use std::sync::atomic::{AtomicBool, AtomicU64, Ordering};
    use std::task::{Context, Poll, Wake, Waker};
    use swimos_runtime::verif::timeout_coord::{coordinator, VoteResult, Voter};

    struct ParkWaker {
        thread: std::thread::Thread,
        woken: AtomicBool,
    }
    impl Wake for ParkWaker {
        fn wake(self: Arc<Self>) {
            self.woken.store(true, Ordering::SeqCst);
            self.thread.unpark();
        }
    }
    struct Shared {
        go: AtomicU64,
        done: AtomicU64,
        unanimous: AtomicU64,
        slots: Vec<Mutex<Option<Voter>>>,
    }
    let shared = Arc::new(Shared {
        go: AtomicU64::new(0),
        done: AtomicU64::new(0),
        unanimous: AtomicU64::new(0),
        slots: (0..n).map(|_| Mutex::new(None)).collect(),
    });
    let mut handles = vec![];
    for i in 0..n {
        let sh = shared.clone();
        let mut rng = Rng::new(seed.wrapping_mul(131).wrapping_add(i as u64 + 1));
        handles.push(std::thread::spawn(move || {
            for round in 1..=rounds {
                let mut idle = 0u32;
                while sh.go.load(Ordering::Acquire) != round {
                    idle += 1;
                    if idle % 512 == 0 {
                        std::thread::yield_now();
                    } else {
                        std::hint::spin_loop();
                    }
                }
                let voter = sh.slots[i].lock().unwrap().take();
                for _ in 0..rng.below(48) {
                    std::hint::spin_loop();
                }
                if let Some(v) = voter {
                    if v.vote() == VoteResult::Unanimous {
                        sh.unanimous.fetch_add(1, Ordering::SeqCst);
                    }
                    sh.done.fetch_add(1, Ordering::SeqCst);
                    drop(v);
                }
            }
        }));
    }
    let mut rng = Rng::new(seed);
    let (mut ready, mut pending, mut woken, mut lost) = (0u64, 0u64, 0u64, 0u64);
    for round in 1..=rounds {
        let (voters, mut rx) = match coordinator(n) {
            Some(x) => x,
            None => return "bad-op".into(),
        };
        for (i, v) in voters.into_iter().enumerate() {
            *shared.slots[i].lock().unwrap() = Some(v);
        }
        let pw = Arc::new(ParkWaker { thread: std::thread::current(), woken: AtomicBool::new(false) });
        let waker = Waker::from(pw.clone());
        let mut cx = Context::from_waker(&waker);
        shared.go.store(round, Ordering::Release);
        for _ in 0..rng.below(96) {
            std::hint::spin_loop();
        }
        match std::future::Future::poll(std::pin::Pin::new(&mut rx), &mut cx) {
            Poll::Ready(()) => ready += 1,
            Poll::Pending => {
                pending += 1;
                // block like a task would: parked until the waker is used (or every vote of the round has returned)
                let all = n as u64 * round;
                loop {
                    if pw.woken.load(Ordering::SeqCst) {
                        woken += 1;
                        break;
                    }
                    if shared.done.load(Ordering::SeqCst) == all {
                        if pw.woken.load(Ordering::SeqCst) {
                            woken += 1;
                        } else {
                            lost += 1;
                        }
                        break;
                    }
                    std::thread::park_timeout(Duration::from_micros(50));
                }
            }
        }
        let all = n as u64 * round;
        let mut idle = 0u32;
        while shared.done.load(Ordering::SeqCst) != all {
            idle += 1;
            if idle % 512 == 0 {
                std::thread::yield_now();
            } else {
                std::hint::spin_loop();
            }
        }
    }
    for h in handles {
        let _ = h.join();
    }
    format!(
        "rounds={} ready={} pending={} woken={} lost={} unanimous={}",
        rounds,
        ready,
        pending,
        woken,
        lost,
        shared.unanimous.load(std::sync::atomic::Ordering::SeqCst)
    )
}

fn threads_ops(t: &mut Trace, ops: &[String]) {
    for op in ops {
        let p: Vec<&str> = op.split_whitespace().collect();
        match p.as_slice() {
            ["threads", n, seed, len] => match (n.parse::<usize>(), seed.parse::<u64>(), len.parse::<u64>()) {
                (Ok(n), Ok(seed), Ok(len)) if (2..=3).contains(&n) && len <= 10000 => t.op(op, threads_case(n, seed, len)),
                _ => t.op(op, "bad-op"),
            },
            ["wake", n, seed, rounds] => match (n.parse::<usize>(), seed.parse::<u64>(), rounds.parse::<u64>()) {
                (Ok(n), Ok(seed), Ok(rounds)) if (2..=3).contains(&n) && rounds <= 10_000_000 => {
                    t.op(op, wake_case(n, seed, rounds))
                }
                _ => t.op(op, "bad-op"),
            },
            _ => t.op(op, "bad-op"),
        }
    }
}


/// A script for the runtime engine: phases of activity separated by clock advances around the timeout.
fn rt_gen(rng: &mut Rng) -> Vec<String> {
    let mut ops = vec!["rt 1001".to_string()];
    let len = rng.range(4, 28);
    let mut next_remote = 1u64;
    let mut attached: Vec<u64> = vec![];
    // most scripts start by attaching a remote (without one the write task stops the agent at the first timeout)
    if rng.chance(5, 6) {
        ops.push(format!("attach {}", next_remote));
        attached.push(next_remote);
        next_remote += 1;
        if rng.chance(2, 3) {
            ops.push(format!("link {} {}", attached[0], rng.below(2)));
        }
    }
    for _ in 0..len {
        let c = rng.below(100);
        let r = if attached.is_empty() || rng.chance(1, 15) { rng.range(1, 4) } else { *rng.pick(&attached) };
        let l = if rng.chance(1, 10) { 9 } else { rng.below(2) };
        if c < 30 {
            // advances cluster around the timeout (10 units): a bit less, a bit more, half
            let k = *rng.pick(&[1u64, 2, 3, 4, 5, 5, 6, 7, 9, 10, 11, 11, 12, 15, 21]);
            ops.push(format!("adv {}", k));
        } else if c < 36 {
            ops.push(format!("attach {}", next_remote));
            attached.push(next_remote);
            next_remote += 1;
        } else if c < 40 {
            ops.push(format!("detach {}", r));
            attached.retain(|x| *x != r);
        } else if c < 48 {
            ops.push(format!("link {} {}", r, l));
        } else if c < 52 {
            ops.push(format!("unlink {} {}", r, l));
        } else if c < 56 {
            ops.push(format!("sync {} {}", r, l));
        } else if c < 64 {
            ops.push(format!("cmd {} {}", r, l));
        } else if c < 72 {
            ops.push(format!("take {}", rng.below(2)));
        } else if c < 78 {
            ops.push(format!("ev {}", rng.below(2)));
        } else if c < 81 {
            ops.push(format!("synced {} {}", rng.below(2), r));
        } else if c < 90 {
            ops.push(format!("http {}", if rng.chance(3, 4) { "h" } else { "x" }));
        } else {
            ops.push("httpread".into());
        }
    }
    // let it run out: nothing more happens, so the agent must stop
    ops.push("adv 11".into());
    ops.push("adv 11".into());
    ops
}

fn run_case(t: &mut Trace, ops: &[String]) {
    match ops.first().and_then(|o| o.split_whitespace().next()) {
        Some("rt") => rt_case(t, ops),
        Some("threads") | Some("wake") => threads_ops(t, ops),
        Some("dl") => dl_case(t, ops),
        Some("pr") => pr_case(t, ops),
        _ => {
            for op in ops {
                t.op(op, "bad-op");
            }
        }
    }
}

fn main() {
    std::panic::set_hook(Box::new(|_| {}));
    match parse_args() {
        Mode::Gen { seed, cases, out } => {
            let engine = std::env::args().nth(5).unwrap_or_else(|| "rt".to_string());
            let mut t = Trace::create(&out);
            let mut rng = Rng::new(seed);
            for c in 0..cases {
                let ops = match engine.as_str() {
                    // every 100th case of the thread engine is a batch of waiter rounds
                    "threads" if c % 100 == 99 => {
                        vec![format!("wake {} {} {}", rng.range(2, 3), rng.next() % 1_000_000_007, 2000)]
                    }
                    "threads" => {
                        let n = rng.range(2, 3);
                        let len = *rng.pick(&[2u64, 4, 8, 16, 40, 120]);
                        vec![format!("threads {} {} {}", n, rng.next() % 1_000_000_007, len)]
                    }
                    "wake" => vec![format!("wake {} {} {}", rng.range(2, 3), rng.next() % 1_000_000_007, 4000)],
                    "dl" => dl::gen(&mut rng),
                    "pr" => pr::gen(&mut rng),
                    _ => rt_gen(&mut rng),
                };
                t.case(format!("{} seed={}", c, seed));
                run_case(&mut t, &ops);
            }
            t.finish();
        }
        Mode::Replay { ops, out } => {
            let mut t = Trace::create(&out);
            for (i, case) in ops.iter().enumerate() {
                t.case(i);
                run_case(&mut t, case);
            }
            t.finish();
        }
    }
}
