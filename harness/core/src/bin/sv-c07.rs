//! C07 correspondence: the public `ValueDownlinkRuntime` / `MapDownlinkRuntime` driven in lock-step on a paused
//! `current_thread` tokio runtime: one input at a time (attach consumer with options, remote notification,
//! consumer command, "socket drains k bytes", consumer drop, stop, socket close), run to idle, and everything
//! that came out on the consumers' readers (`DownlinkNotification`s) and, for `drain`, on the simulated remote
//! socket (`RequestMessage`s) is written as the observed output of that op.
//!
//! Line protocol (ops):
//!   new <value|map|raw> <cap> <node-len> <lane-len> <abort|ignore> <consumer-buffer>
//!   attach <sync 0|1> <keep 0|1>
//!   remote linked | synced | unlinked | eof | ev <hex> | mev upd <k> <hex> | mev rem <k> | mev clr
//!          | mev take <n> | mev drop <n> | mev bad
//!   cmd <c> <hex>            (value flavour)      mcmd <c> upd <k> <hex> | rem <k> | clr   (map flavour)
//!   drain <k>                read at most k bytes from the socket
//!   drop <c> | dropr <c> | dropw <c>              both halves / notification reader / command writer
//!   stop | sockclose
//! Output: space separated tokens `c<i>:<n1>,<n2>..` (notifications newly received by consumer i, `eof` when its
//! channel ended), for drain `read=<n>` followed by `f:<frame>` tokens (and `eof`), `done` once the runtime's
//! `run()` future has completed; `-` if nothing was observed.
use std::num::NonZeroUsize;
use std::time::Duration;

use bytes::{Buf, BufMut, Bytes, BytesMut};
use futures::{FutureExt, SinkExt};
use svh::{hex, parse_args, unhex, Mode, Rng, Trace};
use swimos_agent_protocol::encoding::map::{RawMapMessageDecoder, RawMapOperationEncoder};
use swimos_agent_protocol::{MapMessage, MapOperation};
use swimos_api::address::RelativeAddress;
use swimos_messages::protocol::{
    Operation, RawRequestMessageDecoder, RawResponseMessageEncoder, ResponseMessage,
};
use swimos_model::Text;
use swimos_runtime::downlink::failure::{AlwaysAbortStrategy, AlwaysIgnoreStrategy};
use swimos_runtime::downlink::{
    NoInterpretation, AttachAction, DownlinkOptions, DownlinkRuntimeConfig, IdentifiedAddress, MapDownlinkRuntime,
    ValueDownlinkRuntime,
};
use swimos_utilities::byte_channel::{byte_channel, BudgetedFutureExt, ByteReader, ByteWriter};
use swimos_utilities::trigger;
use tokio::io::{AsyncReadExt, AsyncWriteExt};
use tokio::sync::mpsc;
use tokio::task::JoinHandle;
use tokio_util::codec::{Decoder, Encoder, FramedWrite};
use uuid::Uuid;

const REMOTE: Uuid = Uuid::from_u128(7);
const BIG: usize = 1 << 16;

fn nz(n: usize) -> NonZeroUsize {
    NonZeroUsize::new(n.max(1)).unwrap()
}

struct Consumer {
    rx: Option<ByteReader>,
    rbuf: BytesMut,
    tx: Option<ByteWriter>,
    eof: bool,
}

struct Rig {
    map: bool,      // event bodies are interpreted map messages (flavour `map`)
    map_cmds: bool, // consumers send map operations (flavours `map` and `raw`)
    node: String,
    lane: String,
    cbuf: usize,
    req_tx: mpsc::Sender<AttachAction>,
    sock_in: Option<FramedWrite<ByteWriter, RawResponseMessageEncoder>>,
    sock_out: Option<ByteReader>,
    sock_buf: BytesMut,
    sock_eof: bool,
    stop_tx: Option<trigger::Sender>,
    handle: JoinHandle<()>,
    consumers: Vec<Consumer>,
    done_reported: bool,
}

async fn settle() {
    // Paused clock: the sleep completes only when every other task is idle.
    tokio::time::sleep(Duration::from_millis(1)).await;
}

/// Decode the raw downlink notifications (tag, and for events a length prefixed body).
fn decode_notes(map: bool, buf: &mut BytesMut, out: &mut Vec<String>) {
    loop {
        if buf.is_empty() {
            return;
        }
        match buf[0] {
            1 => {
                buf.advance(1);
                out.push("linked".into());
            }
            2 => {
                buf.advance(1);
                out.push("synced".into());
            }
            4 => {
                buf.advance(1);
                out.push("unlinked".into());
            }
            3 => {
                if buf.len() < 9 {
                    return;
                }
                let len = (&buf[1..9]).get_u64() as usize;
                if buf.len() < 9 + len {
                    return;
                }
                buf.advance(9);
                let body = buf.split_to(len);
                out.push(format!("ev:{}", if map { map_body(body) } else { hex(&body) }));
            }
            t => {
                out.push(format!("badtag{}", t));
                buf.clear();
                return;
            }
        }
    }
}

fn key_of(bs: &[u8]) -> String {
    match std::str::from_utf8(bs).ok().and_then(|s| s.parse::<u64>().ok()) {
        Some(k) => k.to_string(),
        None => format!("x{}", hex(bs)),
    }
}

/// Canonical form of the body of a map event as delivered to a consumer (raw map message encoding).
fn map_body(mut body: BytesMut) -> String {
    if body.is_empty() {
        return "-".into();
    }
    let raw = hex(&body);
    let mut dec = RawMapMessageDecoder::default();
    match dec.decode(&mut body) {
        Ok(Some(MapMessage::Update { key, value })) => format!("upd.{}.{}", key_of(&key), hex(&value)),
        Ok(Some(MapMessage::Remove { key })) => format!("rem.{}", key_of(&key)),
        Ok(Some(MapMessage::Clear)) => "clr".into(),
        Ok(Some(MapMessage::Take(n))) => format!("take.{}", n),
        Ok(Some(MapMessage::Drop(n))) => format!("drop.{}", n),
        _ => format!("raw{}", raw),
    }
}

impl Rig {
    fn start(flavour: &str, cap: usize, node_len: usize, lane_len: usize, abort: bool, cbuf: usize) -> Rig {
        let map = flavour == "map";
        let raw = flavour == "raw";
        let node = format!("/{}", "n".repeat(node_len.saturating_sub(1)));
        let lane = "l".repeat(lane_len);
        let (req_tx, req_rx) = mpsc::channel(8);
        let (sock_out_tx, sock_out_rx) = byte_channel(nz(cap));
        let (sock_in_tx, sock_in_rx) = byte_channel(nz(BIG));
        let (stop_tx, stop_rx) = trigger::trigger();
        let config = DownlinkRuntimeConfig {
            empty_timeout: Duration::from_secs(100_000_000),
            attachment_queue_size: nz(16),
            abort_on_bad_frames: abort,
            remote_buffer_size: nz(4096),
            downlink_buffer_size: nz(4096),
        };
        let address = IdentifiedAddress {
            identity: REMOTE,
            address: RelativeAddress::new(Text::new(&node), Text::new(&lane)),
        };
        let budget = nz(1 << 40);
        let handle = if raw {
            // map-event downlinks of the server / self-decoding clients: frames are passed through
            let rt = MapDownlinkRuntime::with_interpretation(
                req_rx,
                (sock_out_tx, sock_in_rx),
                stop_rx,
                address,
                config,
                AlwaysIgnoreStrategy,
                NoInterpretation,
            );
            tokio::spawn(rt.run().with_budget(budget))
        } else if map {
            if abort {
                let rt = MapDownlinkRuntime::new(req_rx, (sock_out_tx, sock_in_rx), stop_rx, address, config, AlwaysAbortStrategy);
                tokio::spawn(rt.run().with_budget(budget))
            } else {
                let rt = MapDownlinkRuntime::new(req_rx, (sock_out_tx, sock_in_rx), stop_rx, address, config, AlwaysIgnoreStrategy);
                tokio::spawn(rt.run().with_budget(budget))
            }
        } else {
            let rt = ValueDownlinkRuntime::new(req_rx, (sock_out_tx, sock_in_rx), stop_rx, address, config);
            tokio::spawn(rt.run().with_budget(budget))
        };
        Rig {
            map,
            map_cmds: map || raw,
            node,
            lane,
            cbuf,
            req_tx,
            sock_in: Some(FramedWrite::new(sock_in_tx, RawResponseMessageEncoder)),
            sock_out: Some(sock_out_rx),
            sock_buf: BytesMut::new(),
            sock_eof: false,
            stop_tx: Some(stop_tx),
            handle,
            consumers: vec![],
            done_reported: false,
        }
    }

    /// Run to idle, reading everything the consumers have been sent; returns the `c<i>:..` tokens.
    async fn quiesce(&mut self) -> Vec<String> {
        let mut notes: Vec<Vec<String>> = vec![vec![]; self.consumers.len()];
        loop {
            settle().await;
            let mut progress = false;
            for (i, c) in self.consumers.iter_mut().enumerate() {
                if c.eof {
                    continue;
                }
                if let Some(rx) = c.rx.as_mut() {
                    loop {
                        let mut tmp = [0u8; 512];
                        match rx.read(&mut tmp).now_or_never() {
                            Some(Ok(0)) => {
                                c.eof = true;
                                progress = true;
                                decode_notes(self.map, &mut c.rbuf, &mut notes[i]);
                                if !c.rbuf.is_empty() {
                                    notes[i].push(format!("partial{}", hex(&c.rbuf)));
                                }
                                notes[i].push("eof".into());
                                break;
                            }
                            Some(Ok(n)) => {
                                c.rbuf.put_slice(&tmp[..n]);
                                progress = true;
                            }
                            Some(Err(_)) => {
                                c.eof = true;
                                notes[i].push("err".into());
                                break;
                            }
                            None => break,
                        }
                    }
                    decode_notes(self.map, &mut c.rbuf, &mut notes[i]);
                }
            }
            if !progress {
                break;
            }
        }
        let mut toks = vec![];
        for (i, ns) in notes.into_iter().enumerate() {
            if !ns.is_empty() {
                toks.push(format!("c{}:{}", i, ns.join(",")));
            }
        }
        toks
    }

    fn finished(&self) -> bool {
        self.handle.is_finished()
    }

    fn frame_tokens(&mut self, toks: &mut Vec<String>) {
        let mut dec = RawRequestMessageDecoder;
        loop {
            match dec.decode(&mut self.sock_buf) {
                Ok(Some(msg)) => toks.push(match msg.envelope {
                    Operation::Link => "f:link".to_string(),
                    Operation::Sync => "f:sync".to_string(),
                    Operation::Unlink => "f:unlink".to_string(),
                    Operation::Command(body) => format!("f:cmd:{}", hex(&body)),
                }),
                Ok(None) => break,
                Err(_) => {
                    toks.push("f:err".into());
                    self.sock_buf.clear();
                    break;
                }
            }
        }
    }

    async fn exec(&mut self, op: &str) -> String {
        let parts: Vec<&str> = op.split_whitespace().collect();
        let mut toks: Vec<String> = vec![];
        let was_done = self.finished();
        let cidx = |s: &str| s.parse::<usize>().ok();
        match parts.as_slice() {
            ["drain", k] => {
                let k: usize = k.parse().unwrap();
                match self.sock_out.as_mut() {
                    None => toks.push("closed".into()),
                    Some(rx) => {
                        let mut got = 0usize;
                        let mut eof = false;
                        while got < k && !self.sock_eof {
                            let mut tmp = vec![0u8; (k - got).min(4096)];
                            match rx.read(&mut tmp).now_or_never() {
                                Some(Ok(0)) => {
                                    self.sock_eof = true;
                                    eof = true;
                                }
                                Some(Ok(n)) => {
                                    self.sock_buf.put_slice(&tmp[..n]);
                                    got += n;
                                }
                                Some(Err(_)) => {
                                    self.sock_eof = true;
                                    eof = true;
                                }
                                None => break,
                            }
                        }
                        toks.push(format!("read={}", got));
                        self.frame_tokens(&mut toks);
                        if eof {
                            toks.push("eof".into());
                        }
                    }
                }
            }
            _ if was_done => return "stopped".into(),
            ["attach", s, k] => {
                let mut options = DownlinkOptions::empty();
                if *s == "1" {
                    options |= DownlinkOptions::SYNC;
                }
                if *k == "1" {
                    options |= DownlinkOptions::KEEP_LINKED;
                }
                let (to_consumer_tx, to_consumer_rx) = byte_channel(nz(self.cbuf));
                let (from_consumer_tx, from_consumer_rx) = byte_channel(nz(BIG));
                self.consumers.push(Consumer {
                    rx: Some(to_consumer_rx),
                    rbuf: BytesMut::new(),
                    tx: Some(from_consumer_tx),
                    eof: false,
                });
                let action = AttachAction::new((to_consumer_tx, from_consumer_rx), options);
                if self.req_tx.send(action).now_or_never().is_none() {
                    toks.push("attach-blocked".into());
                }
            }
            ["remote", "ev", ..] if self.map => return "bad-op".into(),
            ["remote", "mev", ..] if !self.map => return "bad-op".into(),
            ["cmd", ..] if self.map_cmds => return "bad-op".into(),
            ["mcmd", ..] if !self.map_cmds => return "bad-op".into(),
            ["remote", rest @ ..] => {
                let (node, lane) = (self.node.clone(), self.lane.clone());
                let path = RelativeAddress::new(node.as_str(), lane.as_str());
                let msg: Option<ResponseMessage<&str, Bytes, Bytes>> = match rest {
                    ["linked"] => Some(ResponseMessage::linked(REMOTE, path)),
                    ["synced"] => Some(ResponseMessage::synced(REMOTE, path)),
                    ["unlinked"] => Some(ResponseMessage::unlinked(REMOTE, path, None)),
                    ["ev", h] => unhex(h).map(|b| ResponseMessage::event(REMOTE, path, Bytes::from(b))),
                    ["mev", "upd", k, h] => unhex(h).map(|v| {
                        let mut b = format!("@update(key:{}) ", k).into_bytes();
                        b.extend_from_slice(&v);
                        ResponseMessage::event(REMOTE, path, Bytes::from(b))
                    }),
                    ["mev", "rem", k] => Some(ResponseMessage::event(REMOTE, path, Bytes::from(format!("@remove(key:{})", k)))),
                    ["mev", "clr"] => Some(ResponseMessage::event(REMOTE, path, Bytes::from_static(b"@clear"))),
                    ["mev", "take", n] => Some(ResponseMessage::event(REMOTE, path, Bytes::from(format!("@take({})", n)))),
                    ["mev", "drop", n] => Some(ResponseMessage::event(REMOTE, path, Bytes::from(format!("@drop({})", n)))),
                    ["mev", "bad"] => Some(ResponseMessage::event(REMOTE, path, Bytes::from_static(b"@bogus(1) 2"))),
                    ["eof"] => {
                        self.sock_in = None;
                        None
                    }
                    _ => return "bad-op".into(),
                };
                if let Some(msg) = msg {
                    match self.sock_in.as_mut() {
                        None => return "na".into(),
                        Some(w) => {
                            if w.send(msg).now_or_never().is_none() {
                                toks.push("remote-blocked".into());
                            }
                        }
                    }
                }
            }
            ["cmd", c, h] => {
                let body = match unhex(h) {
                    Some(b) => b,
                    None => return "bad-op".into(),
                };
                match cidx(c).and_then(|i| self.consumers.get_mut(i)).and_then(|c| c.tx.as_mut()) {
                    None => return "na".into(),
                    Some(tx) => {
                        let mut frame = BytesMut::new();
                        frame.put_u64(body.len() as u64);
                        frame.put_slice(&body);
                        match tx.write_all(&frame).now_or_never() {
                            Some(Ok(())) => {}
                            Some(Err(_)) => toks.push("cmd-closed".into()),
                            None => toks.push("cmd-blocked".into()),
                        }
                    }
                }
            }
            ["mcmd", c, rest @ ..] => {
                let opn: MapOperation<Bytes, Bytes> = match rest {
                    ["upd", k, h] => match unhex(h) {
                        Some(v) => MapOperation::Update { key: Bytes::from(k.to_string()), value: Bytes::from(v) },
                        None => return "bad-op".into(),
                    },
                    ["rem", k] => MapOperation::Remove { key: Bytes::from(k.to_string()) },
                    ["clr"] => MapOperation::Clear,
                    _ => return "bad-op".into(),
                };
                match cidx(c).and_then(|i| self.consumers.get_mut(i)).and_then(|c| c.tx.as_mut()) {
                    None => return "na".into(),
                    Some(tx) => {
                        let mut frame = BytesMut::new();
                        RawMapOperationEncoder.encode(opn, &mut frame).expect("encode");
                        match tx.write_all(&frame).now_or_never() {
                            Some(Ok(())) => {}
                            Some(Err(_)) => toks.push("cmd-closed".into()),
                            None => toks.push("cmd-blocked".into()),
                        }
                    }
                }
            }
            ["drop", c] | ["dropr", c] | ["dropw", c] => {
                let both = parts[0] == "drop";
                match cidx(c).and_then(|i| self.consumers.get_mut(i)) {
                    None => return "na".into(),
                    Some(cons) => {
                        if both || parts[0] == "dropr" {
                            cons.rx = None;
                        }
                        if both || parts[0] == "dropw" {
                            cons.tx = None;
                        }
                    }
                }
            }
            ["stop"] => {
                if let Some(tx) = self.stop_tx.take() {
                    tx.trigger();
                }
            }
            ["sockclose"] => {
                self.sock_out = None;
            }
            _ => return "bad-op".into(),
        }
        let mut ctoks = self.quiesce().await;
        ctoks.append(&mut toks);
        if self.finished() && !self.done_reported {
            self.done_reported = true;
            ctoks.push("done".into());
        }
        if ctoks.is_empty() {
            "-".into()
        } else {
            ctoks.join(" ")
        }
    }
}

async fn run_case_async(ops: &[String]) -> Vec<String> {
    let mut rig: Option<Rig> = None;
    let mut outs = vec![];
    for op in ops {
        let parts: Vec<&str> = op.split_whitespace().collect();
        if let ["new", fl, cap, node, lane, strat, cbuf] = parts.as_slice() {
            if let Some(r) = rig.take() {
                r.handle.abort();
            }
            let map: &str = fl;
            if !["value", "map", "raw"].contains(&map) {
                outs.push("bad-op".into());
                continue;
            }
            let mut r = Rig::start(
                map,
                cap.parse().unwrap_or(64),
                node.parse().unwrap_or(5),
                lane.parse().unwrap_or(4),
                *strat != "ignore",
                cbuf.parse().unwrap_or(4096),
            );
            let _ = r.quiesce().await;
            rig = Some(r);
            outs.push("ok".to_string());
        } else if let Some(r) = rig.as_mut() {
            outs.push(r.exec(op).await);
        } else {
            outs.push("bad-op".into());
        }
    }
    if let Some(r) = rig.take() {
        r.handle.abort();
    }
    outs
}

fn run_case(t: &mut Trace, ops: &[String]) {
    let rt = tokio::runtime::Builder::new_current_thread()
        .enable_time()
        .start_paused(true)
        .build()
        .expect("runtime");
    let res = std::panic::catch_unwind(std::panic::AssertUnwindSafe(|| {
        rt.block_on(run_case_async(ops).with_budget(nz(1 << 40)))
    }));
    match res {
        Ok(outs) => {
            for (op, o) in ops.iter().zip(outs) {
                t.op(op, o);
            }
        }
        Err(_) => {
            for op in ops {
                t.op(op, "panic");
            }
        }
    }
}

// ------------------------------------------------------------------------------------------------ generator

struct GenState {
    map: bool,      // events are map messages
    map_cmds: bool, // commands are map operations
    n: usize,            // consumers attached
    w_live: Vec<bool>,   // command writer still held
    r_live: Vec<bool>,
    safe: Vec<bool>,     // registration certainly consumed by the write task (may be sent commands / dropped)
    risky: bool,         // the write task may be waiting for a flush with no producers
    hdr: usize,
}

fn small_body(rng: &mut Rng) -> String {
    let r = rng.below(10);
    let len = if r < 2 { 0 } else if r < 8 { rng.range(1, 3) } else { rng.range(4, 24) } as usize;
    let bs: Vec<u8> = (0..len).map(|_| b'0' + rng.below(10) as u8).collect();
    hex(&bs)
}

fn gen_case(rng: &mut Rng, t: &mut Trace, id: String) {
    let flavour = match rng.below(10) {
        0..=4 => "value",
        5..=7 => "map",
        _ => "raw",
    };
    let map = flavour == "map";
    let node = rng.range(2, 6) as usize;
    let lane = rng.range(1, 5) as usize;
    let hdr = 32 + node + lane;
    let cap = match rng.below(6) {
        0 => rng.range(1, 8),
        1 | 2 => rng.range(8, hdr as u64 + 10),
        3 | 4 => rng.range(hdr as u64, 3 * hdr as u64),
        _ => 4096,
    } as usize;
    let strat = if rng.chance(1, 3) { "ignore" } else { "abort" };
    let cbuf = *rng.pick(&[1usize, 7, 16, 64, 4096]);
    let mut ops = vec![format!("new {} {} {} {} {} {}", flavour, cap, node, lane, strat, cbuf)];
    let mut g = GenState { map, map_cmds: flavour != "value", n: 0, w_live: vec![], r_live: vec![], safe: vec![], risky: cap < hdr, hdr };
    let len = rng.range(4, 40);
    // A well-behaved remote most of the time; a misbehaving one (any notification at any time) otherwise.
    let polite = rng.chance(5, 6);
    let mut linked = false;
    let rt = tokio::runtime::Builder::new_current_thread().enable_time().start_paused(true).build().expect("runtime");
    let res = std::panic::catch_unwind(std::panic::AssertUnwindSafe(|| {
        rt.block_on(
            async {
                let mut outs: Vec<String> = vec![];
                let mut rig: Option<Rig> = None;
                let mut i = 0usize;
                let mut forced: Vec<String> = vec![];
                if g.risky && rng.chance(2, 3) {
                    forced.push("drain 100000".into());
                }
                while i < ops.len() || (outs.len() as u64) < len + 1 || !forced.is_empty() {
                    if i >= ops.len() {
                        let op = if !forced.is_empty() && rng.chance(4, 5) {
                            forced.pop().unwrap()
                        } else {
                            next_op(rng, &mut g, polite, &mut linked)
                        };
                        ops.push(op);
                    }
                    let op = ops[i].clone();
                    i += 1;
                    let parts: Vec<&str> = op.split_whitespace().collect();
                    let out = if parts[0] == "new" {
                        let mut r = Rig::start(flavour, cap, node, lane, strat != "ignore", cbuf);
                        let _ = r.quiesce().await;
                        rig = Some(r);
                        "ok".to_string()
                    } else {
                        rig.as_mut().unwrap().exec(&op).await
                    };
                    // generator bookkeeping that depends on what was observed
                    if parts[0] == "drain" && g.risky {
                        if out.starts_with("read=0") || out.contains("closed") {
                            g.risky = false;
                            for s in g.safe.iter_mut() {
                                *s = true;
                            }
                        } else {
                            forced.push("drain 100000".into());
                        }
                    }
                    if (parts[0] == "drop" || parts[0] == "dropw") && g.n > 0 && !g.w_live.iter().any(|b| *b) && !g.risky {
                        g.risky = true;
                        if rng.chance(2, 3) {
                            forced.push("drain 100000".into());
                        }
                    }
                    let stopped = out == "stopped";
                    outs.push(out);
                    if stopped && rng.chance(2, 3) {
                        break;
                    }
                    if outs.len() > 120 {
                        break;
                    }
                }
                if let Some(r) = rig.take() {
                    r.handle.abort();
                }
                outs
            }
            .with_budget(nz(1 << 40)),
        )
    }));
    t.case(id);
    match res {
        Ok(outs) => {
            for (op, o) in ops.iter().zip(outs) {
                t.op(op, o);
            }
        }
        Err(_) => {
            for op in &ops {
                t.op(op, "panic");
            }
        }
    }
}

fn next_op(rng: &mut Rng, g: &mut GenState, polite: bool, linked: &mut bool) -> String {
    loop {
        let r = rng.below(100);
        if r < 14 || g.n == 0 && r < 40 {
            if g.n >= 5 {
                continue;
            }
            g.n += 1;
            g.w_live.push(true);
            g.r_live.push(true);
            g.safe.push(!g.risky);
            let sync = if rng.chance(7, 10) { 1 } else { 0 };
            return format!("attach {} {}", sync, rng.below(2));
        } else if r < 40 {
            // remote notification
            let q = rng.below(100);
            if polite {
                if !*linked {
                    *linked = true;
                    return "remote linked".into();
                }
                if q < 22 {
                    return "remote synced".into();
                }
                if q < 25 {
                    return "remote unlinked".into();
                }
                if q < 26 {
                    return "remote eof".into();
                }
            } else {
                if q < 15 {
                    *linked = true;
                    return "remote linked".into();
                }
                if q < 35 {
                    return "remote synced".into();
                }
                if q < 39 {
                    return "remote unlinked".into();
                }
                if q < 41 {
                    return "remote eof".into();
                }
            }
            if g.map {
                let k = rng.range(1, 3);
                return match rng.below(12) {
                    0..=6 => format!("remote mev upd {} {}", k, small_body(rng)),
                    7 | 8 => format!("remote mev rem {}", k),
                    9 => "remote mev clr".into(),
                    10 => format!("remote mev {} {}", if rng.chance(1, 2) { "take" } else { "drop" }, rng.below(3)),
                    _ => if rng.chance(1, 3) { "remote mev bad".into() } else { format!("remote mev upd {} {}", k, small_body(rng)) },
                };
            } else {
                return format!("remote ev {}", small_body(rng));
            }
        } else if r < 66 {
            // command from a consumer whose registration is known to have been consumed
            let cands: Vec<usize> = (0..g.n).filter(|&i| g.w_live[i] && g.safe[i]).collect();
            if cands.is_empty() {
                continue;
            }
            let c = *rng.pick(&cands);
            if g.map_cmds {
                let k = rng.range(1, 3);
                return match rng.below(10) {
                    0..=5 => format!("mcmd {} upd {} {}", c, k, small_body(rng)),
                    6 | 7 => format!("mcmd {} rem {}", c, k),
                    _ => format!("mcmd {} clr", c),
                };
            } else {
                return format!("cmd {} {}", c, small_body(rng));
            }
        } else if r < 88 {
            let k = match rng.below(8) {
                0 => rng.range(1, 5),
                1 | 2 => rng.range(5, g.hdr as u64),
                3 | 4 => rng.range(g.hdr as u64, 2 * g.hdr as u64 + 30),
                _ => 100000,
            };
            return format!("drain {}", k);
        } else if r < 96 {
            let cands: Vec<usize> = (0..g.n).filter(|&i| g.safe[i] && (g.w_live[i] || g.r_live[i])).collect();
            if cands.is_empty() {
                continue;
            }
            let c = *rng.pick(&cands);
            let kind = rng.below(4);
            if kind < 2 {
                g.w_live[c] = false;
                g.r_live[c] = false;
                return format!("drop {}", c);
            } else if kind == 2 {
                g.r_live[c] = false;
                return format!("dropr {}", c);
            } else {
                g.w_live[c] = false;
                return format!("dropw {}", c);
            }
        } else if r < 98 {
            return "stop".into();
        } else {
            return "sockclose".into();
        }
    }
}

fn main() {
    match parse_args() {
        Mode::Gen { seed, cases, out } => {
            let mut t = Trace::create(&out);
            let mut rng = Rng::new(seed);
            for c in 0..cases {
                let mut r = rng.fork();
                gen_case(&mut r, &mut t, format!("{} seed={}", c, seed));
            }
            t.finish();
        }
        Mode::Replay { ops, out } => {
            let mut t = Trace::create(&out);
            for (i, case) in ops.iter().enumerate() {
                t.case(i);
                run_case(&mut t, case);
            }
            t.finish();
        }
    }
}
