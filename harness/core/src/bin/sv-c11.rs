//! C11 correspondence harness.
//!
//! Engines (selected by the 5th argument of `gen`, or by the first op of a replayed case):
//!   pure   : real `ReconEncoder` (verif_hooks re-export) composed with the real `peel_envelope_header_str`
//!            (`rt …` lines) and the real reader on hand-made frames of the modelled fragment (`peel …` lines)
//!   fuzz   : the real reader on arbitrary mutated frames (monitor only: no panic)
use std::panic::{catch_unwind, AssertUnwindSafe};

use bytes::{Bytes, BytesMut};
use svh::{hex, parse_args, unhex, Mode, Rng, Trace};
use swimos_api::address::RelativeAddress;
use swimos_messages::protocol::{BytesRequestMessage, BytesResponseMessage, Notification, Operation, RequestMessage, ResponseMessage};
use swimos_messages::remote_protocol::NoSuchAgent;
use swimos_messages::warp::{peel_envelope_header_str, RawEnvelope};
use swimos_model::Text;
use swimos_remote::verif::ReconEncoder;
use swimos_utilities::encoding::BytesStr;
use tokio_util::codec::Encoder;
use uuid::Uuid;

// ------------------------------------------------------------------------------------------------ pure part

thread_local! {
    static LAST_PANIC: std::cell::RefCell<String> = const { std::cell::RefCell::new(String::new()) };
}

/// Panic hook: remember the message (nothing is printed).
fn install_panic_hook() {
    std::panic::set_hook(Box::new(|info| {
        let msg = if let Some(s) = info.payload().downcast_ref::<&str>() {
            s.to_string()
        } else if let Some(s) = info.payload().downcast_ref::<String>() {
            s.clone()
        } else {
            String::new()
        };
        LAST_PANIC.with(|c| *c.borrow_mut() = msg);
    }));
}

/// Canonical name of the last panic: which `unwrap`/`finish` fired.
fn last_panic_cause() -> &'static str {
    LAST_PANIC.with(|c| {
        let m = c.borrow();
        if m.contains("Err::Incomplete") {
            "finish-incomplete"
        } else if m.contains("CharTryFromError") {
            "char-try-from"
        } else {
            "other"
        }
    })
}

fn hs(s: &str) -> String {
    hex(s.as_bytes())
}

fn render_env(env: RawEnvelope<'_>) -> String {
    let f = |k: &str, n: &str, l: &str, b: &str| format!("env {} {} {} {}", k, hs(n), hs(l), hs(b));
    match env {
        RawEnvelope::Auth(_) => "auth".into(),
        RawEnvelope::DeAuth(_) => "deauth".into(),
        RawEnvelope::Link { node_uri, lane_uri, body, .. } => f("link", &node_uri, &lane_uri, &body),
        RawEnvelope::Sync { node_uri, lane_uri, body, .. } => f("sync", &node_uri, &lane_uri, &body),
        RawEnvelope::Unlink { node_uri, lane_uri, body } => f("unlink", &node_uri, &lane_uri, &body),
        RawEnvelope::Command { node_uri, lane_uri, body } => f("command", &node_uri, &lane_uri, &body),
        RawEnvelope::Linked { node_uri, lane_uri, body, .. } => f("linked", &node_uri, &lane_uri, &body),
        RawEnvelope::Synced { node_uri, lane_uri, body } => f("synced", &node_uri, &lane_uri, &body),
        RawEnvelope::Unlinked { node_uri, lane_uri, body } => f("unlinked", &node_uri, &lane_uri, &body),
        RawEnvelope::Event { node_uri, lane_uri, body } => f("event", &node_uri, &lane_uri, &body),
    }
}

/// Real reader on one frame.
fn real_peel(frame: &str) -> String {
    match catch_unwind(AssertUnwindSafe(|| peel_envelope_header_str(frame).map(render_env))) {
        Err(_) => format!("panic {}", last_panic_cause()),
        Ok(Err(_)) => "err".into(),
        Ok(Ok(s)) => s,
    }
}

/// Real writer. `body = None` only matters for `unlinked` (`Unlinked(None)`).
fn real_encode(kind: &str, node: &str, lane: Option<&str>, body: Option<&str>) -> Option<Vec<u8>> {
    let mut enc = ReconEncoder;
    let mut dst = BytesMut::new();
    let id = Uuid::from_u128(7);
    let path = || RelativeAddress::new(BytesStr::from(node), BytesStr::from(lane.unwrap_or("")));
    let b = || Bytes::copy_from_slice(body.unwrap_or("").as_bytes());
    let req = |op: Operation<Bytes>| -> BytesRequestMessage { RequestMessage { origin: id, path: path(), envelope: op } };
    let res = |n: Notification<Bytes, Bytes>| -> BytesResponseMessage { ResponseMessage { origin: id, path: path(), envelope: n } };
    let r = catch_unwind(AssertUnwindSafe(|| match kind {
        "link" => enc.encode(req(Operation::Link), &mut dst).is_ok(),
        "sync" => enc.encode(req(Operation::Sync), &mut dst).is_ok(),
        "unlink" => enc.encode(req(Operation::Unlink), &mut dst).is_ok(),
        "command" => enc.encode(req(Operation::Command(b())), &mut dst).is_ok(),
        "linked" => enc.encode(res(Notification::Linked), &mut dst).is_ok(),
        "synced" => enc.encode(res(Notification::Synced), &mut dst).is_ok(),
        "unlinked" => enc.encode(res(Notification::Unlinked(body.map(|_| b()))), &mut dst).is_ok(),
        "event" => enc.encode(res(Notification::Event(b())), &mut dst).is_ok(),
        "nosuch" => enc
            .encode(NoSuchAgent { node: Text::new(node), lane: lane.map(Text::new) }, &mut dst)
            .is_ok(),
        _ => false,
    }));
    match r {
        Ok(true) => Some(dst.to_vec()),
        _ => None,
    }
}

fn opt_str(h: &str) -> Option<Option<String>> {
    if h == "none" {
        Some(None)
    } else {
        unhex(h).and_then(|b| String::from_utf8(b).ok()).map(Some)
    }
}

fn exec_pure(op: &str) -> String {
    let parts: Vec<&str> = op.split_whitespace().collect();
    match parts.as_slice() {
        ["rt", kind, n, l, b] => {
            let (Some(Some(node)), Some(lane), Some(body)) = (opt_str(n), opt_str(l), opt_str(b)) else {
                return "bad-op".into();
            };
            match real_encode(kind, &node, lane.as_deref(), body.as_deref()) {
                None => "encoder-failed".into(),
                Some(frame) => match std::str::from_utf8(&frame) {
                    Ok(text) => format!("{} {}", real_peel(text), hex(&frame)),
                    Err(_) => format!("not-utf8 {}", hex(&frame)),
                },
            }
        }
        ["peel", f] => match unhex(f).and_then(|b| String::from_utf8(b).ok()) {
            Some(frame) => real_peel(&frame),
            None => "bad-op".into(),
        },
        _ => "bad-op".into(),
    }
}


// ------------------------------------------------------------------------------------------------ socket rig
//
// The public `RemoteTask` over an in-memory duplex web socket (ratchet on `tokio::io::duplex`), on a paused
// current-thread runtime: after every op the harness sleeps (virtual time), which returns exactly when every task is
// idle, then reports what every attached downlink, every resolved agent channel and the peer observed.
mod sock {
    use super::*;
    use futures::{SinkExt, StreamExt};
    use ratchet::{NoExt, Role, WebSocket, WebSocketConfig};
    use std::collections::{HashMap, HashSet};
    use std::num::NonZeroUsize;
    use std::sync::{Arc, Mutex};
    use std::time::Duration;
    use swimos_messages::protocol::{
        RawRequestMessageDecoder, RawRequestMessageEncoder, RawResponseMessageDecoder, RawResponseMessageEncoder,
    };
    use swimos_messages::remote_protocol::{AttachClient, FindNode, NodeConnectionRequest};
    use swimos_remote::RemoteTask;
    use swimos_utilities::byte_channel::{byte_channel, ByteWriter};
    use swimos_utilities::trigger;
    use tokio::sync::{mpsc, oneshot};
    use tokio::task::JoinHandle;
    use tokio_util::codec::{FramedRead, FramedWrite};

    const ID: Uuid = Uuid::from_u128(1484);
    const BUF: usize = 1 << 16;

    #[derive(Debug, Clone)]
    enum Ev {
        Find(String),
        Agent(usize, String),
        Dl(u64, String),
        Peer(String),
    }

    type AgentWriter = FramedWrite<ByteWriter, RawResponseMessageEncoder>;
    type DlWriter = FramedWrite<ByteWriter, RawRequestMessageEncoder>;

    struct AgentEnd {
        node: String,
        writer: Option<AgentWriter>,
        reader_task: Option<JoinHandle<()>>,
    }

    struct DlEnd {
        node: String,
        lane: String,
        writer: Option<DlWriter>,
        reader_task: Option<JoinHandle<()>>,
    }

    fn body_hex(b: &[u8]) -> String {
        hex(b)
    }

    fn origin_tag(o: Uuid) -> &'static str {
        if o == ID {
            ""
        } else {
            "!origin"
        }
    }

    fn render_request(m: &BytesRequestMessage) -> String {
        let (k, b) = match &m.envelope {
            Operation::Link => ("link", "none".to_string()),
            Operation::Sync => ("sync", "none".to_string()),
            Operation::Unlink => ("unlink", "none".to_string()),
            Operation::Command(b) => ("command", body_hex(b)),
        };
        format!("{},{},{},{}{}", k, hs(m.path.node.as_str()), hs(m.path.lane.as_str()), b, origin_tag(m.origin))
    }

    fn render_response(m: &BytesResponseMessage) -> String {
        let (k, b) = match &m.envelope {
            Notification::Linked => ("linked", "none".to_string()),
            Notification::Synced => ("synced", "none".to_string()),
            Notification::Unlinked(None) => ("unlinked", "none".to_string()),
            Notification::Unlinked(Some(b)) => ("unlinked", body_hex(b)),
            Notification::Event(b) => ("event", body_hex(b)),
        };
        format!("{},{},{},{}{}", k, hs(m.path.node.as_str()), hs(m.path.lane.as_str()), b, origin_tag(m.origin))
    }

    pub struct Rig {
        ev_tx: mpsc::UnboundedSender<Ev>,
        ev_rx: mpsc::UnboundedReceiver<Ev>,
        attach_tx: mpsc::Sender<AttachClient>,
        stop_tx: Option<trigger::Sender>,
        peer_tx: tokio::io::WriteHalf<tokio::io::DuplexStream>, // the peer speaks raw RFC 6455 frames
        resolvable: Arc<Mutex<HashSet<String>>>,
        agents: Arc<Mutex<Vec<AgentEnd>>>,
        dls: HashMap<u64, DlEnd>,
        ows: HashMap<u64, DlEnd>, // send-only clients (`AttachClient::OneWay`): writer only
        task: Option<JoinHandle<()>>,
        counter: u64,
        _aux: Vec<JoinHandle<()>>,
    }

    impl Rig {
        pub fn new() -> Rig {
            let (stop_tx, stop_rx) = trigger::trigger();
            let (attach_tx, attach_rx) = mpsc::channel(8);
            let (find_tx, mut find_rx) = mpsc::channel::<FindNode>(8);
            let (server, client) = tokio::io::duplex(BUF);
            let config = WebSocketConfig::default();
            let server = WebSocket::from_upgraded(config, server, Some(NoExt), BytesMut::new(), Role::Server);
            // the peer is hand-made (raw frames), so that it can fragment messages and interleave control frames
            let (mut peer_rx, peer_tx) = tokio::io::split(client);
            let (ev_tx, ev_rx) = mpsc::unbounded_channel();

            let remote = RemoteTask::new(
                ID,
                stop_rx,
                server,
                attach_rx,
                Some(find_tx),
                NonZeroUsize::new(8).unwrap(),
                Duration::from_secs(5),
            );
            let task = tokio::spawn(remote.run());

            // peer reader: parses the (unmasked) frames the server writes
            let tx = ev_tx.clone();
            let peer_task = tokio::spawn(async move {
                use tokio::io::AsyncReadExt;
                loop {
                    let mut h = [0u8; 2];
                    if peer_rx.read_exact(&mut h).await.is_err() {
                        let _ = tx.send(Ev::Peer("gone".into()));
                        break;
                    }
                    let (fin, opcode, masked) = (h[0] & 0x80 != 0, h[0] & 0x0f, h[1] & 0x80 != 0);
                    let mut len = (h[1] & 0x7f) as u64;
                    if len == 126 {
                        let mut b = [0u8; 2];
                        if peer_rx.read_exact(&mut b).await.is_err() { break; }
                        len = u16::from_be_bytes(b) as u64;
                    } else if len == 127 {
                        let mut b = [0u8; 8];
                        if peer_rx.read_exact(&mut b).await.is_err() { break; }
                        len = u64::from_be_bytes(b);
                    }
                    let mut key = [0u8; 4];
                    if masked && peer_rx.read_exact(&mut key).await.is_err() { break; }
                    let mut payload = vec![0u8; len as usize];
                    if peer_rx.read_exact(&mut payload).await.is_err() {
                        let _ = tx.send(Ev::Peer("gone".into()));
                        break;
                    }
                    if masked {
                        for (i, b) in payload.iter_mut().enumerate() { *b ^= key[i % 4]; }
                    }
                    match opcode {
                        1 if fin => {
                            let _ = tx.send(Ev::Peer(hex(&payload)));
                        }
                        8 => {
                            let code = if payload.len() >= 2 {
                                match u16::from_be_bytes([payload[0], payload[1]]) {
                                    1000 => "normal".to_string(),
                                    1001 => "goingaway".to_string(),
                                    1002 => "protocol".to_string(),
                                    c => format!("{}", c),
                                }
                            } else {
                                "none".to_string()
                            };
                            let _ = tx.send(Ev::Peer(format!("close:{}", code)));
                            break;
                        }
                        9 | 10 => {} // ping / pong from the server
                        _ => {
                            let _ = tx.send(Ev::Peer(format!("frame:{}:{}", opcode, fin)));
                        }
                    }
                }
            });

            // resolver: answers `FindNode` from the set of resolvable nodes
            let resolvable: Arc<Mutex<HashSet<String>>> = Default::default();
            let agents: Arc<Mutex<Vec<AgentEnd>>> = Default::default();
            let (res2, ag2, tx) = (resolvable.clone(), agents.clone(), ev_tx.clone());
            let resolver = tokio::spawn(async move {
                while let Some(FindNode { node, lane, request }) = find_rx.recv().await {
                    let NodeConnectionRequest::Warp { promise, .. } = request else {
                        continue;
                    };
                    let lane_s = lane.as_ref().map(|l| hs(l.as_str())).unwrap_or_else(|| "none".into());
                    if res2.lock().unwrap().contains(node.as_str()) {
                        let (in_tx, in_rx) = byte_channel(NonZeroUsize::new(BUF).unwrap());
                        let (out_tx, out_rx) = byte_channel(NonZeroUsize::new(BUF).unwrap());
                        let idx = ag2.lock().unwrap().len();
                        let _ = tx.send(Ev::Find(format!("{},{}:a{}", hs(node.as_str()), lane_s, idx)));
                        let tx2 = tx.clone();
                        let reader_task = tokio::spawn(async move {
                            let mut rd = FramedRead::new(in_rx, RawRequestMessageDecoder);
                            loop {
                                match rd.next().await {
                                    Some(Ok(m)) => {
                                        let _ = tx2.send(Ev::Agent(idx, render_request(&m)));
                                    }
                                    Some(Err(_)) => {
                                        let _ = tx2.send(Ev::Agent(idx, "decode-error".into()));
                                        break;
                                    }
                                    None => {
                                        let _ = tx2.send(Ev::Agent(idx, "end".into()));
                                        break;
                                    }
                                }
                            }
                        });
                        ag2.lock().unwrap().push(AgentEnd {
                            node: node.to_string(),
                            writer: Some(FramedWrite::new(out_tx, RawResponseMessageEncoder)),
                            reader_task: Some(reader_task),
                        });
                        let _ = promise.send(Ok((in_tx, out_rx)));
                    } else {
                        let _ = tx.send(Ev::Find(format!("{},{}:none", hs(node.as_str()), lane_s)));
                        let _ = promise.send(Err(NoSuchAgent { node, lane }.into()));
                    }
                }
            });

            Rig {
                ev_tx,
                ev_rx,
                attach_tx,
                stop_tx: Some(stop_tx),
                peer_tx,
                resolvable,
                agents,
                dls: HashMap::new(),
                ows: HashMap::new(),
                task: Some(task),
                counter: 0,
                _aux: vec![peer_task, resolver],
            }
        }

        /// Run until every task is idle, then report the events in canonical order.
        async fn settle(&mut self, tags: Option<&HashMap<String, String>>) -> String {
            tokio::time::sleep(Duration::from_millis(50)).await;
            let mut finds = vec![];
            let mut ag: Vec<(usize, String)> = vec![];
            let mut dl: Vec<(u64, String)> = vec![];
            let mut peer: Vec<String> = vec![];
            while let Ok(ev) = self.ev_rx.try_recv() {
                match ev {
                    Ev::Find(s) => finds.push(format!("f:{}", s)),
                    Ev::Agent(i, s) => ag.push((i, format!("a{}:{}", i, s))),
                    Ev::Dl(i, s) => dl.push((i, format!("d{}:{}", i, s))),
                    Ev::Peer(s) => peer.push(s),
                }
            }
            ag.sort_by_key(|e| e.0);
            dl.sort_by_key(|e| e.0);
            let mut out: Vec<String> = finds;
            out.extend(ag.into_iter().map(|e| e.1));
            out.extend(dl.into_iter().map(|e| e.1));
            match tags {
                None => out.extend(peer.into_iter().map(|p| format!("p:{}", p))),
                Some(tags) => {
                    // burst: group the peer's frames by the source that sent them (stable)
                    let mut tagged: Vec<(String, String)> = peer
                        .into_iter()
                        .map(|p| {
                            let src = unhex(&p)
                                .and_then(|b| String::from_utf8(b).ok())
                                .and_then(|f| f.rsplit(' ').next().and_then(|tag| tags.get(tag).cloned()))
                                .unwrap_or_else(|| "?".to_string());
                            (src, p)
                        })
                        .collect();
                    tagged.sort_by(|a, b| src_key(&a.0).cmp(&src_key(&b.0)));
                    out.extend(tagged.into_iter().map(|(s, p)| format!("p[{}]:{}", s, p)));
                }
            }
            if let Some(h) = self.task.as_ref() {
                if h.is_finished() {
                    let h = self.task.take().unwrap();
                    match h.await {
                        Ok(()) => out.push("t:done".into()),
                        Err(e) if e.is_panic() => out.push("t:panic".into()),
                        Err(_) => out.push("t:cancelled".into()),
                    }
                }
            }
            if out.is_empty() {
                "-".into()
            } else {
                format!("evs {}", out.join(" "))
            }
        }

        fn request(kind: &str, node: &str, lane: &str, body: Option<&str>) -> Option<BytesRequestMessage> {
            let path = RelativeAddress::new(BytesStr::from(node), BytesStr::from(lane));
            let b = Bytes::copy_from_slice(body.unwrap_or("").as_bytes());
            let op = match kind {
                "link" => Operation::Link,
                "sync" => Operation::Sync,
                "unlink" => Operation::Unlink,
                "command" => Operation::Command(b),
                _ => return None,
            };
            Some(RequestMessage { origin: Uuid::from_u128(99), path, envelope: op })
        }

        fn response(kind: &str, node: &str, lane: &str, body: Option<&str>) -> Option<BytesResponseMessage> {
            let path = RelativeAddress::new(BytesStr::from(node), BytesStr::from(lane));
            let b = Bytes::copy_from_slice(body.unwrap_or("").as_bytes());
            let n = match kind {
                "linked" => Notification::Linked,
                "synced" => Notification::Synced,
                "unlinked" => Notification::Unlinked(body.map(|_| b)),
                "event" => Notification::Event(b),
                _ => return None,
            };
            Some(ResponseMessage { origin: Uuid::from_u128(98), path, envelope: n })
        }

        async fn send_from(&mut self, src: &str, kind: &str, node: &str, lane: &str, body: Option<&str>) {
            if let Some(id) = src.strip_prefix('d').and_then(|s| s.parse::<u64>().ok()) {
                if let (Some(d), Some(m)) = (self.dls.get_mut(&id), Self::request(kind, node, lane, body)) {
                    if let Some(w) = d.writer.as_mut() {
                        let _ = w.send(m).await;
                    }
                }
            } else if let Some(id) = src.strip_prefix('o').and_then(|s| s.parse::<u64>().ok()) {
                if let (Some(d), Some(m)) = (self.ows.get_mut(&id), Self::request(kind, node, lane, body)) {
                    if let Some(w) = d.writer.as_mut() {
                        let _ = w.send(m).await;
                    }
                }
            } else if let Some(i) = src.strip_prefix('a').and_then(|s| s.parse::<usize>().ok()) {
                let w = self.agents.lock().unwrap().get_mut(i).and_then(|a| a.writer.take());
                if let (Some(mut w), Some(m)) = (w, Self::response(kind, node, lane, body)) {
                    let _ = w.send(m).await;
                    if let Some(a) = self.agents.lock().unwrap().get_mut(i) {
                        a.writer = Some(w);
                    }
                }
            }
        }

        /// One raw client frame (masked with the all-zero key, which leaves the payload as it is).
        async fn write_frame(&mut self, fin: bool, opcode: u8, payload: &[u8]) {
            use tokio::io::AsyncWriteExt;
            let mut f = vec![(if fin { 0x80 } else { 0 }) | opcode];
            if payload.len() < 126 {
                f.push(0x80 | payload.len() as u8);
            } else {
                f.push(0x80 | 126);
                f.extend_from_slice(&(payload.len() as u16).to_be_bytes());
            }
            f.extend_from_slice(&[0, 0, 0, 0]);
            f.extend_from_slice(payload);
            let _ = self.peer_tx.write_all(&f).await;
            let _ = self.peer_tx.flush().await;
        }

        pub async fn exec(&mut self, op: &str) -> String {
            let parts: Vec<&str> = op.split_whitespace().collect();
            let s = |h: &str| unhex(h).and_then(|b| String::from_utf8(b).ok());
            match parts.as_slice() {
                ["agents", nodes @ ..] => {
                    let set: HashSet<String> = nodes.iter().filter_map(|h| s(h)).collect();
                    *self.resolvable.lock().unwrap() = set;
                    "ok".into()
                }
                ["attach", id, n, l] => {
                    let (Ok(id), Some(node), Some(lane)) = (id.parse::<u64>(), s(n), s(l)) else {
                        return "bad-op".into();
                    };
                    let (in_tx, in_rx) = byte_channel(NonZeroUsize::new(BUF).unwrap());
                    let (out_tx, out_rx) = byte_channel(NonZeroUsize::new(BUF).unwrap());
                    let (done_tx, done_rx) = oneshot::channel();
                    let req = AttachClient::AttachDownlink {
                        downlink_id: Uuid::from_u128(id as u128),
                        path: RelativeAddress::text(&node, &lane),
                        sender: in_tx,
                        receiver: out_rx,
                        done: done_tx,
                    };
                    if self.attach_tx.send(req).await.is_err() {
                        return "closed".into();
                    }
                    let r = tokio::time::timeout(Duration::from_millis(200), done_rx).await;
                    if !matches!(r, Ok(Ok(Ok(())))) {
                        return "closed".into();
                    }
                    let tx = self.ev_tx.clone();
                    let reader_task = tokio::spawn(async move {
                        let mut rd = FramedRead::new(in_rx, RawResponseMessageDecoder);
                        loop {
                            match rd.next().await {
                                Some(Ok(m)) => {
                                    let _ = tx.send(Ev::Dl(id, render_response(&m)));
                                }
                                Some(Err(_)) => {
                                    let _ = tx.send(Ev::Dl(id, "decode-error".into()));
                                    break;
                                }
                                None => {
                                    let _ = tx.send(Ev::Dl(id, "end".into()));
                                    break;
                                }
                            }
                        }
                    });
                    self.dls.insert(
                        id,
                        DlEnd {
                            node,
                            lane,
                            writer: Some(FramedWrite::new(out_tx, RawRequestMessageEncoder)),
                            reader_task: Some(reader_task),
                        },
                    );
                    let extra = self.settle(None).await;
                    if extra == "-" {
                        "ok".into()
                    } else {
                        format!("ok+{}", extra)
                    }
                }
                ["attach1", id, n, l] => {
                    // a send-only client: only an outgoing byte channel is handed over
                    let (Ok(id), Some(node), Some(lane)) = (id.parse::<u64>(), s(n), s(l)) else {
                        return "bad-op".into();
                    };
                    let (out_tx, out_rx) = byte_channel(NonZeroUsize::new(BUF).unwrap());
                    let (done_tx, done_rx) = oneshot::channel();
                    let req = AttachClient::OneWay {
                        agent_id: Uuid::from_u128(1000 + id as u128),
                        path: Some(RelativeAddress::text(&node, &lane)),
                        receiver: out_rx,
                        done: done_tx,
                    };
                    if self.attach_tx.send(req).await.is_err() {
                        return "closed".into();
                    }
                    let r = tokio::time::timeout(Duration::from_millis(200), done_rx).await;
                    if !matches!(r, Ok(Ok(Ok(())))) {
                        return "closed".into();
                    }
                    self.ows.insert(
                        id,
                        DlEnd { node, lane, writer: Some(FramedWrite::new(out_tx, RawRequestMessageEncoder)), reader_task: None },
                    );
                    let extra = self.settle(None).await;
                    if extra == "-" {
                        "ok".into()
                    } else {
                        format!("ok+{}", extra)
                    }
                }
                ["in", f] => {
                    let Some(frame) = s(f) else { return "bad-op".into() };
                    self.write_frame(true, 1, frame.as_bytes()).await;
                    self.settle(None).await
                }
                ["infrag", f, plan] => {
                    // one text message in fragments; `plan` = comma list: a number n = the next fragment carries n bytes,
                    // p / q = a ping / pong control frame, b = a binary frame, t = a new text frame, c = a close frame
                    // at this point; the rest of the payload goes into the final fragment
                    let Some(bytes) = unhex(f) else { return "bad-op".into() };
                    let mut pos = 0usize;
                    let mut first = true;
                    let mut aborted = false;
                    for tok in plan.split(',') {
                        match tok {
                            "p" => self.write_frame(true, 9, b"k").await,
                            "q" => self.write_frame(true, 10, b"").await,
                            "b" => self.write_frame(true, 2, b"\x01\x02").await,
                            "t" => self.write_frame(true, 1, b"@event(node:x,lane:y)").await,
                            "c" => {
                                self.write_frame(true, 8, &1000u16.to_be_bytes()).await;
                                aborted = true;
                                break;
                            }
                            "-" | "" => {}
                            n => {
                                let n: usize = n.parse().unwrap_or(0);
                                let end = (pos + n).min(bytes.len());
                                self.write_frame(false, if first { 1 } else { 0 }, &bytes[pos..end]).await;
                                first = false;
                                pos = end;
                            }
                        }
                    }
                    if !aborted {
                        self.write_frame(true, if first { 1 } else { 0 }, &bytes[pos..]).await;
                    }
                    self.settle(None).await
                }
                ["inbin", f] => {
                    let Some(bytes) = unhex(f) else { return "bad-op".into() };
                    self.write_frame(true, 2, &bytes).await;
                    self.settle(None).await
                }
                ["inclose"] => {
                    self.write_frame(true, 8, &1000u16.to_be_bytes()).await;
                    self.settle(None).await
                }
                ["send", src, kind, n, l, b] => {
                    let (Some(node), Some(lane), Some(body)) = (s(n), s(l), opt_str(b)) else {
                        return "bad-op".into();
                    };
                    self.send_from(src, kind, &node, &lane, body.as_deref()).await;
                    self.settle(None).await
                }
                ["burst", srcs @ ..] => {
                    let mut tags: HashMap<String, String> = HashMap::new();
                    for src in srcs {
                        let k = self.counter;
                        self.counter += 1;
                        let tag = format!("m{}", k);
                        tags.insert(tag.clone(), src.to_string());
                        if let Some(id) = src.strip_prefix('d').and_then(|s| s.parse::<u64>().ok()) {
                            if let Some((node, lane)) = self.dls.get(&id).map(|d| (d.node.clone(), d.lane.clone())) {
                                self.send_from(src, "command", &node, &lane, Some(&tag)).await;
                            }
                        } else if let Some(id) = src.strip_prefix('o').and_then(|s| s.parse::<u64>().ok()) {
                            if let Some((node, lane)) = self.ows.get(&id).map(|d| (d.node.clone(), d.lane.clone())) {
                                self.send_from(src, "command", &node, &lane, Some(&tag)).await;
                            }
                        } else if let Some(i) = src.strip_prefix('a').and_then(|s| s.parse::<usize>().ok()) {
                            let node = self.agents.lock().unwrap().get(i).map(|a| a.node.clone());
                            if let Some(node) = node {
                                self.send_from(src, "event", &node, "l", Some(&tag)).await;
                            }
                        }
                    }
                    self.settle(Some(&tags)).await
                }
                ["detach", src] => {
                    if let Some(id) = src.strip_prefix('d').and_then(|s| s.parse::<u64>().ok()) {
                        if let Some(d) = self.dls.get_mut(&id) {
                            d.writer = None;
                            if let Some(h) = d.reader_task.take() {
                                h.abort();
                                let _ = h.await;
                            }
                        }
                    } else if let Some(id) = src.strip_prefix('o').and_then(|s| s.parse::<u64>().ok()) {
                        if let Some(d) = self.ows.get_mut(&id) {
                            d.writer = None;
                        }
                    } else if let Some(i) = src.strip_prefix('a').and_then(|s| s.parse::<usize>().ok()) {
                        let h = {
                            let mut g = self.agents.lock().unwrap();
                            g.get_mut(i).and_then(|a| {
                                a.writer = None;
                                a.reader_task.take()
                            })
                        };
                        if let Some(h) = h {
                            h.abort();
                            let _ = h.await;
                        }
                    }
                    self.settle(None).await
                }
                ["stop"] => {
                    if let Some(t) = self.stop_tx.take() {
                        t.trigger();
                    }
                    self.settle(None).await
                }
                _ => "bad-op".into(),
            }
        }
    }

    /// canonical order of sources: agents by index, then downlinks by id
    fn src_key(s: &str) -> (u8, u64) {
        if let Some(i) = s.strip_prefix('a').and_then(|x| x.parse::<u64>().ok()) {
            (0, i)
        } else if let Some(i) = s.strip_prefix('d').and_then(|x| x.parse::<u64>().ok()) {
            (1, i)
        } else if let Some(i) = s.strip_prefix('o').and_then(|x| x.parse::<u64>().ok()) {
            (2, i)
        } else {
            (3, 0)
        }
    }

    pub fn run_case(ops: &[String], t: &mut Trace) {
        let rt = tokio::runtime::Builder::new_current_thread()
            .enable_time()
            .start_paused(true)
            .build()
            .unwrap();
        rt.block_on(async {
            let mut rig = Rig::new();
            for op in ops {
                let o = rig.exec(op).await;
                t.op(op, o);
            }
        });
    }
}

const KINDS: [&str; 8] = ["link", "sync", "unlink", "command", "linked", "synced", "unlinked", "event"];

/// String pool of the property's quantifier: empty, keywords, quotes, backslashes, controls, non-BMP, percent
/// encodings, the edges of every identifier range, separators of the header grammar.
const ATOMS: [&str; 64] = [
    "", "true", "false", "node", "lane", "/node", "lane", "a", "_", "-", "0", "9x", "x9", "x-y", "two words", " lead",
    "trail ", "\"", "\\", "\\\\", "\\\"", "\\u0041", "\\n", "\"q\"", "%", "%20", "/a%20b/c", "/unit/%E2%82%AC",
    "\u{0}", "\u{1}", "\u{8}", "\t", "\n", "\u{b}", "\u{c}", "\r", "\u{1f}", "\u{20}", "\u{7f}", "\u{85}", "\u{a0}",
    "\u{b7}", "\u{d7}", "\u{f7}", "\u{37e}", "\u{2000}", "\u{200c}", "\u{2028}", "\u{d7ff}", "\u{e000}", "\u{fffd}",
    "\u{fffe}", "\u{ffff}", "\u{10000}", "\u{1F600}", "\u{effff}", "\u{f0000}", "\u{10ffff}", ",", ")", "(", ":", "@", ";",
];

fn rand_char(rng: &mut Rng) -> char {
    loop {
        let c = match rng.below(6) {
            0 => rng.below(0x30) as u32,
            1 => rng.range(0x20, 0x7e) as u32,
            2 => rng.range(0x7f, 0x400) as u32,
            3 => rng.range(0x1ff0, 0x3010) as u32,
            4 => rng.range(0xd700, 0x10010) as u32,
            _ => rng.range(0xefff0, 0x10ffff) as u32,
        };
        if let Some(c) = char::from_u32(c) {
            return c;
        }
    }
}

fn gen_name(rng: &mut Rng) -> String {
    match rng.below(10) {
        0 => ATOMS[rng.below(ATOMS.len() as u64) as usize].to_string(),
        1 | 2 => {
            // plain identifiers / typical URIs
            let pool = ["/node", "/unit/1", "lane", "node", "map", "value_lane", "a-b", "ℵ", "اسم", "名前"];
            pool[rng.below(pool.len() as u64) as usize].to_string()
        }
        _ => {
            let n = rng.below(5);
            let mut s = String::new();
            for _ in 0..=n {
                if rng.chance(2, 3) {
                    s.push_str(ATOMS[rng.below(ATOMS.len() as u64) as usize]);
                } else {
                    s.push(rand_char(rng));
                }
            }
            s
        }
    }
}

fn gen_body(rng: &mut Rng) -> String {
    let pool = [
        "", "@update(key:1) 10", "@remove(key:\"a b\")", "@clear", "plain", "\"text\"", "{a:1,b:2}", "13", "@",
        "\"", "@laneNotFound", "@nodeNotFound", "Link closed.", "x y", "a\nb", "\u{1F600}", "%AAAA", "\\",
    ];
    match rng.below(12) {
        0 => format!(" {}", gen_name(rng)),  // not BodyWF
        1 => format!("\t{}", gen_name(rng)), // not BodyWF
        2 | 3 => gen_name(rng),
        _ => pool[rng.below(pool.len() as u64) as usize].to_string(),
    }
}

fn gen_rt(rng: &mut Rng) -> String {
    let node = gen_name(rng);
    let lane = gen_name(rng);
    if rng.chance(1, 12) {
        let l = if rng.chance(1, 2) { "none".to_string() } else { hs(&lane) };
        return format!("rt nosuch {} {} none", hs(&node), l);
    }
    let kind = KINDS[rng.below(8) as usize];
    let body = match kind {
        "command" | "event" => hs(&gen_body(rng)),
        "unlinked" => {
            if rng.chance(1, 3) {
                "none".to_string()
            } else {
                hs(&gen_body(rng))
            }
        }
        _ => "none".to_string(),
    };
    format!("rt {} {} {} {}", kind, hs(&node), hs(&lane), body)
}

/// Hand-made frames inside the fragment the model reads (values are identifiers or string literals).
fn gen_peel_frame(rng: &mut Rng) -> String {
    let ws = |rng: &mut Rng| -> &'static str { *rng.pick(&["", "", "", " ", "\t", "\n", " \r\n "]) };
    let sp = |rng: &mut Rng| -> &'static str { *rng.pick(&["", "", "", " ", "\t", "  "]) };
    let tags = [
        "link", "sync", "unlink", "command", "linked", "synced", "unlinked", "event", "auth", "deauth", "foo", "Event",
        "\"event\"", "\"li\\u006ek\"", "\"\"", "\"bad\\q\"", "eventx", "",
    ];
    let mut f = String::new();
    if !rng.chance(1, 40) {
        f.push('@');
    }
    f.push_str(tags[if rng.chance(3, 4) { rng.below(8) } else { rng.below(tags.len() as u64) } as usize]);
    let paren = !rng.chance(1, 12);
    let mut closed = false;
    let mut unterminated = false;
    if paren {
        f.push('(');
        let n_items = match rng.below(10) {
            0 => 0,
            1 => 1,
            2 => 3,
            3 => 4,
            _ => 2,
        };
        let mut names: Vec<&str> = vec!["node", "lane"];
        if rng.chance(1, 6) {
            names.swap(0, 1);
        }
        for i in 0..n_items {
            f.push_str(ws(rng));
            let name: String = if i < 2 && rng.chance(5, 6) {
                names[i].to_string()
            } else {
                rng.pick(&["node", "lane", "\"node\"", "\"la\\u006ee\"", "nod", "x", "Node", "\"no\\de\""]).to_string()
            };
            let value: String = match if unterminated { 40 } else { rng.below(48) } {
                0 => "".into(),
                1 => {
                    // everything up to the next quote is swallowed: later values stay in the safe pool
                    unterminated = true;
                    "\"unterminated".into()
                }
                2 => "\"bad\\q\"".into(),
                3 => "\"\\u12\"".into(),
                4 => "\"\\ud800\"".into(),
                5 => "\"\\uD7FFx\\uuu0041\"".into(),
                6 | 7 => "true".into(),
                8 | 9 => "\"\"".into(),
                10..=12 => "\"a\\\\b\\\"c\\n\\t\\r\\b\\f\\u001f\"".into(),
                13..=24 => {
                    // what the writer would produce for an arbitrary name
                    let s = gen_name(rng);
                    match real_encode("link", &s, Some("l"), None) {
                        Some(fr) => {
                            let t = String::from_utf8(fr).unwrap();
                            t["@link(node:".len()..t.len() - ",lane:l)".len()].to_string()
                        }
                        None => "x".into(),
                    }
                }
                _ => rng.pick(&["a", "/n", "abc", "x-1", "_", "ℵ", "\"/node\"", "\"two words\"", "\"😀\""]).to_string(),
            };
            let value = if value.starts_with('/') { format!("\"{}\"", value) } else { value };
            if rng.chance(1, 14) {
                // a value item instead of a slot
                f.push_str(&name);
            } else {
                f.push_str(&name);
                f.push_str(ws(rng));
                f.push(':');
                f.push_str(ws(rng));
                f.push_str(&value);
            }
            let last = i + 1 == n_items;
            if !last || rng.chance(1, 8) {
                f.push_str(sp(rng));
                f.push_str(*rng.pick(&[",", ",", ",", ";", "\n", "\r\n", ""]));
            }
        }
        f.push_str(ws(rng));
        if !rng.chance(1, 14) {
            f.push(')');
            closed = true;
        }
    }
    f.push_str(*rng.pick(&["", "", " ", "\t ", " \t"]));
    if paren && !closed {
        // the tail is read as header items: keep it inside the modelled fragment
        f.push_str(*rng.pick(&["", "x", "\"s\"", "a b ", "\nq", "("]));
        return f;
    }
    f.push_str(*rng.pick(&["", "x", "@update(key:1) 2", "\"s\"", "a b ", "\nq", "(", ")"]));
    f
}

/// Arbitrary mutations (outside the modelled fragment as well); monitor only.
fn gen_fuzz_frame(rng: &mut Rng) -> String {
    let base = if rng.chance(1, 2) {
        gen_peel_frame(rng)
    } else {
        let kind = KINDS[rng.below(8) as usize];
        let fr = real_encode(kind, &gen_name(rng), Some(&gen_name(rng)), Some(&gen_body(rng))).unwrap_or_default();
        String::from_utf8(fr).unwrap_or_default()
    };
    let mut cs: Vec<char> = base.chars().collect();
    let inserts = [
        "1", "-1", "0.5", "1e9", "%AAAA", "{a:1}", "@a(1)", "rate:0.5,", "prio:1,", "rate:inf,", "prio:x,", "node:", "lane:",
        ",", ";", ":", "(", ")", "\"", "\\", "\\u", "@", "\n", " ", "{", "}", "node:,", "lane:;", "node: ,lane: )",
    ];
    for _ in 0..rng.below(4) {
        let pos = rng.below(cs.len() as u64 + 1) as usize;
        match rng.below(4) {
            0 if !cs.is_empty() => {
                cs.remove(pos.min(cs.len() - 1));
            }
            1 => {
                for (i, c) in rng.pick(&inserts).chars().enumerate() {
                    cs.insert(pos + i, c);
                }
            }
            2 => cs.insert(pos, rand_char(rng)),
            _ => cs.truncate(pos),
        }
    }
    cs.into_iter().collect()
}


// ------------------------------------------------------------------------------------------------ MultiReader
//
// The real `MultiReader` over passive in-memory sources, polled by hand (no runtime) with a counting outer waker.
mod mr {
    use super::*;
    use futures::Stream;
    use std::cell::RefCell;
    use std::collections::VecDeque;
    use std::pin::Pin;
    use std::rc::Rc;
    use std::sync::atomic::{AtomicUsize, Ordering};
    use std::sync::Arc;
    use std::task::{Context, Poll, Wake, Waker};
    use swimos_utilities::multi_reader::MultiReader;

    struct Counter(AtomicUsize);
    impl Wake for Counter {
        fn wake(self: Arc<Self>) {
            self.0.fetch_add(1, Ordering::SeqCst);
        }
        fn wake_by_ref(self: &Arc<Self>) {
            self.0.fetch_add(1, Ordering::SeqCst);
        }
    }

    #[derive(Default)]
    struct Source {
        q: VecDeque<u64>,
        closed: bool,
        waker: Option<Waker>,
    }

    struct SourceStream(Rc<RefCell<Source>>);

    impl Stream for SourceStream {
        type Item = u64;
        fn poll_next(self: Pin<&mut Self>, cx: &mut Context<'_>) -> Poll<Option<u64>> {
            let mut s = self.0.borrow_mut();
            if let Some(x) = s.q.pop_front() {
                Poll::Ready(Some(x))
            } else if s.closed {
                Poll::Ready(None)
            } else {
                s.waker = Some(cx.waker().clone());
                Poll::Pending
            }
        }
    }

    pub struct Sys {
        reader: MultiReader<SourceStream>,
        sources: Vec<Rc<RefCell<Source>>>,
        count: Arc<Counter>,
        waker: Waker,
    }

    impl Sys {
        pub fn new() -> Sys {
            let count = Arc::new(Counter(AtomicUsize::new(0)));
            Sys { reader: MultiReader::new(), sources: vec![], waker: Waker::from(count.clone()), count }
        }

        fn add(&mut self) {
            let s: Rc<RefCell<Source>> = Default::default();
            self.sources.push(s.clone());
            self.reader.add(SourceStream(s));
        }

        pub fn exec(&mut self, op: &str) -> String {
            let w0 = self.count.0.load(Ordering::SeqCst);
            let parts: Vec<&str> = op.split_whitespace().collect();
            let res: String = match parts.as_slice() {
                ["add"] => {
                    self.add();
                    "ok".into()
                }
                ["addn", k] => {
                    for _ in 0..k.parse::<usize>().unwrap_or(0) {
                        self.add();
                    }
                    "ok".into()
                }
                ["push", s, x] => match (s.parse::<usize>().ok().and_then(|i| self.sources.get(i)), x.parse::<u64>()) {
                    (Some(src), Ok(x)) => {
                        let w = {
                            let mut g = src.borrow_mut();
                            if g.closed {
                                None // a closed source accepts nothing
                            } else {
                                g.q.push_back(x);
                                g.waker.take()
                            }
                        };
                        if let Some(w) = w {
                            w.wake();
                        }
                        "ok".into()
                    }
                    _ => "bad-op".into(),
                },
                ["close", s] => match s.parse::<usize>().ok().and_then(|i| self.sources.get(i)) {
                    Some(src) => {
                        let w = {
                            let mut g = src.borrow_mut();
                            g.closed = true;
                            g.waker.take()
                        };
                        if let Some(w) = w {
                            w.wake();
                        }
                        "ok".into()
                    }
                    None => "bad-op".into(),
                },
                ["poll"] => {
                    let mut cx = Context::from_waker(&self.waker);
                    let r = catch_unwind(AssertUnwindSafe(|| Pin::new(&mut self.reader).poll_next(&mut cx)));
                    match r {
                        Ok(Poll::Ready(Some(x))) => format!("item {}", x),
                        Ok(Poll::Ready(None)) => "none".into(),
                        Ok(Poll::Pending) => "pending".into(),
                        Err(_) => "panic".into(),
                    }
                }
                ["empty"] => format!("empty {}", self.reader.is_empty()),
                _ => "bad-op".into(),
            };
            let w1 = self.count.0.load(Ordering::SeqCst);
            format!("{} w={}", res, w1 - w0)
        }
    }

    pub fn gen_ops(rng: &mut Rng) -> Vec<String> {
        let mut ops = vec![];
        let mut n_src = 0usize;
        let mut closed: Vec<bool> = vec![];
        let mut seq = 0u64;
        // most cases stay within one bucket; some cross the 64-stream bucket boundary
        if rng.chance(1, 5) {
            let k = rng.range(60, 135) as usize;
            ops.push(format!("addn {}", k));
            n_src = k;
            closed = vec![false; k];
        }
        for _ in 0..rng.range(5, 40) {
            match rng.below(100) {
                0..=11 => {
                    ops.push("add".into());
                    n_src += 1;
                    closed.push(false);
                }
                12..=49 if n_src > 0 => {
                    // bursts on few sources, so that several are ready at once
                    let s = if rng.chance(1, 2) { rng.below(n_src.min(4) as u64) } else { rng.below(n_src as u64) } as usize;
                    if closed[s] && rng.chance(9, 10) {
                        continue;
                    }
                    seq += 1;
                    ops.push(format!("push {} {}", s, (s as u64) * 100000 + seq));
                }
                50..=55 if n_src > 0 => {
                    let s = rng.below(n_src as u64) as usize;
                    closed[s] = true;
                    ops.push(format!("close {}", s));
                }
                56..=58 => ops.push("empty".into()),
                _ => ops.push("poll".into()),
            }
        }
        // drain
        for _ in 0..rng.below(12) {
            ops.push("poll".into());
        }
        ops
    }

    pub fn run_case(ops: &[String], t: &mut Trace) {
        let mut sys = Sys::new();
        for op in ops {
            let o = sys.exec(op);
            t.op(op, o);
        }
    }
}

// ------------------------------------------------------------------------------------------------ MultiReader, wake-time polls
//
// `mrw`: the real `MultiReader` over passive sources, where the TASK's waker — when a source wakes it — polls the
// reader at once, on the spot, before the waker call returns (the most eager scheduler there can be). A task woken
// because a source has something must find it: the ready flag has to be published before the wake.
// `mrs`: the same property under real threads: producers write through real byte channels from their own threads, the
// consumer thread polls with a waker-driven loop; rounds of simultaneous writes separated by quiet periods.
mod mrw {
    use super::*;
    use futures::Stream;
    use std::cell::RefCell;
    use std::collections::VecDeque;
    use std::pin::Pin;
    use std::rc::Rc;
    use std::sync::Arc;
    use std::task::{Context, Poll, Wake, Waker};
    use swimos_utilities::multi_reader::MultiReader;

    #[derive(Default)]
    struct Source {
        q: VecDeque<u64>,
        closed: bool,
        waker: Option<Waker>,
    }
    struct SourceStream(Rc<RefCell<Source>>);
    impl Stream for SourceStream {
        type Item = u64;
        fn poll_next(self: Pin<&mut Self>, cx: &mut Context<'_>) -> Poll<Option<u64>> {
            let mut s = self.0.borrow_mut();
            if let Some(x) = s.q.pop_front() {
                Poll::Ready(Some(x))
            } else if s.closed {
                Poll::Ready(None)
            } else {
                s.waker = Some(cx.waker().clone());
                Poll::Pending
            }
        }
    }

    thread_local! {
        static READER: RefCell<Option<MultiReader<SourceStream>>> = const { RefCell::new(None) };
        static WOKE: RefCell<Vec<String>> = const { RefCell::new(Vec::new()) };
    }

    /// The task's waker: poll right now.
    struct PollOnWake;
    impl Wake for PollOnWake {
        fn wake(self: Arc<Self>) {
            self.wake_by_ref()
        }
        fn wake_by_ref(self: &Arc<Self>) {
            let r = poll_reader();
            WOKE.with(|w| w.borrow_mut().push(r));
        }
    }

    fn poll_reader() -> String {
        let waker = Waker::from(Arc::new(PollOnWake));
        let mut cx = Context::from_waker(&waker);
        READER.with(|r| match r.try_borrow_mut() {
            Ok(mut g) => match g.as_mut() {
                Some(reader) => match Pin::new(reader).poll_next(&mut cx) {
                    Poll::Ready(Some(x)) => format!("item:{}", x),
                    Poll::Ready(None) => "none".to_string(),
                    Poll::Pending => "pending".to_string(),
                },
                None => "noreader".to_string(),
            },
            Err(_) => "reentrant".to_string(), // woken from inside a poll: the task is already running
        })
    }

    pub fn run_case(ops: &[String], t: &mut Trace) {
        READER.with(|r| *r.borrow_mut() = Some(MultiReader::new()));
        let mut sources: Vec<Rc<RefCell<Source>>> = vec![];
        for op in ops {
            WOKE.with(|w| w.borrow_mut().clear());
            let parts: Vec<&str> = op.split_whitespace().collect();
            let add = |sources: &mut Vec<Rc<RefCell<Source>>>| {
                let s: Rc<RefCell<Source>> = Default::default();
                sources.push(s.clone());
                READER.with(|r| r.borrow_mut().as_mut().unwrap().add(SourceStream(s)));
            };
            let res: String = match parts.as_slice() {
                ["add"] => {
                    add(&mut sources);
                    "ok".into()
                }
                ["addn", k] => {
                    for _ in 0..k.parse::<usize>().unwrap_or(0) {
                        add(&mut sources);
                    }
                    "ok".into()
                }
                ["push", s, x] => match (s.parse::<usize>().ok().and_then(|i| sources.get(i)), x.parse::<u64>()) {
                    (Some(src), Ok(x)) => {
                        let w = {
                            let mut g = src.borrow_mut();
                            if g.closed {
                                None
                            } else {
                                g.q.push_back(x);
                                g.waker.take()
                            }
                        };
                        if let Some(w) = w {
                            w.wake();
                        }
                        "ok".into()
                    }
                    _ => "bad-op".into(),
                },
                ["close", s] => match s.parse::<usize>().ok().and_then(|i| sources.get(i)) {
                    Some(src) => {
                        let w = {
                            let mut g = src.borrow_mut();
                            g.closed = true;
                            g.waker.take()
                        };
                        if let Some(w) = w {
                            w.wake();
                        }
                        "ok".into()
                    }
                    None => "bad-op".into(),
                },
                ["poll"] => poll_reader().replace(':', " "),
                ["wakepoll"] => "ok".into(),
                _ => "bad-op".into(),
            };
            let woke = WOKE.with(|w| w.borrow().join(","));
            t.op(op, format!("{} woke={}", res, if woke.is_empty() { "-".to_string() } else { woke }));
        }
        READER.with(|r| *r.borrow_mut() = None);
    }
}

mod mrs {
    use super::*;
    use futures::{SinkExt, Stream};
    use std::num::NonZeroUsize;
    use std::pin::Pin;
    use std::sync::atomic::{AtomicBool, Ordering};
    use std::sync::{Arc, Barrier};
    use std::task::{Context, Poll, Wake, Waker};
    use std::time::{Duration, Instant};
    use swimos_messages::protocol::{RawRequestMessageDecoder, RawRequestMessageEncoder};
    use swimos_utilities::byte_channel::byte_channel;
    use swimos_utilities::multi_reader::MultiReader;
    use tokio_util::codec::{FramedRead, FramedWrite};

    struct Flag {
        woken: AtomicBool,
    }
    impl Wake for Flag {
        fn wake(self: Arc<Self>) {
            self.woken.store(true, Ordering::SeqCst);
        }
        fn wake_by_ref(self: &Arc<Self>) {
            self.woken.store(true, Ordering::SeqCst);
        }
    }

    /// `stress <producers> <rounds>`: in every round all producers write one command at the same moment (barrier),
    /// then the socket is quiet; the consumer spins on its wake flag and polls when woken.
    pub fn stress(producers: usize, rounds: usize) -> String {
        let mut reader: MultiReader<FramedRead<_, RawRequestMessageDecoder>> = MultiReader::new();
        let mut writers = vec![];
        for _ in 0..producers {
            let (tx, rx) = byte_channel(NonZeroUsize::new(4096).unwrap());
            reader.add(FramedRead::new(rx, RawRequestMessageDecoder));
            writers.push(FramedWrite::new(tx, RawRequestMessageEncoder));
        }
        let barrier = Arc::new(Barrier::new(producers + 1));
        let mut handles = vec![];
        for (p, mut w) in writers.into_iter().enumerate() {
            let b = barrier.clone();
            handles.push(std::thread::spawn(move || {
                for r in 0..rounds {
                    b.wait();
                    let body = format!("{}:{}", p, r);
                    let m: BytesRequestMessage = RequestMessage {
                        origin: Uuid::from_u128(p as u128),
                        path: RelativeAddress::new(BytesStr::from("/n"), BytesStr::from("l")),
                        envelope: Operation::Command(Bytes::from(body.into_bytes())),
                    };
                    let _ = futures::executor::block_on(w.send(m));
                    b.wait();
                }
            }));
        }
        let flag = Arc::new(Flag { woken: AtomicBool::new(true) });
        let waker = Waker::from(flag.clone());
        let mut cx = Context::from_waker(&waker);
        let (mut delivered, mut dup, mut order_bad, mut stuck) = (0usize, 0usize, 0usize, 0usize);
        let mut next = vec![0usize; producers];
        for r in 0..rounds {
            barrier.wait();
            let mut got = 0usize;
            let mut last_progress = Instant::now();
            while got < producers {
                let woken = flag.woken.swap(false, Ordering::SeqCst);
                let rescue = !woken && last_progress.elapsed() > Duration::from_millis(250);
                if !woken && !rescue {
                    std::hint::spin_loop();
                    continue;
                }
                // poll until pending
                let mut any = false;
                loop {
                    match Pin::new(&mut reader).poll_next(&mut cx) {
                        Poll::Ready(Some(Ok(m))) => {
                            any = true;
                            got += 1;
                            delivered += 1;
                            let body = match &m.envelope {
                                Operation::Command(b) => String::from_utf8_lossy(b).to_string(),
                                _ => String::new(),
                            };
                            let mut it = body.split(':');
                            let (p, rr) = (
                                it.next().and_then(|x| x.parse::<usize>().ok()).unwrap_or(usize::MAX),
                                it.next().and_then(|x| x.parse::<usize>().ok()).unwrap_or(usize::MAX),
                            );
                            if p >= producers {
                                order_bad += 1;
                            } else if rr < next[p] {
                                dup += 1;
                            } else if rr > next[p] {
                                order_bad += 1;
                                next[p] = rr + 1;
                            } else {
                                next[p] = rr + 1;
                            }
                        }
                        Poll::Ready(Some(Err(_))) => {
                            order_bad += 1;
                            break;
                        }
                        Poll::Ready(None) => break,
                        Poll::Pending => break,
                    }
                }
                if any {
                    last_progress = Instant::now();
                    if rescue {
                        // an item was sitting in a channel while the task had not been woken for it; a wake that is
                        // merely late (its thread was descheduled) still arrives: give it generous time
                        std::thread::sleep(Duration::from_millis(300));
                        if !flag.woken.load(Ordering::SeqCst) {
                            stuck += 1;
                        }
                    }
                } else if rescue {
                    if last_progress.elapsed() > Duration::from_secs(5) {
                        return format!("pushed={} delivered={} dup={} disorder={} stuck={} dead=1 round={}",
                                       (r + 1) * producers, delivered, dup, order_bad, stuck, r);
                    }
                }
            }
            barrier.wait();
        }
        for h in handles {
            let _ = h.join();
        }
        format!("pushed={} delivered={} dup={} disorder={} stuck={} dead=0", rounds * producers, delivered, dup, order_bad, stuck)
    }

    pub fn run_case(ops: &[String], t: &mut Trace) {
        for op in ops {
            let parts: Vec<&str> = op.split_whitespace().collect();
            let o = match parts.as_slice() {
                ["stress", p, r] => stress(p.parse().unwrap_or(2), r.parse().unwrap_or(10)),
                _ => "bad-op".into(),
            };
            t.op(op, o);
        }
    }
}

// ------------------------------------------------------------------------------------------------ route generator

const R_NODES: [&str; 7] = ["/a", "/b", "a b", "true", "/a%20b", "/A", "n"];
const R_LANES: [&str; 5] = ["x", "y", "", "x y", "X"];

fn frame_of(kind: &str, node: &str, lane: &str, body: Option<&str>) -> String {
    String::from_utf8(real_encode(kind, node, Some(lane), body).unwrap_or_default()).unwrap_or_default()
}

/// One case: several agents and downlinks attach to, write to and detach from one socket.
fn gen_route_ops(rng: &mut Rng) -> Vec<String> {
    let mut ops = vec![];
    let mut resolvable: Vec<&str> = R_NODES.iter().copied().filter(|_| rng.chance(1, 2)).collect();
    ops.push(format!("agents {}", resolvable.iter().map(|n| hs(n)).collect::<Vec<_>>().join(" ")).trim().to_string());
    let mut next_dl = 0u64;
    let mut ows: Vec<u64> = vec![]; // send-only clients attached and not detached
    let mut next_ow = 0u64;
    let mut dls: Vec<u64> = vec![]; // attached and not detached
    let mut paths: Vec<(&str, &str)> = vec![]; // every path ever attached
    let mut n_agents_upper = 0usize; // upper bound on the number of agent channels opened so far
    let n = rng.range(4, 14);
    for _ in 0..n {
        let (mut node, mut lane) = (*rng.pick(&R_NODES), *rng.pick(&R_LANES));
        if !paths.is_empty() && rng.chance(3, 5) {
            // aim at a path somebody attached to (sometimes only its node or only its lane)
            let (n, l) = *rng.pick(&paths);
            match rng.below(6) {
                0 => node = n,
                1 => lane = l,
                _ => {
                    node = n;
                    lane = l;
                }
            }
        }
        match rng.below(100) {
            0..=21 => {
                paths.push((node, lane));
                ops.push(format!("attach {} {} {}", next_dl, hs(node), hs(lane)));
                dls.push(next_dl);
                next_dl += 1;
            }
            22..=27 => {
                // a send-only client (`AttachClient::OneWay`)
                ops.push(format!("attach1 {} {} {}", next_ow, hs(node), hs(lane)));
                ows.push(next_ow);
                next_ow += 1;
            }
            28..=44 => {
                // a notification from the peer
                let kind = *rng.pick(&["linked", "synced", "unlinked", "event", "event", "event"]);
                let body = match kind {
                    "event" => Some(*rng.pick(&["1", "@update(key:1) 2", "", "\"s\"", "{a:1}"])),
                    "unlinked" => *rng.pick(&[None, None, Some("@laneNotFound"), Some("@nodeNotFound"), Some("")]),
                    _ => None,
                };
                ops.push(format!("in {}", hs(&frame_of(kind, node, lane, body))));
            }
            45..=62 => {
                // a request from the peer
                let kind = *rng.pick(&["link", "sync", "unlink", "command", "command"]);
                let body = if kind == "command" { Some(*rng.pick(&["1", "@clear", ""])) } else { None };
                ops.push(format!("in {}", hs(&frame_of(kind, node, lane, body))));
                n_agents_upper += 1;
            }
            63..=66 => {
                // hand-made but valid variants, auth, and (rarely) invalid frames which end the task
                let f = match rng.below(10) {
                    8 => "@event(node:,lane:x)".to_string(),
                    9 => "@link(node:\"/a\",lane:\"\\ud800\")".to_string(),
                    0 => format!("@event( node : \"{}\" , lane : x ) 5", "/a"),
                    1 => "@event(lane:x,node:\"/a\")6".to_string(),
                    2 => "@auth(node:a)".to_string(),
                    3 => "@deauth".to_string(),
                    4 => "@command(node:\"/a\";lane:x)\t7".to_string(),
                    5 => "@linked(node:\"/a\",lane:x,node:\"/b\")".to_string(),
                    6 => "@event(node:\"/a\")".to_string(),
                    _ => "not an envelope".to_string(),
                };
                ops.push(format!("in {}", hs(&f)));
                n_agents_upper += 1;
            }
            67..=76 if !dls.is_empty() || n_agents_upper > 0 || !ows.is_empty() => {
                // one message from a source
                if !ows.is_empty() && rng.chance(1, 3) {
                    let o = *rng.pick(&ows);
                    let kind = *rng.pick(&["command", "command", "command", "link", "sync", "unlink"]);
                    let body = if kind == "command" {
                        hs(*rng.pick(&["1", "@remove(key:2)", "", "\"two words\"", "{a:1}"]))
                    } else {
                        "none".into()
                    };
                    ops.push(format!("send o{} {} {} {} {}", o, kind, hs(node), hs(lane), body));
                } else if !dls.is_empty() && rng.chance(1, 2) {
                    let d = *rng.pick(&dls);
                    let kind = *rng.pick(&["link", "sync", "unlink", "command"]);
                    let body = if kind == "command" { hs(*rng.pick(&["1", "@remove(key:2)", ""])) } else { "none".into() };
                    ops.push(format!("send d{} {} {} {} {}", d, kind, hs(node), hs(lane), body));
                } else if n_agents_upper > 0 {
                    let a = rng.below(n_agents_upper as u64);
                    let kind = *rng.pick(&["linked", "synced", "unlinked", "event"]);
                    let body = match kind {
                        "event" => hs(*rng.pick(&["1", "@update(key:1) 2", ""])),
                        "unlinked" => rng.pick(&["none", "406c616e654e6f74466f756e64", "-"]).to_string(),
                        _ => "none".into(),
                    };
                    ops.push(format!("send a{} {} {} {} {}", a, kind, hs(node), hs(lane), body));
                }
            }
            77..=88 if !dls.is_empty() || n_agents_upper > 0 || !ows.is_empty() => {
                let k = rng.range(2, 9);
                let mut srcs = vec![];
                for _ in 0..k {
                    if !ows.is_empty() && (rng.chance(1, 3) || (dls.is_empty() && n_agents_upper == 0)) {
                        srcs.push(format!("o{}", rng.pick(&ows)));
                    } else if !dls.is_empty() && (n_agents_upper == 0 || rng.chance(1, 2)) {
                        srcs.push(format!("d{}", rng.pick(&dls)));
                    } else {
                        srcs.push(format!("a{}", rng.below(n_agents_upper.max(1) as u64)));
                    }
                }
                ops.push(format!("burst {}", srcs.join(" ")));
            }
            89..=92 if !dls.is_empty() => {
                let i = rng.below(dls.len() as u64) as usize;
                ops.push(format!("detach d{}", dls.remove(i)));
            }
            93 if !ows.is_empty() => {
                let i = rng.below(ows.len() as u64) as usize;
                ops.push(format!("detach o{}", ows.remove(i)));
            }
            94..=96 if n_agents_upper > 0 => {
                ops.push(format!("detach a{}", rng.below(n_agents_upper as u64)));
            }
            97 => {
                resolvable = R_NODES.iter().copied().filter(|_| rng.chance(1, 2)).collect();
                ops.push(format!("agents {}", resolvable.iter().map(|n| hs(n)).collect::<Vec<_>>().join(" ")).trim().to_string());
            }
            98 => ops.push("stop".into()),
            99 => ops.push((*rng.pick(&["inbin 0102", "inclose", "inbin -"])).to_string()),
            _ => {}
        }
    }
    // a third of the peer's envelopes travel as fragmented messages with control frames in between
    let ops: Vec<String> = ops
        .into_iter()
        .map(|op| match op.strip_prefix("in ") {
            Some(f) if rng.chance(1, 3) => fragment_op(rng, f),
            _ => op,
        })
        .collect();
    ops
}

/// Send the same envelope as a fragmented text message: 1-3 cuts anywhere (also inside the header and inside
/// multi-byte characters), ping/pong control frames before, between and after the fragments; rarely a negative case.
fn fragment_op(rng: &mut Rng, frame_hex: &str) -> String {
    let len = if frame_hex == "-" { 0 } else { frame_hex.len() / 2 };
    let mut toks: Vec<String> = vec![];
    let mut ctl = |rng: &mut Rng, toks: &mut Vec<String>| {
        for _ in 0..rng.below(3) {
            toks.push(if rng.chance(2, 3) { "p".into() } else { "q".into() });
        }
    };
    if rng.chance(1, 4) {
        ctl(rng, &mut toks);
    }
    let cuts = rng.range(1, 3);
    let mut left = len as u64;
    for _ in 0..cuts {
        let n = if left == 0 { 0 } else { rng.below(left + 1) };
        toks.push(format!("{}", n));
        left -= n;
        if rng.chance(3, 4) {
            ctl(rng, &mut toks);
        }
        if rng.chance(1, 60) {
            toks.push((*rng.pick(&["b", "t", "c"])).to_string());
        }
    }
    format!("infrag {} {}", frame_hex, toks.join(","))
}

fn is_route_op(op: &str) -> bool {
    matches!(op.split_whitespace().next(), Some("agents" | "attach" | "attach1" | "in" | "infrag" | "inbin" | "inclose" | "send" | "burst" | "detach" | "stop"))
}

fn gen_pure_case(rng: &mut Rng, t: &mut Trace) {
    // the ops are independent (stateless components): short cases, so that one finding does not mask the next
    for _ in 0..rng.range(1, 3) {
        let op = if rng.chance(3, 5) { gen_rt(rng) } else { format!("peel {}", hs(&gen_peel_frame(rng))) };
        let o = exec_pure(&op);
        t.op(op, o);
    }
}

fn gen_fuzz_case(rng: &mut Rng, t: &mut Trace) {
    for _ in 0..rng.range(1, 3) {
        let op = format!("peel {}", hs(&gen_fuzz_frame(rng)));
        let o = exec_pure(&op);
        t.op(op, o);
    }
}

fn main() {
    install_panic_hook();
    let engine = std::env::args().nth(5).unwrap_or_else(|| "pure".to_string());
    match parse_args() {
        Mode::Gen { seed, cases, out } => {
            let mut t = Trace::create(&out);
            let mut rng = Rng::new(seed);
            for i in 0..cases {
                t.case(format!("{} seed={} engine={}", i, seed, engine));
                match engine.as_str() {
                    "pure" => gen_pure_case(&mut rng, &mut t),
                    "fuzz" => gen_fuzz_case(&mut rng, &mut t),
                    "mr" => {
                        let ops = mr::gen_ops(&mut rng);
                        mr::run_case(&ops, &mut t);
                    }
                    "mrw" => {
                        // the marker op `wakepoll` tells a replay which engine the case belongs to
                        let mut ops: Vec<String> = vec!["wakepoll".to_string()];
                        ops.extend(mr::gen_ops(&mut rng).into_iter().filter(|o| o != "empty"));
                        mrw::run_case(&ops, &mut t);
                    }
                    "mrs" => {
                        let ops = vec![format!("stress {} {}", rng.range(2, 24), rng.range(20, 120))];
                        mrs::run_case(&ops, &mut t);
                    }
                    "route" => {
                        let ops = gen_route_ops(&mut rng);
                        sock::run_case(&ops, &mut t);
                    }
                    other => panic!("unknown engine {}", other),
                }
            }
            t.finish();
        }
        Mode::Replay { ops, out } => {
            let mut t = Trace::create(&out);
            for (i, case) in ops.iter().enumerate() {
                t.case(i);
                if case.first().map(|o| o.starts_with("stress")).unwrap_or(false) {
                    mrs::run_case(case, &mut t);
                    continue;
                }
                if case.first().map(|o| o == "wakepoll").unwrap_or(false) {
                    mrw::run_case(case, &mut t);
                    continue;
                }
                if case.first().map(|o| matches!(o.split_whitespace().next(), Some("add" | "addn" | "poll" | "push" | "close" | "empty"))).unwrap_or(false) {
                    mr::run_case(case, &mut t);
                    continue;
                }
                if case.first().map(|o| is_route_op(o)).unwrap_or(false) {
                    sock::run_case(case, &mut t);
                    continue;
                }
                for op in case {
                    let o = exec_pure(op);
                    t.op(op, o);
                }
            }
            t.finish();
        }
    }
}
