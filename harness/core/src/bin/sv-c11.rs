//! C11 correspondence harness.
//!
//! Engines (selected by the 5th argument of `gen`, or by the first op of a replayed case):
//!   pure   : real `ReconEncoder` (verif_hooks re-export) composed with the real `peel_envelope_header_str`
//!            (`rt …` lines) and the real reader on hand-made frames of the modelled fragment (`peel …` lines)
//!   fuzz   : the real reader on arbitrary mutated frames (monitor only: no panic)
use std::panic::{catch_unwind, AssertUnwindSafe};

use bytes::{Bytes, BytesMut};
use svh::{hex, parse_args, unhex, Mode, Rng, Trace};
use swimos_api::address::RelativeAddress;
use swimos_messages::protocol::{BytesRequestMessage, BytesResponseMessage, Notification, Operation, RequestMessage, ResponseMessage};
use swimos_messages::remote_protocol::NoSuchAgent;
use swimos_messages::warp::{peel_envelope_header_str, RawEnvelope};
use swimos_model::Text;
use swimos_remote::verif::ReconEncoder;
use swimos_utilities::encoding::BytesStr;
use tokio_util::codec::Encoder;
use uuid::Uuid;

// ------------------------------------------------------------------------------------------------ pure part

thread_local! {
    static LAST_PANIC: std::cell::RefCell<String> = const { std::cell::RefCell::new(String::new()) };
}

/// Panic hook: remember the message (nothing is printed).
fn install_panic_hook() {
    std::panic::set_hook(Box::new(|info| {
        let msg = if let Some(s) = info.payload().downcast_ref::<&str>() {
            s.to_string()
        } else if let Some(s) = info.payload().downcast_ref::<String>() {
            s.clone()
        } else {
            String::new()
        };
        LAST_PANIC.with(|c| *c.borrow_mut() = msg);
    }));
}

/// Canonical name of the last panic: which `unwrap`/`finish` fired.
fn last_panic_cause() -> &'static str {
    LAST_PANIC.with(|c| {
        let m = c.borrow();
        if m.contains("Err::Incomplete") {
            "finish-incomplete"
        } else if m.contains("CharTryFromError") {
            "char-try-from"
        } else {
            "other"
        }
    })
}

fn hs(s: &str) -> String {
    hex(s.as_bytes())
}

fn render_env(env: RawEnvelope<'_>) -> String {
    let f = |k: &str, n: &str, l: &str, b: &str| format!("env {} {} {} {}", k, hs(n), hs(l), hs(b));
    match env {
        RawEnvelope::Auth(_) => "auth".into(),
        RawEnvelope::DeAuth(_) => "deauth".into(),
        RawEnvelope::Link { node_uri, lane_uri, body, .. } => f("link", &node_uri, &lane_uri, &body),
        RawEnvelope::Sync { node_uri, lane_uri, body, .. } => f("sync", &node_uri, &lane_uri, &body),
        RawEnvelope::Unlink { node_uri, lane_uri, body } => f("unlink", &node_uri, &lane_uri, &body),
        RawEnvelope::Command { node_uri, lane_uri, body } => f("command", &node_uri, &lane_uri, &body),
        RawEnvelope::Linked { node_uri, lane_uri, body, .. } => f("linked", &node_uri, &lane_uri, &body),
        RawEnvelope::Synced { node_uri, lane_uri, body } => f("synced", &node_uri, &lane_uri, &body),
        RawEnvelope::Unlinked { node_uri, lane_uri, body } => f("unlinked", &node_uri, &lane_uri, &body),
        RawEnvelope::Event { node_uri, lane_uri, body } => f("event", &node_uri, &lane_uri, &body),
    }
}

/// Real reader on one frame.
fn real_peel(frame: &str) -> String {
    match catch_unwind(AssertUnwindSafe(|| peel_envelope_header_str(frame).map(render_env))) {
        Err(_) => format!("panic {}", last_panic_cause()),
        Ok(Err(_)) => "err".into(),
        Ok(Ok(s)) => s,
    }
}

/// Real writer. `body = None` only matters for `unlinked` (`Unlinked(None)`).
fn real_encode(kind: &str, node: &str, lane: Option<&str>, body: Option<&str>) -> Option<Vec<u8>> {
    let mut enc = ReconEncoder;
    let mut dst = BytesMut::new();
    let id = Uuid::from_u128(7);
    let path = || RelativeAddress::new(BytesStr::from(node), BytesStr::from(lane.unwrap_or("")));
    let b = || Bytes::copy_from_slice(body.unwrap_or("").as_bytes());
    let req = |op: Operation<Bytes>| -> BytesRequestMessage { RequestMessage { origin: id, path: path(), envelope: op } };
    let res = |n: Notification<Bytes, Bytes>| -> BytesResponseMessage { ResponseMessage { origin: id, path: path(), envelope: n } };
    let r = catch_unwind(AssertUnwindSafe(|| match kind {
        "link" => enc.encode(req(Operation::Link), &mut dst).is_ok(),
        "sync" => enc.encode(req(Operation::Sync), &mut dst).is_ok(),
        "unlink" => enc.encode(req(Operation::Unlink), &mut dst).is_ok(),
        "command" => enc.encode(req(Operation::Command(b())), &mut dst).is_ok(),
        "linked" => enc.encode(res(Notification::Linked), &mut dst).is_ok(),
        "synced" => enc.encode(res(Notification::Synced), &mut dst).is_ok(),
        "unlinked" => enc.encode(res(Notification::Unlinked(body.map(|_| b()))), &mut dst).is_ok(),
        "event" => enc.encode(res(Notification::Event(b())), &mut dst).is_ok(),
        "nosuch" => enc
            .encode(NoSuchAgent { node: Text::new(node), lane: lane.map(Text::new) }, &mut dst)
            .is_ok(),
        _ => false,
    }));
    match r {
        Ok(true) => Some(dst.to_vec()),
        _ => None,
    }
}

fn opt_str(h: &str) -> Option<Option<String>> {
    if h == "none" {
        Some(None)
    } else {
        unhex(h).and_then(|b| String::from_utf8(b).ok()).map(Some)
    }
}

fn exec_pure(op: &str) -> String {
    let parts: Vec<&str> = op.split_whitespace().collect();
    match parts.as_slice() {
        ["rt", kind, n, l, b] => {
            let (Some(Some(node)), Some(lane), Some(body)) = (opt_str(n), opt_str(l), opt_str(b)) else {
                return "bad-op".into();
            };
            match real_encode(kind, &node, lane.as_deref(), body.as_deref()) {
                None => "encoder-failed".into(),
                Some(frame) => match std::str::from_utf8(&frame) {
                    Ok(text) => format!("{} {}", real_peel(text), hex(&frame)),
                    Err(_) => format!("not-utf8 {}", hex(&frame)),
                },
            }
        }
        ["peel", f] => match unhex(f).and_then(|b| String::from_utf8(b).ok()) {
            Some(frame) => real_peel(&frame),
            None => "bad-op".into(),
        },
        _ => "bad-op".into(),
    }
}

const KINDS: [&str; 8] = ["link", "sync", "unlink", "command", "linked", "synced", "unlinked", "event"];

/// String pool of the property's quantifier: empty, keywords, quotes, backslashes, controls, non-BMP, percent
/// encodings, the edges of every identifier range, separators of the header grammar.
const ATOMS: [&str; 64] = [
    "", "true", "false", "node", "lane", "/node", "lane", "a", "_", "-", "0", "9x", "x9", "x-y", "two words", " lead",
    "trail ", "\"", "\\", "\\\\", "\\\"", "\\u0041", "\\n", "\"q\"", "%", "%20", "/a%20b/c", "/unit/%E2%82%AC",
    "\u{0}", "\u{1}", "\u{8}", "\t", "\n", "\u{b}", "\u{c}", "\r", "\u{1f}", "\u{20}", "\u{7f}", "\u{85}", "\u{a0}",
    "\u{b7}", "\u{d7}", "\u{f7}", "\u{37e}", "\u{2000}", "\u{200c}", "\u{2028}", "\u{d7ff}", "\u{e000}", "\u{fffd}",
    "\u{fffe}", "\u{ffff}", "\u{10000}", "\u{1F600}", "\u{effff}", "\u{f0000}", "\u{10ffff}", ",", ")", "(", ":", "@", ";",
];

fn rand_char(rng: &mut Rng) -> char {
    loop {
        let c = match rng.below(6) {
            0 => rng.below(0x30) as u32,
            1 => rng.range(0x20, 0x7e) as u32,
            2 => rng.range(0x7f, 0x400) as u32,
            3 => rng.range(0x1ff0, 0x3010) as u32,
            4 => rng.range(0xd700, 0x10010) as u32,
            _ => rng.range(0xefff0, 0x10ffff) as u32,
        };
        if let Some(c) = char::from_u32(c) {
            return c;
        }
    }
}

fn gen_name(rng: &mut Rng) -> String {
    match rng.below(10) {
        0 => ATOMS[rng.below(ATOMS.len() as u64) as usize].to_string(),
        1 | 2 => {
            // plain identifiers / typical URIs
            let pool = ["/node", "/unit/1", "lane", "node", "map", "value_lane", "a-b", "ℵ", "اسم", "名前"];
            pool[rng.below(pool.len() as u64) as usize].to_string()
        }
        _ => {
            let n = rng.below(5);
            let mut s = String::new();
            for _ in 0..=n {
                if rng.chance(2, 3) {
                    s.push_str(ATOMS[rng.below(ATOMS.len() as u64) as usize]);
                } else {
                    s.push(rand_char(rng));
                }
            }
            s
        }
    }
}

fn gen_body(rng: &mut Rng) -> String {
    let pool = [
        "", "@update(key:1) 10", "@remove(key:\"a b\")", "@clear", "plain", "\"text\"", "{a:1,b:2}", "13", "@",
        "\"", "@laneNotFound", "@nodeNotFound", "Link closed.", "x y", "a\nb", "\u{1F600}", "%AAAA", "\\",
    ];
    match rng.below(12) {
        0 => format!(" {}", gen_name(rng)),  // not BodyWF
        1 => format!("\t{}", gen_name(rng)), // not BodyWF
        2 | 3 => gen_name(rng),
        _ => pool[rng.below(pool.len() as u64) as usize].to_string(),
    }
}

fn gen_rt(rng: &mut Rng) -> String {
    let node = gen_name(rng);
    let lane = gen_name(rng);
    if rng.chance(1, 12) {
        let l = if rng.chance(1, 2) { "none".to_string() } else { hs(&lane) };
        return format!("rt nosuch {} {} none", hs(&node), l);
    }
    let kind = KINDS[rng.below(8) as usize];
    let body = match kind {
        "command" | "event" => hs(&gen_body(rng)),
        "unlinked" => {
            if rng.chance(1, 3) {
                "none".to_string()
            } else {
                hs(&gen_body(rng))
            }
        }
        _ => "none".to_string(),
    };
    format!("rt {} {} {} {}", kind, hs(&node), hs(&lane), body)
}

/// Hand-made frames inside the fragment the model reads (values are identifiers or string literals).
fn gen_peel_frame(rng: &mut Rng) -> String {
    let ws = |rng: &mut Rng| -> &'static str { *rng.pick(&["", "", "", " ", "\t", "\n", " \r\n "]) };
    let sp = |rng: &mut Rng| -> &'static str { *rng.pick(&["", "", "", " ", "\t", "  "]) };
    let tags = [
        "link", "sync", "unlink", "command", "linked", "synced", "unlinked", "event", "auth", "deauth", "foo", "Event",
        "\"event\"", "\"li\\u006ek\"", "\"\"", "\"bad\\q\"", "eventx", "",
    ];
    let mut f = String::new();
    if !rng.chance(1, 40) {
        f.push('@');
    }
    f.push_str(tags[if rng.chance(3, 4) { rng.below(8) } else { rng.below(tags.len() as u64) } as usize]);
    let paren = !rng.chance(1, 12);
    let mut closed = false;
    let mut unterminated = false;
    if paren {
        f.push('(');
        let n_items = match rng.below(10) {
            0 => 0,
            1 => 1,
            2 => 3,
            3 => 4,
            _ => 2,
        };
        let mut names: Vec<&str> = vec!["node", "lane"];
        if rng.chance(1, 6) {
            names.swap(0, 1);
        }
        for i in 0..n_items {
            f.push_str(ws(rng));
            let name: String = if i < 2 && rng.chance(5, 6) {
                names[i].to_string()
            } else {
                rng.pick(&["node", "lane", "\"node\"", "\"la\\u006ee\"", "nod", "x", "Node", "\"no\\de\""]).to_string()
            };
            let value: String = match if unterminated { 40 } else { rng.below(48) } {
                0 => "".into(),
                1 => {
                    // everything up to the next quote is swallowed: later values stay in the safe pool
                    unterminated = true;
                    "\"unterminated".into()
                }
                2 => "\"bad\\q\"".into(),
                3 => "\"\\u12\"".into(),
                4 => "\"\\ud800\"".into(),
                5 => "\"\\uD7FFx\\uuu0041\"".into(),
                6 | 7 => "true".into(),
                8 | 9 => "\"\"".into(),
                10..=12 => "\"a\\\\b\\\"c\\n\\t\\r\\b\\f\\u001f\"".into(),
                13..=24 => {
                    // what the writer would produce for an arbitrary name
                    let s = gen_name(rng);
                    match real_encode("link", &s, Some("l"), None) {
                        Some(fr) => {
                            let t = String::from_utf8(fr).unwrap();
                            t["@link(node:".len()..t.len() - ",lane:l)".len()].to_string()
                        }
                        None => "x".into(),
                    }
                }
                _ => rng.pick(&["a", "/n", "abc", "x-1", "_", "ℵ", "\"/node\"", "\"two words\"", "\"😀\""]).to_string(),
            };
            let value = if value.starts_with('/') { format!("\"{}\"", value) } else { value };
            if rng.chance(1, 14) {
                // a value item instead of a slot
                f.push_str(&name);
            } else {
                f.push_str(&name);
                f.push_str(ws(rng));
                f.push(':');
                f.push_str(ws(rng));
                f.push_str(&value);
            }
            let last = i + 1 == n_items;
            if !last || rng.chance(1, 8) {
                f.push_str(sp(rng));
                f.push_str(*rng.pick(&[",", ",", ",", ";", "\n", "\r\n", ""]));
            }
        }
        f.push_str(ws(rng));
        if !rng.chance(1, 14) {
            f.push(')');
            closed = true;
        }
    }
    f.push_str(*rng.pick(&["", "", " ", "\t ", " \t"]));
    if paren && !closed {
        // the tail is read as header items: keep it inside the modelled fragment
        f.push_str(*rng.pick(&["", "x", "\"s\"", "a b ", "\nq", "("]));
        return f;
    }
    f.push_str(*rng.pick(&["", "x", "@update(key:1) 2", "\"s\"", "a b ", "\nq", "(", ")"]));
    f
}

/// Arbitrary mutations (outside the modelled fragment as well); monitor only.
fn gen_fuzz_frame(rng: &mut Rng) -> String {
    let base = if rng.chance(1, 2) {
        gen_peel_frame(rng)
    } else {
        let kind = KINDS[rng.below(8) as usize];
        let fr = real_encode(kind, &gen_name(rng), Some(&gen_name(rng)), Some(&gen_body(rng))).unwrap_or_default();
        String::from_utf8(fr).unwrap_or_default()
    };
    let mut cs: Vec<char> = base.chars().collect();
    let inserts = [
        "1", "-1", "0.5", "1e9", "%AAAA", "{a:1}", "@a(1)", "rate:0.5,", "prio:1,", "rate:inf,", "prio:x,", "node:", "lane:",
        ",", ";", ":", "(", ")", "\"", "\\", "\\u", "@", "\n", " ", "{", "}", "node:,", "lane:;", "node: ,lane: )",
    ];
    for _ in 0..rng.below(4) {
        let pos = rng.below(cs.len() as u64 + 1) as usize;
        match rng.below(4) {
            0 if !cs.is_empty() => {
                cs.remove(pos.min(cs.len() - 1));
            }
            1 => {
                for (i, c) in rng.pick(&inserts).chars().enumerate() {
                    cs.insert(pos + i, c);
                }
            }
            2 => cs.insert(pos, rand_char(rng)),
            _ => cs.truncate(pos),
        }
    }
    cs.into_iter().collect()
}

fn gen_pure_case(rng: &mut Rng, t: &mut Trace) {
    // the ops are independent (stateless components): short cases, so that one finding does not mask the next
    for _ in 0..rng.range(1, 3) {
        let op = if rng.chance(3, 5) { gen_rt(rng) } else { format!("peel {}", hs(&gen_peel_frame(rng))) };
        let o = exec_pure(&op);
        t.op(op, o);
    }
}

fn gen_fuzz_case(rng: &mut Rng, t: &mut Trace) {
    for _ in 0..rng.range(1, 3) {
        let op = format!("peel {}", hs(&gen_fuzz_frame(rng)));
        let o = exec_pure(&op);
        t.op(op, o);
    }
}

fn main() {
    install_panic_hook();
    let engine = std::env::args().nth(5).unwrap_or_else(|| "pure".to_string());
    match parse_args() {
        Mode::Gen { seed, cases, out } => {
            let mut t = Trace::create(&out);
            let mut rng = Rng::new(seed);
            for i in 0..cases {
                t.case(format!("{} seed={} engine={}", i, seed, engine));
                match engine.as_str() {
                    "pure" => gen_pure_case(&mut rng, &mut t),
                    "fuzz" => gen_fuzz_case(&mut rng, &mut t),
                    other => panic!("unknown engine {}", other),
                }
            }
            t.finish();
        }
        Mode::Replay { ops, out } => {
            let mut t = Trace::create(&out);
            for (i, case) in ops.iter().enumerate() {
                t.case(i);
                for op in case {
                    let o = exec_pure(op);
                    t.op(op, o);
                }
            }
            t.finish();
        }
    }
}
