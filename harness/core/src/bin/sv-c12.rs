//! C12 correspondence: the real `byte_channel` polled manually (no runtime) with counting wakers.
use std::num::NonZeroUsize;
use std::pin::Pin;
use std::sync::atomic::{AtomicUsize, Ordering};
use std::sync::Arc;
use std::task::{Context, Poll, Wake, Waker};

use svh::{hex, parse_args, unhex, Mode, Rng, Trace};
use swimos_byte_channel::{byte_channel, BudgetedFutureExt, ByteReader, ByteWriter};
use tokio::io::{AsyncRead, AsyncWrite, ReadBuf};

struct Counter(AtomicUsize);
impl Wake for Counter {
    fn wake(self: Arc<Self>) {
        self.0.fetch_add(1, Ordering::SeqCst);
    }
    fn wake_by_ref(self: &Arc<Self>) {
        self.0.fetch_add(1, Ordering::SeqCst);
    }
}

struct Sys {
    r: Option<ByteReader>,
    w: Option<ByteWriter>,
    // Two wakers per side, used alternately (a task may be re-polled with a different waker). The channel must wake
    // the waker of that side's latest poll that returned `Pending` (`r_reg` / `w_reg`), never an earlier one.
    rcs: [Arc<Counter>; 2],
    wcs: [Arc<Counter>; 2],
    rws: [Waker; 2],
    wws: [Waker; 2],
    r_cur: usize,
    w_cur: usize,
    r_reg: Option<usize>,
    w_reg: Option<usize>,
}

fn total(cs: &[Arc<Counter>; 2]) -> [usize; 2] {
    [cs[0].0.load(Ordering::SeqCst), cs[1].0.load(Ordering::SeqCst)]
}

impl Sys {
    fn new(cap: usize) -> Sys {
        let (w, r) = byte_channel(NonZeroUsize::new(cap).unwrap());
        let mk = || Arc::new(Counter(AtomicUsize::new(0)));
        let rcs = [mk(), mk()];
        let wcs = [mk(), mk()];
        Sys {
            r: Some(r),
            w: Some(w),
            rws: [Waker::from(rcs[0].clone()), Waker::from(rcs[1].clone())],
            wws: [Waker::from(wcs[0].clone()), Waker::from(wcs[1].clone())],
            rcs,
            wcs,
            r_cur: 0,
            w_cur: 0,
            r_reg: None,
            w_reg: None,
        }
    }

    fn exec(&mut self, op: &str) -> String {
        let parts: Vec<&str> = op.split_whitespace().collect();
        let by_reader = matches!(parts.first().copied(), Some("read") | Some("dropr"));
        let polls = matches!(parts.first().copied(), Some("read") | Some("write") | Some("flush") | Some("shutdown"));
        if polls {
            if by_reader {
                self.r_cur ^= 1;
            } else {
                self.w_cur ^= 1;
            }
        }
        let r0 = total(&self.rcs);
        let w0 = total(&self.wcs);
        let rw = self.rws[self.r_cur].clone();
        let ww = self.wws[self.w_cur].clone();
        let res: String = match parts.as_slice() {
            ["read", k] => {
                let k: usize = k.parse().unwrap();
                match self.r.as_mut() {
                    None => "na".into(),
                    Some(r) => {
                        // the caller's buffer already holds `pre` bytes (as `read_exact` / `copy` do on a second
                        // round): the channel must append behind them and leave them alone
                        let pre = k % 3;
                        let mut store = vec![0u8; k + pre];
                        let mut buf = ReadBuf::new(&mut store);
                        buf.put_slice(&vec![0xEEu8; pre]);
                        let mut cx = Context::from_waker(&rw);
                        match Pin::new(r).poll_read(&mut cx, &mut buf) {
                            Poll::Ready(Ok(())) => {
                                let f = buf.filled();
                                if f.len() < pre || f[..pre].iter().any(|b| *b != 0xEE) {
                                    format!("bytes {} readbuf-prefix-damaged", hex(f))
                                } else {
                                    format!("bytes {}", hex(&f[pre..]))
                                }
                            }
                            Poll::Ready(Err(_)) => "err".into(),
                            Poll::Pending => "pending".into(),
                        }
                    }
                }
            }
            ["write", h] => {
                let bs = unhex(h).unwrap();
                match self.w.as_mut() {
                    None => "na".into(),
                    Some(w) => {
                        let mut cx = Context::from_waker(&ww);
                        match Pin::new(w).poll_write(&mut cx, &bs) {
                            Poll::Ready(Ok(n)) => format!("count {}", n),
                            Poll::Ready(Err(_)) => "err".into(),
                            Poll::Pending => "pending".into(),
                        }
                    }
                }
            }
            ["flush"] => match self.w.as_mut() {
                None => "na".into(),
                Some(w) => {
                    let mut cx = Context::from_waker(&ww);
                    match Pin::new(w).poll_flush(&mut cx) {
                        Poll::Ready(Ok(())) => "unit".into(),
                        Poll::Ready(Err(_)) => "err".into(),
                        Poll::Pending => "pending".into(),
                    }
                }
            },
            ["shutdown"] => match self.w.as_mut() {
                None => "na".into(),
                Some(w) => {
                    let mut cx = Context::from_waker(&ww);
                    match Pin::new(w).poll_shutdown(&mut cx) {
                        Poll::Ready(Ok(())) => "unit".into(),
                        Poll::Ready(Err(_)) => "err".into(),
                        Poll::Pending => "pending".into(),
                    }
                }
            },
            ["dropr"] => match self.r.take() {
                None => "na".into(),
                Some(r) => {
                    drop(r);
                    "unit".into()
                }
            },
            ["dropw"] => match self.w.take() {
                None => "na".into(),
                Some(w) => {
                    drop(w);
                    "unit".into()
                }
            },
            ["budget", n] => {
                // `RunWithBudget::poll` sets the thread-local budget, then polls the inner future.
                let n: usize = n.parse().unwrap();
                let fut = std::future::ready(()).with_budget(NonZeroUsize::new(n).unwrap());
                let mut fut = Box::pin(fut);
                let noop = Waker::from(Arc::new(Counter(AtomicUsize::new(0))));
                let mut cx = Context::from_waker(&noop);
                let _ = std::future::Future::poll(fut.as_mut(), &mut cx);
                "unit".into()
            }
            _ => "bad-op".into(),
        };
        let r1 = total(&self.rcs);
        let w1 = total(&self.wcs);
        // a wake-up caused by the OTHER side that hits a waker which is not the one registered by the latest pending
        // poll is a lost wake-up (the registered one is never woken)
        let mut stale = false;
        for i in 0..2 {
            if !by_reader && r1[i] > r0[i] && self.r_reg != Some(i) {
                stale = true;
            }
            if by_reader && w1[i] > w0[i] && self.w_reg != Some(i) {
                stale = true;
            }
        }
        // `Pending` with a self-wake is the cooperative budget yielding (the conduit was not reached and stored nothing)
        if polls && res == "pending" {
            if by_reader {
                if r1[self.r_cur] == r0[self.r_cur] {
                    self.r_reg = Some(self.r_cur);
                }
            } else if w1[self.w_cur] == w0[self.w_cur] {
                self.w_reg = Some(self.w_cur);
            }
        }
        let wr = r1[0] + r1[1] - r0[0] - r0[1];
        let ww = w1[0] + w1[1] - w0[0] - w0[1];
        if stale {
            format!("{} stale wr={} ww={}", res, wr, ww)
        } else {
            format!("{} wr={} ww={}", res, wr, ww)
        }
    }
}

fn gen_op(rng: &mut Rng, cap: usize, s: &Sys) -> String {
    loop {
        let c = rng.below(100);
        let op = if c < 38 {
            format!("read {}", rng.below(cap as u64 + 3))
        } else if c < 76 {
            let n = rng.below(cap as u64 + 3) as usize;
            let bs: Vec<u8> = (0..n).map(|_| rng.below(256) as u8).collect();
            format!("write {}", hex(&bs))
        } else if c < 82 {
            "flush".into()
        } else if c < 84 {
            "shutdown".into()
        } else if c < 86 {
            if s.r.is_none() { continue; }
            "dropr".into()
        } else if c < 88 {
            if s.w.is_none() { continue; }
            "dropw".into()
        } else {
            format!("budget {}", rng.range(1, 6))
        };
        if (op.starts_with("read") && s.r.is_none())
            || ((op.starts_with("write") || op == "flush" || op == "shutdown") && s.w.is_none())
        {
            if rng.chance(9, 10) { continue; }
        }
        return op;
    }
}

fn main() {
    match parse_args() {
        Mode::Gen { seed, cases, out } => {
            let mut t = Trace::create(&out);
            let mut rng = Rng::new(seed);
            for i in 0..cases {
                let cap = rng.range(1, 8) as usize;
                let len = rng.range(1, 40);
                t.case(format!("{} seed={}", i, seed));
                // the budget is thread-local and survives between cases: pin it at the start of each case
                let mut s = Sys::new(cap);
                t.op(format!("new {}", cap), "ok");
                let b = rng.range(1, 70);
                let o = s.exec(&format!("budget {}", b));
                t.op(format!("budget {}", b), o);
                for _ in 0..len {
                    let op = gen_op(&mut rng, cap, &s);
                    let o = s.exec(&op);
                    t.op(op, o);
                }
            }
            t.finish();
        }
        Mode::Replay { ops, out } => {
            let mut t = Trace::create(&out);
            for (i, case) in ops.iter().enumerate() {
                t.case(i);
                let mut s: Option<Sys> = None;
                for op in case {
                    if let Some(c) = op.strip_prefix("new ") {
                        s = Some(Sys::new(c.trim().parse().unwrap()));
                        t.op(op, "ok");
                    } else if let Some(sys) = s.as_mut() {
                        let o = sys.exec(op);
                        t.op(op, o);
                    } else {
                        t.op(op, "bad-op");
                    }
                }
            }
            t.finish();
        }
    }
}
