//! Write-task correspondence (C01–C04, C14, C20): the REAL `WriteTaskState` (links, remote tracker, uplinks,
//! backpressure, write futures) of the agent runtime driven one `WriteTaskEvent` at a time through the
//! `verif_hooks` wrapper; frames are read back from the remotes' byte channels with the real decoder.
use std::collections::{BTreeMap, HashMap};
use std::num::NonZeroUsize;

use bytes::{Bytes, BytesMut};
use futures::{FutureExt, StreamExt};
use svh::{hex, parse_args, unhex, Mode, Rng, Trace};
use swimos_agent_protocol::MapOperation;
use swimos_api::agent::UplinkKind;
use swimos_messages::protocol::{Notification, RawResponseMessageDecoder};
use swimos_model::Text;
use swimos_runtime::agent::reporting::{UplinkReportReader, UplinkReporter};
use swimos_runtime::agent::DisconnectionReason;
use swimos_runtime::verif::write_task::{Scheduled, UplinkResponse, WriteSim, WriteTask};
use swimos_utilities::byte_channel::{byte_channel, BudgetedFutureExt, ByteReader};
use swimos_utilities::trigger::promise;
use tokio_util::codec::FramedRead;
use uuid::Uuid;

/// Key classes: Recon-equal spellings share a class (checked against the real comparator at start-up).
const KEY_CLASSES: &[&[&str]] = &[
    &["a", "\"a\""],
    &["{x:1}", "{ x: 1 }", "{x: 1}"],
    &["2"],
    &["@t{y:2}", "@t { y: 2 }"],
    &["\"b c\""],
    &["5"],
];

fn check_key_classes() {
    for (i, ci) in KEY_CLASSES.iter().enumerate() {
        for (j, cj) in KEY_CLASSES.iter().enumerate() {
            for a in ci.iter() {
                for b in cj.iter() {
                    let eq = swimos_recon::compare_recon_values(a, b);
                    assert_eq!(eq, i == j, "key class table inconsistent with comparator: {:?} {:?}", a, b);
                }
            }
        }
    }
}

fn class_of(spelling: &[u8]) -> Option<usize> {
    KEY_CLASSES
        .iter()
        .position(|c| c.iter().any(|s| s.as_bytes() == spelling))
}

struct RemoteCtx {
    reader: Option<FramedRead<ByteReader, RawResponseMessageDecoder>>,
    inflight: Option<WriteTask>,
    completion: promise::Receiver<DisconnectionReason>,
    reported: bool,
}

struct Sys {
    sim: WriteSim,
    remotes: BTreeMap<u64, RemoteCtx>,
    gone: BTreeMap<u64, RemoteCtx>, // removed remotes whose in-flight write may still complete
    agg: Option<UplinkReportReader>,
    lane_readers: Vec<Option<(UplinkReporter, UplinkReportReader)>>,
    lane_names: Vec<u64>,
    spell: Rng,
}

fn rid(r: u64) -> Uuid {
    Uuid::from_u128(0x1000 + r as u128)
}

fn rnum(id: Uuid) -> u64 {
    (id.as_u128() - 0x1000) as u64
}

fn lane_text(n: u64) -> Text {
    Text::new(&format!("l{}", n))
}

fn render_map_body(body: &[u8]) -> Option<String> {
    if body == b"@clear" {
        return Some("clr".into());
    }
    if let Some(rest) = body.strip_prefix(b"@update(key:") {
        for c in KEY_CLASSES.iter() {
            for s in c.iter() {
                if let Some(tail) = rest.strip_prefix(s.as_bytes()) {
                    if let Some(v) = tail.strip_prefix(b") ") {
                        return Some(format!("upd:{}:{}", class_of(s.as_bytes()).unwrap(), hex(v)));
                    }
                }
            }
        }
        return None;
    }
    if let Some(rest) = body.strip_prefix(b"@remove(key:") {
        if let Some(k) = rest.strip_suffix(b")") {
            return class_of(k).map(|c| format!("rem:{}", c));
        }
    }
    None
}

fn render_frame(lane: &str, env: &Notification<Bytes, Bytes>) -> String {
    let ln = match lane.strip_prefix('l').and_then(|s| s.parse::<u64>().ok()) {
        Some(n) => n.to_string(),
        None if lane.is_empty() => "_".to_string(),
        None => format!("?{}", hex(lane.as_bytes())),
    };
    let is_map = lane
        .strip_prefix('l')
        .and_then(|s| s.parse::<u64>().ok())
        .map(|n| n % 3 == 2)
        .unwrap_or(false);
    match env {
        Notification::Linked => format!("{}:linked", ln),
        Notification::Synced => format!("{}:synced", ln),
        Notification::Unlinked(None) => format!("{}:unl:none", ln),
        Notification::Unlinked(Some(b)) => {
            let m = match b.as_ref() {
                b"" => "none".to_string(),
                b"\"Link closed.\"" => "closed".to_string(),
                b"@laneNotFound" => "nf".to_string(),
                other => format!("?{}", hex(other)),
            };
            format!("{}:unl:{}", ln, m)
        }
        Notification::Event(b) => {
            if is_map {
                if let Some(s) = render_map_body(b.as_ref()) {
                    return format!("{}:ev:{}", ln, s);
                }
            }
            format!("{}:ev:{}", ln, hex(b.as_ref()))
        }
    }
}

fn join(xs: Vec<String>) -> String {
    if xs.is_empty() {
        "-".into()
    } else {
        xs.join(",")
    }
}

impl Sys {
    fn new(agg: bool, seed: u64) -> Sys {
        let reporter = if agg { Some(UplinkReporter::default()) } else { None };
        let reader = reporter.as_ref().map(|r| r.reader());
        // the aggregate reporter handle is owned by the links registry; keep it alive like NodeReporting does
        let keep = reporter.clone();
        std::mem::forget(keep);
        Sys {
            sim: WriteSim::new(Uuid::from_u128(1), Text::new("/node"), reporter),
            remotes: BTreeMap::new(),
            gone: BTreeMap::new(),
            agg: reader,
            lane_readers: vec![],
            lane_names: vec![],
            spell: Rng::new(seed ^ 0x5eed),
        }
    }

    fn scheduled(&mut self, r: u64, s: Scheduled, sched: &mut Vec<u64>) {
        if let Scheduled::Write { write, .. } = s {
            self.put_write(r, write, sched);
        }
    }

    fn put_write(&mut self, r: u64, w: WriteTask, sched: &mut Vec<u64>) {
        if let Some(ctx) = self.remotes.get_mut(&r) {
            assert!(ctx.inflight.is_none(), "two writes in flight for one remote");
            ctx.inflight = Some(w);
            sched.push(r);
        } else {
            panic!("write scheduled for unknown remote {}", r);
        }
    }

    fn put_writes(&mut self, ws: Vec<WriteTask>, sched: &mut Vec<u64>) {
        for w in ws {
            let r = rnum(w.sender.remote_id());
            self.put_write(r, w, sched);
        }
    }

    fn closed(&mut self) -> Vec<String> {
        let mut out = vec![];
        for (r, ctx) in self.remotes.iter_mut().chain(self.gone.iter_mut()) {
            if ctx.reported {
                continue;
            }
            if let Some(res) = (&mut ctx.completion).now_or_never() {
                ctx.reported = true;
                let why = match res {
                    Ok(DisconnectionReason::DuplicateRegistration(_)) => "dup",
                    Ok(DisconnectionReason::ChannelClosed) => "closed",
                    Ok(DisconnectionReason::RemoteTimedOut) => "timeout",
                    Ok(DisconnectionReason::AgentStoppedExternally) => "stopped",
                    Ok(_) => "other",
                    Err(_) => "dropped",
                };
                out.push(format!("{}:{}", r, why));
            }
        }
        out
    }

    /// Remotes the runtime has dropped are moved to `gone`.
    fn sweep(&mut self) {
        let dead: Vec<u64> = self
            .remotes
            .iter()
            .filter(|(_, c)| c.reported)
            .map(|(r, _)| *r)
            .collect();
        for r in dead {
            let ctx = self.remotes.remove(&r).unwrap();
            self.gone.insert(r, ctx);
        }
    }

    fn read_frames(ctx: &mut RemoteCtx) -> Vec<String> {
        let mut frames = vec![];
        if let Some(reader) = ctx.reader.as_mut() {
            // the byte channel's co-operative budget may force a spurious `Pending`: give each read a fresh budget
            while let Some(Some(item)) = reader
                .next()
                .with_budget(NonZeroUsize::new(1 << 20).unwrap())
                .now_or_never()
            {
                match item {
                    Ok(msg) => frames.push(render_frame(msg.path.lane.as_str(), &msg.envelope)),
                    Err(_) => {
                        frames.push("decode-error".into());
                        break;
                    }
                }
            }
        }
        frames
    }

    /// `WriteTaskEvent::WriteDone` for remote `r`.
    fn done(&mut self, r: u64, ok: bool, sched: &mut Vec<u64>) -> Vec<String> {
        let in_live = self.remotes.get(&r).map(|c| c.inflight.is_some()).unwrap_or(false);
        let ctx = if in_live { self.remotes.get_mut(&r) } else { self.gone.get_mut(&r) };
        let ctx = match ctx {
            Some(c) => c,
            None => return vec![],
        };
        let write = match ctx.inflight.take() {
            Some(w) => w,
            None => return vec![],
        };
        if !ok {
            ctx.reader = None; // the peer goes away: the write fails
        }
        let (sender, buffer, result) = futures::executor::block_on(write.into_future());
        let frames = Self::read_frames(ctx);
        match result {
            Ok(()) => {
                assert!(ok, "write succeeded although the reader was dropped");
                if let Some(next) = self.sim.write_done(sender, buffer) {
                    self.put_write(r, next, sched);
                }
            }
            Err(_) => {
                self.sim.write_failed(sender);
            }
        }
        frames
    }

    fn spelling(&mut self, class: usize) -> &'static str {
        let c = KEY_CLASSES[class % KEY_CLASSES.len()];
        c[self.spell.below(c.len() as u64) as usize]
    }

    fn parse_resp(&mut self, s: &str) -> Option<UplinkResponse> {
        let p: Vec<&str> = s.split(':').collect();
        Some(match p.as_slice() {
            ["val", h] => UplinkResponse::Value(Bytes::from(unhex(h)?)),
            ["sup", h] => UplinkResponse::Supply(Bytes::from(unhex(h)?)),
            ["upd", k, h] => {
                let key = self.spelling(k.parse().ok()?);
                UplinkResponse::Map(MapOperation::Update {
                    key: BytesMut::from(key.as_bytes()),
                    value: BytesMut::from(&unhex(h)?[..]),
                })
            }
            ["rem", k] => {
                let key = self.spelling(k.parse().ok()?);
                UplinkResponse::Map(MapOperation::Remove { key: BytesMut::from(key.as_bytes()) })
            }
            ["clr"] => UplinkResponse::Map(MapOperation::Clear),
            ["synv"] => UplinkResponse::Synced(UplinkKind::Value),
            ["syns"] => UplinkResponse::Synced(UplinkKind::Supply),
            ["synm"] => UplinkResponse::Synced(UplinkKind::Map),
            _ => return None,
        })
    }

    fn drain(&mut self) -> String {
        let ids: Vec<u64> = self.remotes.keys().copied().collect();
        let mut parts = vec![];
        for r in ids {
            let mut frames = vec![];
            let mut guard = 0;
            while self.remotes.get(&r).map(|c| c.inflight.is_some()).unwrap_or(false) {
                let mut sched = vec![];
                frames.extend(self.done(r, true, &mut sched));
                guard += 1;
                assert!(guard < 100000, "drain does not terminate");
            }
            // canonical: sort runs of `unl:none` by lane
            let mut out: Vec<String> = vec![];
            let mut run: Vec<(u64, String)> = vec![];
            let flush = |run: &mut Vec<(u64, String)>, out: &mut Vec<String>| {
                run.sort();
                out.extend(run.drain(..).map(|p| p.1));
            };
            for f in frames {
                if f.ends_with(":unl:none") {
                    let lane = f.split(':').next().unwrap();
                    let key = if lane == "_" { 0 } else { lane.parse::<u64>().map(|n| n + 1).unwrap_or(u64::MAX) };
                    run.push((key, f));
                } else {
                    flush(&mut run, &mut out);
                    out.push(f);
                }
            }
            flush(&mut run, &mut out);
            if !out.is_empty() {
                parts.push(format!("r{}[{}]", r, out.join(",")));
            }
        }
        if parts.is_empty() {
            "d=-".into()
        } else {
            format!("d={}", parts.join(" "))
        }
    }

    fn exec(&mut self, op: &str) -> String {
        let p: Vec<&str> = op.split_whitespace().collect();
        let mut sched: Vec<u64> = vec![];
        let mut frames: Vec<String> = vec![];
        let mut snap: Option<String> = None;
        match p.as_slice() {
            ["lane", n, rep] => {
                let n: u64 = n.parse().unwrap();
                let reporter = if *rep != "0" { Some(UplinkReporter::default()) } else { None };
                let reader = reporter.as_ref().map(|r| (r.clone(), r.reader()));
                let id = self.sim.register_lane(lane_text(n), reporter);
                assert_eq!(id as usize, self.lane_names.len());
                self.lane_names.push(n);
                self.lane_readers.push(reader);
            }
            ["attach", r] => {
                let r: u64 = r.parse().unwrap();
                let (tx, rx) = byte_channel(NonZeroUsize::new(1 << 20).unwrap());
                let (ptx, prx) = promise::promise();
                let s = self.sim.attach_remote(rid(r), tx, ptx);
                if let Some(old) = self.remotes.insert(
                    r,
                    RemoteCtx {
                        reader: Some(FramedRead::new(rx, Default::default())),
                        inflight: None,
                        completion: prx,
                        reported: false,
                    },
                ) {
                    self.gone.insert(r + 1_000_000, old);
                }
                let _ = s;
            }
            ["link", r, n] => {
                let r: u64 = r.parse().unwrap();
                let s = self.sim.link(rid(r), lane_text(n.parse().unwrap()));
                self.scheduled(r, s, &mut sched);
            }
            ["unlink", r, n] => {
                let r: u64 = r.parse().unwrap();
                let s = self.sim.unlink(rid(r), lane_text(n.parse().unwrap()));
                self.scheduled(r, s, &mut sched);
            }
            ["unknown", r, n] => {
                let r: u64 = r.parse().unwrap();
                let s = self
                    .sim
                    .unknown_lane(rid(r), Text::new("/node"), lane_text(n.parse().unwrap()));
                self.scheduled(r, s, &mut sched);
            }
            ["ev", l, t, resp] => {
                let lane: u64 = l.parse().unwrap();
                let target = if *t == "*" { None } else { Some(rid(t.parse().unwrap())) };
                match self.parse_resp(resp) {
                    Some(resp) => {
                        let ws = self.sim.handle_event(lane, target, resp);
                        self.put_writes(ws, &mut sched);
                    }
                    None => return "bad-op".into(),
                }
            }
            ["done", r, ok] => {
                let r: u64 = r.parse().unwrap();
                frames = self.done(r, *ok == "ok", &mut sched);
            }
            ["fail", l] => {
                let res = self.sim.lane_failed(l.parse().unwrap());
                for (_, w) in res {
                    if let Some(w) = w {
                        let r = rnum(w.sender.remote_id());
                        self.put_write(r, w, &mut sched);
                    }
                }
            }
            ["prune", r] => {
                self.sim.prune_remote(rid(r.parse().unwrap()));
            }
            ["quiesce"] => return self.drain(),
            ["stop"] => {
                let ws = self.sim.unlink_all();
                self.put_writes(ws, &mut sched);
                return self.drain();
            }
            ["snap"] => {
                let mut parts = vec![];
                match self.agg.as_ref().and_then(|r| r.snapshot()) {
                    Some(s) => parts.push(format!("agg={}/{}", s.link_count, s.event_count)),
                    None => parts.push("agg=0/0".into()),
                }
                for (id, lr) in self.lane_readers.iter().enumerate() {
                    if let Some((_, reader)) = lr {
                        let s = reader.snapshot().expect("reporter clone kept alive");
                        parts.push(format!("l{}={}/{}", id, s.link_count, s.event_count));
                    }
                }
                snap = Some(parts.join(" "));
            }
            _ => return "bad-op".into(),
        }
        let closed = self.closed();
        self.sweep();
        sched.sort();
        let mut out = format!(
            "f={} s={} c={}",
            join(frames),
            join(sched.iter().map(|r| r.to_string()).collect()),
            join(closed)
        );
        if let Some(s) = snap {
            out.push_str(" snap ");
            out.push_str(&s);
        }
        out
    }
}

/// Bodies are unique within a case (a counter), so that the monitor can tell exactly which pushed body a
/// delivered one is; the empty body (a value lane holding `Extant`/`None` writes b"") is used at most once per lane.
fn body(rng: &mut Rng, counter: &mut u64, empty_used: &mut Vec<u64>, lane: u64) -> String {
    if rng.chance(1, 8) && !empty_used.contains(&lane) {
        empty_used.push(lane);
        "-".into()
    } else {
        *counter += 1;
        hex(&[(*counter >> 8) as u8, *counter as u8, rng.below(3) as u8])
    }
}

struct Gen {
    lanes: Vec<u64>,   // names by id
    remotes: Vec<u64>, // currently attached (per the generator's own book-keeping)
    next_remote: u64,
    inflight: HashMap<u64, bool>,
}

fn gen_case(rng: &mut Rng) -> Vec<String> {
    let agg = rng.chance(4, 5);
    let mut ops = vec![format!("new {}", agg as u8)];
    let mut g = Gen { lanes: vec![], remotes: vec![], next_remote: 1, inflight: HashMap::new() };
    let all_reps = rng.chance(3, 4);
    let nl = rng.range(1, 4);
    let mut names: Vec<u64> = (0..7).collect();
    for _ in 0..nl {
        let i = rng.below(names.len() as u64) as usize;
        let n = names.remove(i);
        let rep = agg && (all_reps || rng.chance(1, 2));
        ops.push(format!("lane {} {}", n, rep as u8));
        g.lanes.push(n);
    }
    let nr = rng.range(1, 3);
    for _ in 0..nr {
        ops.push(format!("attach {}", g.next_remote));
        g.remotes.push(g.next_remote);
        g.next_remote += 1;
    }
    let len = rng.range(3, 45);
    let busy = rng.below(3); // 0: remotes mostly keep up, 2: remotes mostly stalled
    let mut counter = 0u64;
    let mut failed: Vec<u64> = vec![];
    let mut empty_used: Vec<u64> = vec![];
    for _ in 0..len {
        let c = rng.below(100);
        let any_remote = |rng: &mut Rng, g: &Gen| -> u64 {
            if !g.remotes.is_empty() && rng.chance(19, 20) {
                *rng.pick(&g.remotes)
            } else {
                rng.range(1, g.next_remote) // possibly removed / never attached
            }
        };
        let done_w = [34u64, 22, 10][busy as usize];
        if c < 36 {
            let lid = rng.below(g.lanes.len() as u64);
            if failed.contains(&lid) {
                continue; // a failed lane produces nothing more
            }
            let name = g.lanes[lid as usize];
            let target = if rng.chance(1, 4) { any_remote(rng, &g).to_string() } else { "*".to_string() };
            let sync = target != "*" && rng.chance(1, 2);
            let resp = match name % 3 {
                0 => if sync { "synv".to_string() } else { format!("val:{}", body(rng, &mut counter, &mut empty_used, lid)) },
                1 => if sync { "syns".to_string() } else { format!("sup:{}", body(rng, &mut counter, &mut empty_used, lid)) },
                _ => if sync { "synm".to_string() } else {
                    match rng.below(10) {
                        0 => "clr".to_string(),
                        1 | 2 => format!("rem:{}", rng.below(4)),
                        _ => format!("upd:{}:{}", rng.below(4), body(rng, &mut counter, &mut empty_used, 1000 + lid)),
                    }
                },
            };
            ops.push(format!("ev {} {} {}", lid, target, resp));
        } else if c < 36 + done_w {
            let r = any_remote(rng, &g);
            let ok = rng.chance(29, 30);
            ops.push(format!("done {} {}", r, if ok { "ok" } else { "fail" }));
            if !ok {
                g.remotes.retain(|x| *x != r);
            }
        } else if c < 82 {
            let name = if rng.chance(9, 10) { *rng.pick(&g.lanes) } else { rng.below(8) };
            ops.push(format!("link {} {}", any_remote(rng, &g), name));
        } else if c < 87 {
            let name = if rng.chance(9, 10) { *rng.pick(&g.lanes) } else { rng.below(8) };
            ops.push(format!("unlink {} {}", any_remote(rng, &g), name));
        } else if c < 89 {
            ops.push(format!("unknown {} {}", any_remote(rng, &g), rng.range(7, 9)));
        } else if c < 91 {
            ops.push(format!("attach {}", g.next_remote));
            g.remotes.push(g.next_remote);
            g.next_remote += 1;
        } else if c < 92 {
            let l = rng.below(g.lanes.len() as u64);
            failed.push(l);
            ops.push(format!("fail {}", l));
        } else if c < 94 {
            ops.push(format!("prune {}", any_remote(rng, &g)));
        } else if c < 97 {
            ops.push("snap".into());
        } else if c < 99 {
            ops.push("quiesce".into());
        } else if g.lanes.len() < 6 {
            let used: Vec<u64> = g.lanes.clone();
            let free: Vec<u64> = (0..7).filter(|n| !used.contains(n)).collect();
            if let Some(n) = free.first() {
                ops.push(format!("lane {} {}", n, (agg && all_reps) as u8));
                g.lanes.push(*n);
            }
        }
    }
    let _ = &g.inflight;
    match rng.below(4) {
        0 => ops.push("stop".into()),
        1 | 2 => {
            ops.push("quiesce".into());
            ops.push("snap".into());
        }
        _ => {}
    }
    ops
}

fn run_case(t: &mut Trace, ops: &[String], seed: u64) {
    let mut sys: Option<Sys> = None;
    for op in ops {
        if let Some(a) = op.strip_prefix("new ") {
            sys = Some(Sys::new(a.trim() != "0", seed));
            t.op(op, "ok");
        } else if let Some(s) = sys.as_mut() {
            let op2 = op.clone();
            let res = std::panic::catch_unwind(std::panic::AssertUnwindSafe(|| s.exec(&op2)));
            match res {
                Ok(o) => t.op(op, o),
                Err(e) => {
                    let msg = e
                        .downcast_ref::<String>()
                        .cloned()
                        .or_else(|| e.downcast_ref::<&str>().map(|s| s.to_string()))
                        .unwrap_or_default();
                    t.op(op, format!("panic {}", msg.replace('\n', " ")));
                    return;
                }
            }
        } else {
            t.op(op, "bad-op");
        }
    }
}

fn main() {
    check_key_classes();
    std::panic::set_hook(Box::new(|_| {}));
    match parse_args() {
        Mode::Gen { seed, cases, out } => {
            let mut t = Trace::create(&out);
            let mut rng = Rng::new(seed);
            for c in 0..cases {
                let ops = gen_case(&mut rng);
                t.case(format!("{} seed={}", c, seed));
                run_case(&mut t, &ops, seed.wrapping_add(c));
            }
            t.finish();
        }
        Mode::Replay { ops, out } => {
            let mut t = Trace::create(&out);
            for (i, case) in ops.iter().enumerate() {
                t.case(i);
                run_case(&mut t, case, i as u64);
            }
            t.finish();
        }
    }
}
