//! C10 correspondence: the real `tokio_util::codec` encoders / decoders of swimos_agent_protocol::encoding,
//! swimos_messages::protocol and swimos_utilities::encoding, driven on message sequences under every single
//! split, random multi-splits (down to one byte per read) and byte-level mutations.
//!
//! Line protocol (see lean/SwimVerif/Model/FramesMon.lean):
//!   codec <name> ;; ok | enc <msg> ;; frame <hex> | reset ;; ok | feed <hex> ;; <status> [<msg> ...]
//!
//! CLI: `gen <seed> <sequences> <out> <raw|typed|typedbare> <valid|mutate|resync> [codec]`, `replay <ops> <out>`.
//! The decoders always run in a worker child process: some of them `reserve` what a length field announces and
//! the failed allocation aborts the process (reported as `abort`); allocations of 293 000 000 bytes or more always fail
//! (`Limited` allocator), so that this does not depend on the machine.
use std::io::Write;
use std::panic::{catch_unwind, AssertUnwindSafe};

use bytes::{BufMut, BytesMut};
use tokio_util::codec::{Decoder, Encoder};
use uuid::Uuid;

use svh::{hex, unhex, Rng};
use swimos_agent_protocol::encoding::{command as ecmd, downlink as edl, lane as elane, map as emap, store as estore};
use swimos_agent_protocol::{
    CommandMessage, DownlinkNotification, DownlinkOperation, LaneRequest, LaneResponse, MapMessage, MapOperation,
    StoreInitMessage, StoreInitialized, StoreResponse,
};
use swimos_api::address::{Address, RelativeAddress};
use swimos_form::read::RecognizerReadable;
use swimos_messages::protocol as proto;
use swimos_messages::protocol::{Notification, Operation, RequestMessage, ResponseMessage};
use swimos_recon::print_recon_compact;
use swimos_utilities::encoding::WithLengthBytesCodec;

// ------------------------------------------------------------------------------------------------ driver

/// what an encoder's destination buffer already holds when a case starts (a frame never starts at offset 0)
const OUT_PREFIX: [u8; 5] = [0xa5, 0x00, 0xff, 0x5a, 0x01];

trait Drv {
    fn enc(&mut self, msg: &str) -> Option<Vec<u8>>;
    fn reset(&mut self);
    fn feed(&mut self, chunk: &[u8]) -> String;
}

struct G<M, E, D: Decoder> {
    encoder: E,
    mk: fn() -> D,
    dec: D,
    buf: BytesMut,
    // the encoder's destination persists across messages (as in `FramedWrite`): a frame is APPENDED to a buffer that
    // already holds earlier frames, and must leave them untouched (seeded change C10-r5m1)
    out: BytesMut,
    dead: bool,
    parse: fn(&str) -> Option<M>,
    encode: fn(&mut E, M, &mut BytesMut) -> bool,
    render: fn(&D::Item) -> String,
}

impl<M, E, D: Decoder> Drv for G<M, E, D> {
    fn enc(&mut self, msg: &str) -> Option<Vec<u8>> {
        let m = (self.parse)(msg)?;
        if self.out.len() > (1 << 20) {
            self.out = BytesMut::from(&OUT_PREFIX[..]);
        }
        let before = self.out.to_vec();
        let enc = &mut self.encoder;
        let f = self.encode;
        let dst = &mut self.out;
        let ok = catch_unwind(AssertUnwindSafe(|| f(enc, m, dst))).unwrap_or(false);
        if ok && self.out.len() >= before.len() && self.out[..before.len()] == before[..] {
            Some(self.out[before.len()..].to_vec())
        } else {
            // failed, or the encoder modified bytes that were already in its destination buffer
            self.out = BytesMut::from(&OUT_PREFIX[..]);
            None
        }
    }
    fn reset(&mut self) {
        self.dec = (self.mk)();
        self.buf = BytesMut::new();
        self.out = BytesMut::from(&OUT_PREFIX[..]);
        self.dead = false;
    }
    fn feed(&mut self, chunk: &[u8]) -> String {
        if self.dead {
            return "dead".into();
        }
        self.buf.extend_from_slice(chunk);
        let mut items: Vec<String> = vec![];
        let mut status = "more";
        let mut n = 0u32;
        loop {
            n += 1;
            if n > 200_000 {
                status = "hang";
                self.dead = true;
                break;
            }
            let (dec, buf) = (&mut self.dec, &mut self.buf);
            match catch_unwind(AssertUnwindSafe(|| dec.decode(buf))) {
                Ok(Ok(Some(it))) => items.push((self.render)(&it)),
                Ok(Ok(None)) => break,
                Ok(Err(_)) => {
                    status = "err";
                    break;
                }
                Err(_) => {
                    status = "panic";
                    self.dead = true;
                    break;
                }
            }
        }
        let mut s = String::from(status);
        for it in items {
            s.push(' ');
            s.push_str(&it);
        }
        s
    }
}

fn mk<M: 'static, E: 'static, D: Decoder + 'static>(
    encoder: E,
    mkd: fn() -> D,
    parse: fn(&str) -> Option<M>,
    encode: fn(&mut E, M, &mut BytesMut) -> bool,
    render: fn(&D::Item) -> String,
) -> Box<dyn Drv> {
    Box::new(G { encoder, mk: mkd, dec: mkd(), buf: BytesMut::new(), out: BytesMut::from(&OUT_PREFIX[..]), dead: false, parse, encode, render })
}

// ------------------------------------------------------------------------------------------------ text

fn hx(b: impl AsRef<[u8]>) -> String {
    hex(b.as_ref())
}
fn opt_hx<B: AsRef<[u8]>>(b: &Option<B>) -> String {
    match b {
        Some(b) => hx(b),
        None => "~".into(),
    }
}
fn un_opt(s: &str) -> Option<Option<Vec<u8>>> {
    if s == "~" {
        Some(None)
    } else {
        unhex(s).map(Some)
    }
}
fn un_str(s: &str) -> Option<String> {
    String::from_utf8(unhex(s)?).ok()
}
fn un_opt_str(s: &str) -> Option<Option<String>> {
    if s == "~" {
        Some(None)
    } else {
        un_str(s).map(Some)
    }
}
fn uuid_hex(id: &Uuid) -> String {
    hex(&id.as_u128().to_be_bytes())
}
fn un_uuid(s: &str) -> Option<Uuid> {
    let b = unhex(s)?;
    let a: [u8; 16] = b.try_into().ok()?;
    Some(Uuid::from_u128(u128::from_be_bytes(a)))
}
fn unwrap_p<'a>(pre: &str, s: &'a str) -> Option<&'a str> {
    s.strip_prefix(pre)?.strip_prefix('(')?.strip_suffix(')')
}
fn bit(b: bool) -> &'static str {
    if b {
        "1"
    } else {
        "0"
    }
}
fn un_bit(s: &str) -> Option<bool> {
    match s {
        "1" => Some(true),
        "0" => Some(false),
        _ => None,
    }
}
/// hex of the decimal text of an integer (what Recon prints for it) and back
fn dec_hex(n: i64) -> String {
    hx(n.to_string())
}
fn un_dec(s: &str) -> Option<i64> {
    let t = un_str(s)?;
    let n: i64 = t.parse().ok()?;
    if n.to_string() == t {
        Some(n)
    } else {
        None
    }
}
fn recon<T: swimos_form::write::StructuralWritable>(v: &T) -> Vec<u8> {
    format!("{}", print_recon_compact(v)).into_bytes()
}

// bodies
type B = Vec<u8>;
fn p_b(s: &str) -> Option<B> {
    unhex(s.strip_prefix("b:")?)
}
fn r_b(b: impl AsRef<[u8]>) -> String {
    format!("b:{}", hx(b))
}
/// Typed (Recon) bodies: `Option<String>` / `Option<i64>`; `None` prints as the EMPTY Recon text (a zero-length body).
type TB = Option<String>;
type IB = Option<i64>;
fn un_dec_opt(s: &str) -> Option<IB> {
    if s == "-" {
        Some(None)
    } else {
        un_dec(s).map(Some)
    }
}
fn some_dec_opt(s: &str) -> Option<Option<IB>> {
    un_dec_opt(s).map(Some)
}
fn some_optstr(s: &str) -> Option<Option<TB>> {
    un_opt_str(s).map(Some)
}
fn r_opt_string(s: &TB) -> String {
    match s {
        Some(s) => hx(s),
        None => "~".into(),
    }
}
fn p_tb(s: &str) -> Option<TB> {
    un_opt_str(s.strip_prefix("s:")?)
}
fn r_tb(s: &TB) -> String {
    format!("s:{}", r_opt_string(s))
}
fn g_tb(r: &mut Rng) -> TB {
    if r.chance(1, 5) {
        None
    } else {
        Some(g_string(r))
    }
}
fn g_ib(r: &mut Rng) -> String {
    if r.chance(1, 5) {
        "-".into()
    } else {
        dec_hex(g_int(r))
    }
}
#[allow(dead_code)]
fn p_s(s: &str) -> Option<String> {
    un_str(s.strip_prefix("s:")?)
}
#[allow(dead_code)]
fn r_s(s: &str) -> String {
    format!("s:{}", hx(s))
}

fn p_mapop<K, V>(s: &str, pk: fn(&str) -> Option<K>, pv: fn(&str) -> Option<V>) -> Option<MapOperation<K, V>> {
    let f: Vec<&str> = s.split(':').collect();
    match f.as_slice() {
        ["upd", k, v] => Some(MapOperation::Update { key: pk(k)?, value: pv(v)? }),
        ["rem", k] => Some(MapOperation::Remove { key: pk(k)? }),
        ["clr"] => Some(MapOperation::Clear),
        _ => None,
    }
}
fn r_mapop<K, V>(m: &MapOperation<K, V>, rk: fn(&K) -> String, rv: fn(&V) -> String) -> String {
    match m {
        MapOperation::Update { key, value } => format!("upd:{}:{}", rk(key), rv(value)),
        MapOperation::Remove { key } => format!("rem:{}", rk(key)),
        MapOperation::Clear => "clr".into(),
    }
}
fn p_mapmsg<K, V>(s: &str, pk: fn(&str) -> Option<K>, pv: fn(&str) -> Option<V>) -> Option<MapMessage<K, V>> {
    let f: Vec<&str> = s.split(':').collect();
    match f.as_slice() {
        ["take", n] => Some(MapMessage::Take(n.parse().ok()?)),
        ["drop", n] => Some(MapMessage::Drop(n.parse().ok()?)),
        _ => p_mapop(s, pk, pv).map(Into::into),
    }
}
fn r_mapmsg<K, V>(m: &MapMessage<K, V>, rk: fn(&K) -> String, rv: fn(&V) -> String) -> String {
    match m {
        MapMessage::Update { key, value } => format!("upd:{}:{}", rk(key), rv(value)),
        MapMessage::Remove { key } => format!("rem:{}", rk(key)),
        MapMessage::Clear => "clr".into(),
        MapMessage::Take(n) => format!("take:{}", n),
        MapMessage::Drop(n) => format!("drop:{}", n),
    }
}
fn un_hex_v(s: &str) -> Option<B> {
    unhex(s)
}
fn hx_v(b: &B) -> String {
    hx(b)
}
fn hx_bm(b: &BytesMut) -> String {
    hx(b)
}
fn r_string(s: &String) -> String {
    hx(s)
}
fn un_i32_dec(s: &str) -> Option<i32> {
    un_dec(s).and_then(|n| i32::try_from(n).ok())
}

fn p_lanereq<T>(s: &str, p: impl Fn(&str) -> Option<T>) -> Option<LaneRequest<T>> {
    if s == "initdone" {
        Some(LaneRequest::InitComplete)
    } else if let Some(i) = unwrap_p("cmd", s) {
        Some(LaneRequest::Command(p(i)?))
    } else {
        Some(LaneRequest::Sync(un_uuid(s.strip_prefix("sync:")?)?))
    }
}
fn r_lanereq<T>(m: &LaneRequest<T>, r: impl Fn(&T) -> String) -> String {
    match m {
        LaneRequest::Command(b) => format!("cmd({})", r(b)),
        LaneRequest::InitComplete => "initdone".into(),
        LaneRequest::Sync(id) => format!("sync:{}", uuid_hex(id)),
    }
}
fn p_laneresp<T>(s: &str, p: impl Fn(&str) -> Option<T>) -> Option<LaneResponse<T>> {
    if s == "inited" {
        Some(LaneResponse::Initialized)
    } else if let Some(i) = unwrap_p("ev", s) {
        Some(LaneResponse::StandardEvent(p(i)?))
    } else if let Some(rest) = s.strip_prefix("sev:") {
        let (id, inner) = rest.split_once('(')?;
        Some(LaneResponse::SyncEvent(un_uuid(id)?, p(inner.strip_suffix(')')?)?))
    } else {
        Some(LaneResponse::Synced(un_uuid(s.strip_prefix("synced:")?)?))
    }
}
fn r_laneresp<T>(m: &LaneResponse<T>, r: impl Fn(&T) -> String) -> String {
    match m {
        LaneResponse::StandardEvent(b) => format!("ev({})", r(b)),
        LaneResponse::Initialized => "inited".into(),
        LaneResponse::SyncEvent(id, b) => format!("sev:{}({})", uuid_hex(id), r(b)),
        LaneResponse::Synced(id) => format!("synced:{}", uuid_hex(id)),
    }
}
fn p_storeinit<T>(s: &str, p: impl Fn(&str) -> Option<T>) -> Option<StoreInitMessage<T>> {
    if s == "initdone" {
        Some(StoreInitMessage::InitComplete)
    } else {
        Some(StoreInitMessage::Command(p(unwrap_p("cmd", s)?)?))
    }
}
fn r_storeinit<T>(m: &StoreInitMessage<T>, r: impl Fn(&T) -> String) -> String {
    match m {
        StoreInitMessage::Command(b) => format!("cmd({})", r(b)),
        StoreInitMessage::InitComplete => "initdone".into(),
    }
}

fn raw_mapop(s: &str) -> Option<MapOperation<B, B>> {
    p_mapop(s, un_hex_v, un_hex_v)
}
fn raw_mapmsg(s: &str) -> Option<MapMessage<B, B>> {
    p_mapmsg(s, un_hex_v, un_hex_v)
}
fn rr_mapop(m: &MapOperation<BytesMut, BytesMut>) -> String {
    r_mapop(m, hx_bm, hx_bm)
}
fn rr_mapmsg(m: &MapMessage<BytesMut, BytesMut>) -> String {
    r_mapmsg(m, hx_bm, hx_bm)
}
fn typed_mapop(s: &str) -> Option<MapOperation<String, TB>> {
    p_mapop(s, un_str, un_opt_str)
}
fn typed_mapmsg(s: &str) -> Option<MapMessage<String, TB>> {
    p_mapmsg(s, un_str, un_opt_str)
}
fn rt_mapop(m: &MapOperation<String, TB>) -> String {
    r_mapop(m, r_string, r_opt_string)
}
fn rt_mapmsg(m: &MapMessage<String, TB>) -> String {
    r_mapmsg(m, r_string, r_opt_string)
}
/// typed map message -> the raw one whose key / value are the Recon texts
fn recon_mapmsg(m: MapMessage<String, TB>) -> MapMessage<B, B> {
    match m {
        MapMessage::Update { key, value } => MapMessage::Update { key: recon(&key), value: recon(&value) },
        MapMessage::Remove { key } => MapMessage::Remove { key: recon(&key) },
        MapMessage::Clear => MapMessage::Clear,
        MapMessage::Take(n) => MapMessage::Take(n),
        MapMessage::Drop(n) => MapMessage::Drop(n),
    }
}

// routed messages
struct Rm<T> {
    origin: Uuid,
    node: String,
    lane: String,
    kind: String,
    body: Option<T>,
}
fn p_routed<T>(s: &str, pb: fn(&str) -> Option<Option<T>>) -> Option<Rm<T>> {
    let f: Vec<&str> = s.split(':').collect();
    if f.len() < 4 || f.len() > 5 {
        return None;
    }
    let body = if f.len() == 5 { pb(f[4])? } else { None };
    Some(Rm { origin: un_uuid(f[1])?, node: un_str(f[2])?, lane: un_str(f[3])?, kind: f[0].to_string(), body })
}
fn some_hex(s: &str) -> Option<Option<B>> {
    unhex(s).map(Some)
}
fn some_dec(s: &str) -> Option<Option<i64>> {
    un_dec(s).map(Some)
}
fn some_str(s: &str) -> Option<Option<String>> {
    un_str(s).map(Some)
}
fn p_req<T>(s: &str, pb: fn(&str) -> Option<Option<T>>) -> Option<RequestMessage<String, T>> {
    let Rm { origin, node, lane, kind, body } = p_routed(s, pb)?;
    let path = RelativeAddress::new(node, lane);
    match (kind.as_str(), body) {
        ("link", None) => Some(RequestMessage::link(origin, path)),
        ("sync", None) => Some(RequestMessage::sync(origin, path)),
        ("unlink", None) => Some(RequestMessage::unlink(origin, path)),
        ("cmd", Some(b)) => Some(RequestMessage::command(origin, path, b)),
        _ => None,
    }
}
fn r_req<P: AsRef<str>, T>(m: &RequestMessage<P, T>, rb: impl Fn(&T) -> String) -> String {
    let a = format!("{}:{}:{}", uuid_hex(&m.origin), hx(m.path.node.as_ref()), hx(m.path.lane.as_ref()));
    match &m.envelope {
        Operation::Link => format!("link:{}", a),
        Operation::Sync => format!("sync:{}", a),
        Operation::Unlink => format!("unlink:{}", a),
        Operation::Command(b) => format!("cmd:{}:{}", a, rb(b)),
    }
}
fn p_resp<T>(s: &str, pb: fn(&str) -> Option<Option<T>>) -> Option<ResponseMessage<String, T, B>> {
    let f: Vec<&str> = s.split(':').collect();
    if f.len() < 4 || f.len() > 5 {
        return None;
    }
    let origin = un_uuid(f[1])?;
    let path = RelativeAddress::new(un_str(f[2])?, un_str(f[3])?);
    match (f[0], f.len()) {
        ("linked", 4) => Some(ResponseMessage::linked(origin, path)),
        ("synced", 4) => Some(ResponseMessage::synced(origin, path)),
        ("unlinked", 5) => Some(ResponseMessage::unlinked(origin, path, un_opt(f[4])?)),
        ("event", 5) => Some(ResponseMessage::event(origin, path, pb(f[4])??)),
        _ => None,
    }
}
fn r_resp<P: AsRef<str>, T, U: AsRef<[u8]>>(m: &ResponseMessage<P, T, U>, rb: impl Fn(&T) -> String) -> String {
    let a = format!("{}:{}:{}", uuid_hex(&m.origin), hx(m.path.node.as_ref()), hx(m.path.lane.as_ref()));
    match &m.envelope {
        Notification::Linked => format!("linked:{}", a),
        Notification::Synced => format!("synced:{}", a),
        Notification::Unlinked(b) => format!("unlinked:{}:{}", a, opt_hx(b)),
        Notification::Event(b) => format!("event:{}:{}", a, rb(b)),
    }
}

fn p_cmd<T>(s: &str, pb: fn(&str) -> Option<T>) -> Option<CommandMessage<String, T>> {
    let f: Vec<&str> = s.split(':').collect();
    match f.as_slice() {
        ["reg", h, n, l, id] => Some(CommandMessage::Register {
            address: Address::new(un_opt_str(h)?, un_str(n)?, un_str(l)?),
            id: id.parse().ok()?,
        }),
        ["adr", h, n, l, ow, b] => Some(CommandMessage::Addressed {
            target: Address::new(un_opt_str(h)?, un_str(n)?, un_str(l)?),
            command: pb(b)?,
            overwrite_permitted: un_bit(ow)?,
        }),
        ["rgd", t, ow, b] => {
            Some(CommandMessage::Registered { target: t.parse().ok()?, command: pb(b)?, overwrite_permitted: un_bit(ow)? })
        }
        _ => None,
    }
}
fn r_cmd<S: AsRef<str>, T>(m: &CommandMessage<S, T>, rb: impl Fn(&T) -> String) -> String {
    match m {
        CommandMessage::Register { address, id } => format!(
            "reg:{}:{}:{}:{}",
            opt_hx(&address.host.as_ref().map(|h| h.as_ref().as_bytes().to_vec())),
            hx(address.node.as_ref()),
            hx(address.lane.as_ref()),
            id
        ),
        CommandMessage::Addressed { target, command, overwrite_permitted } => format!(
            "adr:{}:{}:{}:{}:{}",
            opt_hx(&target.host.as_ref().map(|h| h.as_ref().as_bytes().to_vec())),
            hx(target.node.as_ref()),
            hx(target.lane.as_ref()),
            bit(*overwrite_permitted),
            rb(command)
        ),
        CommandMessage::Registered { target, command, overwrite_permitted } => {
            format!("rgd:{}:{}:{}", target, bit(*overwrite_permitted), rb(command))
        }
    }
}

fn p_dlnot<T>(s: &str, p: impl Fn(&str) -> Option<T>) -> Option<DownlinkNotification<T>> {
    match s {
        "linked" => Some(DownlinkNotification::Linked),
        "synced" => Some(DownlinkNotification::Synced),
        "unlinked" => Some(DownlinkNotification::Unlinked),
        _ => Some(DownlinkNotification::Event { body: p(unwrap_p("event", s)?)? }),
    }
}
fn r_dlnot<T>(m: &DownlinkNotification<T>, r: impl Fn(&T) -> String) -> String {
    match m {
        DownlinkNotification::Linked => "linked".into(),
        DownlinkNotification::Synced => "synced".into(),
        DownlinkNotification::Unlinked => "unlinked".into(),
        DownlinkNotification::Event { body } => format!("event({})", r(body)),
    }
}

// ------------------------------------------------------------------------------------------------ codec table

struct CodecInfo {
    name: &'static str,
    typed: bool,
    mk: fn() -> Box<dyn Drv>,
    gen: fn(&mut Rng) -> String,
}

macro_rules! ok {
    ($e:expr) => {
        $e.is_ok()
    };
}

fn codecs() -> Vec<CodecInfo> {
    vec![
        CodecInfo {
            name: "wlb",
            typed: false,
            mk: || {
                mk::<B, _, _>(
                    WithLengthBytesCodec,
                    || WithLengthBytesCodec,
                    p_b,
                    |e, m, d| ok!(e.encode(m, d)),
                    |i: &BytesMut| r_b(i),
                )
            },
            gen: |r| r_b(g_bytes(r)),
        },
        CodecInfo {
            name: "mapop",
            typed: false,
            mk: || {
                mk::<MapOperation<B, B>, _, _>(
                    emap::RawMapOperationEncoder,
                    || emap::RawMapOperationDecoder,
                    raw_mapop,
                    |e, m, d| ok!(e.encode(m, d)),
                    rr_mapop,
                )
            },
            gen: |r| g_mapop(r, false),
        },
        CodecInfo {
            name: "mapmsg",
            typed: false,
            mk: || {
                mk::<MapMessage<B, B>, _, _>(
                    emap::RawMapMessageEncoder::default(),
                    emap::RawMapMessageDecoder::default,
                    raw_mapmsg,
                    |e, m, d| ok!(e.encode(m, d)),
                    rr_mapmsg,
                )
            },
            gen: |r| g_mapmsg(r, false),
        },
        CodecInfo {
            name: "lanereq-v",
            typed: false,
            mk: || {
                mk::<LaneRequest<B>, _, _>(
                    elane::RawValueLaneRequestEncoder::default(),
                    elane::RawValueLaneRequestDecoder::default,
                    |s| p_lanereq(s, p_b),
                    |e, m, d| ok!(e.encode(m, d)),
                    |i: &LaneRequest<BytesMut>| r_lanereq(i, |b| r_b(b)),
                )
            },
            gen: |r| g_lanereq(r, |r| r_b(g_bytes(r))),
        },
        CodecInfo {
            name: "lanereq-m",
            typed: false,
            mk: || {
                mk::<LaneRequest<MapMessage<B, B>>, _, _>(
                    elane::RawMapLaneRequestEncoder::default(),
                    elane::RawMapLaneRequestDecoder::default,
                    |s| p_lanereq(s, raw_mapmsg),
                    |e, m, d| ok!(e.encode(m, d)),
                    |i: &LaneRequest<MapMessage<BytesMut, BytesMut>>| r_lanereq(i, rr_mapmsg),
                )
            },
            gen: |r| g_lanereq(r, |r| g_mapmsg(r, false)),
        },
        CodecInfo {
            name: "laneresp-v",
            typed: false,
            mk: || {
                mk::<LaneResponse<B>, _, _>(
                    elane::RawValueLaneResponseEncoder::default(),
                    elane::RawValueLaneResponseDecoder::default,
                    |s| p_laneresp(s, p_b),
                    |e, m, d| ok!(e.encode(m, d)),
                    |i: &LaneResponse<BytesMut>| r_laneresp(i, |b| r_b(b)),
                )
            },
            gen: |r| g_laneresp(r, |r| r_b(g_bytes(r))),
        },
        CodecInfo {
            name: "laneresp-m",
            typed: false,
            mk: || {
                mk::<LaneResponse<MapOperation<B, B>>, _, _>(
                    elane::RawMapLaneResponseEncoder::default(),
                    elane::RawMapLaneResponseDecoder::default,
                    |s| p_laneresp(s, raw_mapop),
                    |e, m, d| ok!(e.encode(m, d)),
                    |i: &LaneResponse<MapOperation<BytesMut, BytesMut>>| r_laneresp(i, rr_mapop),
                )
            },
            gen: |r| g_laneresp(r, |r| g_mapop(r, false)),
        },
        CodecInfo {
            name: "storeinit-v",
            typed: false,
            mk: || {
                mk::<StoreInitMessage<B>, _, _>(
                    estore::RawValueStoreInitEncoder::default(),
                    estore::RawValueStoreInitDecoder::default,
                    |s| p_storeinit(s, p_b),
                    |e, m, d| ok!(e.encode(m, d)),
                    |i: &StoreInitMessage<BytesMut>| r_storeinit(i, |b| r_b(b)),
                )
            },
            gen: |r| g_storeinit(r, |r| r_b(g_bytes(r))),
        },
        CodecInfo {
            name: "storeinit-m",
            typed: false,
            mk: || {
                mk::<StoreInitMessage<MapMessage<B, B>>, _, _>(
                    estore::RawMapStoreInitEncoder::default(),
                    estore::RawMapStoreInitDecoder::default,
                    |s| p_storeinit(s, raw_mapmsg),
                    |e, m, d| ok!(e.encode(m, d)),
                    |i: &StoreInitMessage<MapMessage<BytesMut, BytesMut>>| r_storeinit(i, rr_mapmsg),
                )
            },
            gen: |r| g_storeinit(r, |r| g_mapmsg(r, false)),
        },
        CodecInfo {
            name: "storeinitd",
            typed: false,
            mk: || {
                mk::<StoreInitialized, _, _>(
                    estore::StoreInitializedCodec,
                    || estore::StoreInitializedCodec,
                    |s| if s == "inited" { Some(StoreInitialized) } else { None },
                    |e, m, d| ok!(e.encode(m, d)),
                    |_i: &StoreInitialized| "inited".into(),
                )
            },
            gen: |_r| "inited".into(),
        },
        // the store response encoders are typed (Recon bodies): integers, whose Recon text is their decimal text
        CodecInfo {
            name: "storeresp-v",
            typed: false,
            mk: || {
                mk::<StoreResponse<IB>, _, _>(
                    estore::ValueStoreResponseEncoder::default(),
                    estore::RawValueStoreResponseDecoder::default,
                    |s| Some(StoreResponse::new(un_dec_opt(unwrap_p("ev", s)?.strip_prefix("b:")?)?)),
                    |e, m, d| ok!(e.encode(m, d)),
                    |i: &StoreResponse<BytesMut>| format!("ev({})", r_b(&i.message)),
                )
            },
            gen: |r| format!("ev(b:{})", g_ib(r)),
        },
        CodecInfo {
            name: "storeresp-m",
            typed: false,
            mk: || {
                mk::<StoreResponse<MapOperation<i32, IB>>, _, _>(
                    estore::MapStoreResponseEncoder::default(),
                    estore::RawMapStoreResponseDecoder::default,
                    |s| Some(StoreResponse::new(p_mapop(unwrap_p("ev", s)?, un_i32_dec, un_dec_opt)?)),
                    |e, m, d| ok!(e.encode(m, d)),
                    |i: &StoreResponse<MapOperation<BytesMut, BytesMut>>| format!("ev({})", rr_mapop(&i.message)),
                )
            },
            gen: |r| format!("ev({})", g_mapop(r, true)),
        },
        CodecInfo {
            name: "dlop",
            typed: false,
            mk: || {
                mk::<DownlinkOperation<IB>, _, _>(
                    edl::DownlinkOperationEncoder::default(),
                    edl::DownlinkOperationDecoder::default,
                    |s| Some(DownlinkOperation { body: un_dec_opt(s.strip_prefix("b:")?)? }),
                    |e, m, d| ok!(e.encode(m, d)),
                    |i: &DownlinkOperation<bytes::Bytes>| r_b(&i.body),
                )
            },
            gen: |r| format!("b:{}", g_ib(r)),
        },
        CodecInfo {
            name: "rawreq",
            typed: false,
            mk: || {
                mk::<RequestMessage<String, B>, _, _>(
                    proto::RawRequestMessageEncoder,
                    proto::RawRequestMessageDecoder::default,
                    |s| p_req(s, some_hex),
                    |e, m, d| ok!(e.encode(m, d)),
                    |i: &proto::BytesRequestMessage| r_req(i, |b| hx(b)),
                )
            },
            gen: |r| g_req(r, |r| hx(g_bytes(r))),
        },
        CodecInfo {
            name: "rawresp",
            typed: false,
            mk: || {
                mk::<ResponseMessage<String, B, B>, _, _>(
                    proto::RawResponseMessageEncoder,
                    proto::RawResponseMessageDecoder::default,
                    |s| p_resp(s, some_hex),
                    |e, m, d| ok!(e.encode(m, d)),
                    |i: &proto::BytesResponseMessage| r_resp(i, |b| hx(b)),
                )
            },
            gen: |r| g_resp(r, |r| hx(g_bytes(r))),
        },
        CodecInfo {
            name: "rawcmd",
            typed: false,
            mk: || {
                mk::<CommandMessage<String, B>, _, _>(
                    ecmd::RawCommandMessageEncoder::default(),
                    ecmd::RawCommandMessageDecoder::<String>::default,
                    |s| p_cmd(s, un_hex_v),
                    |e, m, d| ok!(e.encode(m, d)),
                    |i: &CommandMessage<String, BytesMut>| r_cmd(i, hx_bm),
                )
            },
            gen: |r| g_cmd(r, |r| hx(g_bytes(r))),
        },
        // ---------------------------------------------------------------- typed (Recon bodies): impl against impl
        CodecInfo {
            name: "lanereq-tv",
            typed: true,
            mk: || {
                mk::<LaneRequest<TB>, _, _>(
                    elane::ValueLaneRequestEncoder::default(),
                    elane::ValueLaneRequestDecoder::<TB>::default,
                    |s| p_lanereq(s, p_tb),
                    |e, m, d| ok!(e.encode(m, d)),
                    |i: &LaneRequest<TB>| r_lanereq(i, |b| r_tb(b)),
                )
            },
            gen: |r| g_lanereq(r, |r| r_tb(&g_tb(r))),
        },
        CodecInfo {
            name: "lanereq-tm",
            typed: true,
            mk: || {
                mk::<LaneRequest<MapMessage<String, TB>>, _, _>(
                    elane::MapLaneRequestEncoder::default(),
                    elane::MapLaneRequestDecoder::<String, TB>::default,
                    |s| p_lanereq(s, typed_mapmsg),
                    |e, m, d| ok!(e.encode(m, d)),
                    |i: &LaneRequest<MapMessage<String, TB>>| r_lanereq(i, rt_mapmsg),
                )
            },
            gen: |r| g_lanereq(r, g_typed_mapmsg),
        },
        CodecInfo {
            name: "laneresp-tv",
            typed: true,
            mk: || {
                mk::<LaneResponse<TB>, _, _>(
                    elane::ValueLaneResponseEncoder::default(),
                    elane::ValueLaneResponseDecoder::<TB>::default,
                    |s| p_laneresp(s, p_tb),
                    |e, m, d| ok!(e.encode(m, d)),
                    |i: &LaneResponse<TB>| r_laneresp(i, |b| r_tb(b)),
                )
            },
            gen: |r| g_laneresp(r, |r| r_tb(&g_tb(r))),
        },
        CodecInfo {
            name: "laneresp-tm",
            typed: true,
            mk: || {
                mk::<LaneResponse<MapOperation<String, TB>>, _, _>(
                    elane::MapLaneResponseEncoder::default(),
                    elane::MapLaneResponseDecoder::<String, TB>::default,
                    |s| p_laneresp(s, typed_mapop),
                    |e, m, d| ok!(e.encode(m, d)),
                    |i: &LaneResponse<MapOperation<String, TB>>| r_laneresp(i, rt_mapop),
                )
            },
            gen: |r| g_laneresp(r, g_typed_mapop),
        },
        CodecInfo {
            name: "storeinit-tv",
            typed: true,
            mk: || {
                mk::<StoreInitMessage<TB>, _, _>(
                    estore::RawValueStoreInitEncoder::default(),
                    estore::ValueStoreInitDecoder::<TB>::default,
                    |s| p_storeinit(s, p_tb),
                    |e, m, d| {
                        let raw = match m {
                            StoreInitMessage::Command(s) => StoreInitMessage::Command(recon(&s)),
                            StoreInitMessage::InitComplete => StoreInitMessage::InitComplete,
                        };
                        ok!(e.encode(raw, d))
                    },
                    |i: &StoreInitMessage<TB>| r_storeinit(i, |b| r_tb(b)),
                )
            },
            gen: |r| g_storeinit(r, |r| r_tb(&g_tb(r))),
        },
        CodecInfo {
            name: "storeinit-tm",
            typed: true,
            mk: || {
                mk::<StoreInitMessage<MapMessage<String, TB>>, _, _>(
                    estore::RawMapStoreInitEncoder::default(),
                    estore::MapStoreInitDecoder::<String, TB>::default,
                    |s| p_storeinit(s, typed_mapmsg),
                    |e, m, d| {
                        let raw = match m {
                            StoreInitMessage::Command(m) => StoreInitMessage::Command(recon_mapmsg(m)),
                            StoreInitMessage::InitComplete => StoreInitMessage::InitComplete,
                        };
                        ok!(e.encode(raw, d))
                    },
                    |i: &StoreInitMessage<MapMessage<String, TB>>| r_storeinit(i, rt_mapmsg),
                )
            },
            gen: |r| g_storeinit(r, g_typed_mapmsg),
        },
        CodecInfo {
            name: "dlnot-v",
            typed: true,
            mk: || {
                mk::<DownlinkNotification<TB>, _, _>(
                    edl::DownlinkNotificationEncoder,
                    edl::ValueNotificationDecoder::<TB>::default,
                    |s| p_dlnot(s, p_tb),
                    |e, m, d| {
                        let raw: DownlinkNotification<B> = match m {
                            DownlinkNotification::Event { body } => DownlinkNotification::Event { body: recon(&body) },
                            DownlinkNotification::Linked => DownlinkNotification::Linked,
                            DownlinkNotification::Synced => DownlinkNotification::Synced,
                            DownlinkNotification::Unlinked => DownlinkNotification::Unlinked,
                        };
                        ok!(e.encode(raw, d))
                    },
                    |i: &DownlinkNotification<TB>| r_dlnot(i, |b| r_tb(b)),
                )
            },
            gen: |r| g_dlnot(r, |r| r_tb(&g_tb(r))),
        },
        CodecInfo {
            name: "dlnot-m",
            typed: true,
            mk: || {
                mk::<DownlinkNotification<MapMessage<String, TB>>, _, _>(
                    edl::DownlinkNotificationEncoder,
                    edl::MapNotificationDecoder::<String, TB>::default,
                    |s| p_dlnot(s, typed_mapmsg),
                    |e, m, d| {
                        let raw: DownlinkNotification<B> = match m {
                            DownlinkNotification::Event { body } => {
                                let mut inner = BytesMut::new();
                                if emap::RawMapMessageEncoder::default().encode(recon_mapmsg(body), &mut inner).is_err() {
                                    return false;
                                }
                                DownlinkNotification::Event { body: inner.to_vec() }
                            }
                            DownlinkNotification::Linked => DownlinkNotification::Linked,
                            DownlinkNotification::Synced => DownlinkNotification::Synced,
                            DownlinkNotification::Unlinked => DownlinkNotification::Unlinked,
                        };
                        ok!(e.encode(raw, d))
                    },
                    |i: &DownlinkNotification<MapMessage<String, TB>>| r_dlnot(i, rt_mapmsg),
                )
            },
            gen: |r| g_dlnot(r, g_typed_mapmsg),
        },
        CodecInfo {
            name: "reqmsg",
            typed: true,
            mk: || {
                mk::<RequestMessage<String, TB>, _, _>(
                    proto::RawRequestMessageEncoder,
                    || proto::RequestMessageDecoder::new(TB::make_recognizer()),
                    |s| p_req(s, some_optstr),
                    |e, m, d| {
                        let RequestMessage { origin, path, envelope } = m;
                        let raw: RequestMessage<String, B> = RequestMessage {
                            origin,
                            path,
                            envelope: match envelope {
                                Operation::Link => Operation::Link,
                                Operation::Sync => Operation::Sync,
                                Operation::Unlink => Operation::Unlink,
                                Operation::Command(s) => Operation::Command(recon(&s)),
                            },
                        };
                        ok!(e.encode(raw, d))
                    },
                    |i: &RequestMessage<swimos_model::Text, TB>| r_req(i, r_opt_string),
                )
            },
            gen: |r| g_req(r, |r| r_opt_string(&g_tb(r))),
        },
        CodecInfo {
            name: "respmsg",
            typed: true,
            mk: || {
                mk::<ResponseMessage<String, IB, B>, _, _>(
                    proto::ResponseMessageEncoder,
                    proto::RawResponseMessageDecoder::default,
                    |s| p_resp(s, some_dec_opt),
                    |e, m, d| ok!(e.encode(m, d)),
                    |i: &proto::BytesResponseMessage| r_resp(i, |b| hx(b)),
                )
            },
            gen: |r| g_resp(r, g_ib),
        },
        CodecInfo {
            name: "cmdmsg",
            typed: true,
            mk: || {
                mk::<CommandMessage<String, TB>, _, _>(
                    ecmd::CommandMessageEncoder::default(),
                    ecmd::CommandMessageDecoder::<String, TB>::default,
                    |s| p_cmd(s, un_opt_str),
                    |e, m, d| ok!(e.encode(m, d)),
                    |i: &CommandMessage<String, TB>| r_cmd(i, r_opt_string),
                )
            },
            gen: |r| g_cmd(r, |r| r_opt_string(&g_tb(r))),
        },
    ]
}

// ------------------------------------------------------------------------------------------------ generators

fn g_bytes(r: &mut Rng) -> B {
    let n = match r.below(60) {
        0..=5 => 0,
        6 => r.range(250, 262),
        7..=9 => r.range(13, 40),
        _ => r.range(1, 12),
    };
    (0..n).map(|_| if r.chance(1, 4) { *r.pick(&[0u8, 1, 2, 3, 4, 5, 0xff, 0x80]) } else { r.below(256) as u8 }).collect()
}
/// Recon bodies of the typed codecs. Default: strings that Recon prints quoted (they contain a blank, or are
/// empty). With `BARE` set: identifier-like strings, which Recon prints as bare tokens.
static BARE: std::sync::atomic::AtomicBool = std::sync::atomic::AtomicBool::new(false);
fn g_string(r: &mut Rng) -> String {
    let n = match r.below(12) {
        0 => 0,
        1 => r.range(20, 60),
        _ => r.range(1, 8),
    };
    if BARE.load(std::sync::atomic::Ordering::Relaxed) {
        let alphabet = ["a", "b", "Z", "_", "é", "日", "😀", "x7", "-", "q"];
        let s: String = (0..n.max(1)).map(|_| *r.pick(&alphabet)).collect();
        return format!("k{}", s);
    }
    let alphabet = ["a", "b", "Z", "0", "7", " ", "\"", "\\", "@", "{", "}", ":", ",", "é", "日", "😀", "\n", "_", "-", "true"];
    let s: String = (0..n).map(|_| *r.pick(&alphabet)).collect();
    if s.is_empty() {
        s
    } else {
        format!(" {}", s)
    }
}
fn g_name(r: &mut Rng) -> String {
    let n = match r.below(10) {
        0 => 0,
        1 => r.range(10, 30),
        _ => r.range(1, 6),
    };
    let alphabet = ["a", "n", "/", "l", "x", "9", "é", "日", "😀", "_"];
    (0..n).map(|_| *r.pick(&alphabet)).collect()
}
fn g_int(r: &mut Rng) -> i64 {
    match r.below(6) {
        0 => 0,
        1 => -(r.below(1000) as i64),
        2 => r.next() as i64,
        _ => r.below(100000) as i64,
    }
}
fn g_uuid(r: &mut Rng) -> String {
    let v: u128 = if r.chance(1, 4) { r.below(4) as u128 } else { ((r.next() as u128) << 64) | r.next() as u128 };
    hex(&v.to_be_bytes())
}
fn g_mapop(r: &mut Rng, dec: bool) -> String {
    let k = |r: &mut Rng| if dec { dec_hex(r.below(2000) as i64 - 1000) } else { hx(g_bytes(r)) };
    let v = |r: &mut Rng| if dec { g_ib(r) } else { hx(g_bytes(r)) };
    match r.below(10) {
        0..=5 => format!("upd:{}:{}", k(r), v(r)),
        6..=8 => format!("rem:{}", k(r)),
        _ => "clr".into(),
    }
}
fn g_mapmsg(r: &mut Rng, dec: bool) -> String {
    match r.below(10) {
        0 => format!("take:{}", if r.chance(1, 3) { r.next() } else { r.below(1000) }),
        1 => format!("drop:{}", if r.chance(1, 3) { r.next() } else { r.below(1000) }),
        _ => g_mapop(r, dec),
    }
}
fn g_typed_mapop(r: &mut Rng) -> String {
    match r.below(10) {
        0..=5 => format!("upd:{}:{}", hx(g_string(r)), r_opt_string(&g_tb(r))),
        6..=8 => format!("rem:{}", hx(g_string(r))),
        _ => "clr".into(),
    }
}
fn g_typed_mapmsg(r: &mut Rng) -> String {
    match r.below(10) {
        0 => format!("take:{}", r.below(1000)),
        1 => format!("drop:{}", r.below(1000)),
        _ => g_typed_mapop(r),
    }
}
fn g_lanereq(r: &mut Rng, body: fn(&mut Rng) -> String) -> String {
    match r.below(10) {
        0..=5 => format!("cmd({})", body(r)),
        6..=8 => format!("sync:{}", g_uuid(r)),
        _ => "initdone".into(),
    }
}
fn g_laneresp(r: &mut Rng, body: fn(&mut Rng) -> String) -> String {
    match r.below(10) {
        0..=3 => format!("ev({})", body(r)),
        4..=6 => format!("sev:{}({})", g_uuid(r), body(r)),
        7 | 8 => format!("synced:{}", g_uuid(r)),
        _ => "inited".into(),
    }
}
fn g_storeinit(r: &mut Rng, body: fn(&mut Rng) -> String) -> String {
    if r.chance(1, 5) {
        "initdone".into()
    } else {
        format!("cmd({})", body(r))
    }
}
fn g_dlnot(r: &mut Rng, body: fn(&mut Rng) -> String) -> String {
    match r.below(10) {
        0 => "linked".into(),
        1 => "synced".into(),
        2 => "unlinked".into(),
        _ => format!("event({})", body(r)),
    }
}
fn g_req(r: &mut Rng, body: fn(&mut Rng) -> String) -> String {
    let a = format!("{}:{}:{}", g_uuid(r), hx(g_name(r)), hx(g_name(r)));
    match r.below(8) {
        0 => format!("link:{}", a),
        1 => format!("sync:{}", a),
        2 => format!("unlink:{}", a),
        _ => format!("cmd:{}:{}", a, body(r)),
    }
}
fn g_resp(r: &mut Rng, body: fn(&mut Rng) -> String) -> String {
    let a = format!("{}:{}:{}", g_uuid(r), hx(g_name(r)), hx(g_name(r)));
    match r.below(10) {
        0 => format!("linked:{}", a),
        1 => format!("synced:{}", a),
        2 => format!("unlinked:{}:~", a),
        // `Unlinked(Some(b""))` and `Unlinked(None)` have the same wire form (length 0): only non-empty bodies
        3 => {
            let mut b = g_bytes(r);
            if b.is_empty() {
                b.push(7);
            }
            format!("unlinked:{}:{}", a, hx(b))
        }
        _ => format!("event:{}:{}", a, body(r)),
    }
}
fn g_cmd(r: &mut Rng, body: fn(&mut Rng) -> String) -> String {
    let host = if r.chance(1, 3) { hx(g_name(r)) } else { "~".into() };
    let a = format!("{}:{}:{}", host, hx(g_name(r)), hx(g_name(r)));
    match r.below(10) {
        0..=2 => format!("reg:{}:{}", a, r.below(65536)),
        3..=6 => format!("adr:{}:{}:{}", a, r.below(2), body(r)),
        _ => format!("rgd:{}:{}:{}", r.below(65536), r.below(2), body(r)),
    }
}

// ------------------------------------------------------------------------------------------------ cases

/// Offsets (relative to the frame start) of 8-byte big-endian length fields, per wire family.
fn len_offsets(name: &str, f: &[u8]) -> Vec<usize> {
    let fam = name.split('-').next().unwrap();
    let var = name.split('-').nth(1).unwrap_or("");
    let map_inner = |at: usize, f: &[u8]| -> Vec<usize> {
        let mut v = vec![at];
        if f.len() > at + 8 && f[at + 8] == 0 {
            v.push(at + 9);
        }
        v
    };
    let inner = |at: usize, f: &[u8]| -> Vec<usize> {
        if var.ends_with('m') {
            map_inner(at, f)
        } else {
            vec![at]
        }
    };
    let v = match fam {
        "wlb" | "dlop" => vec![0],
        "mapop" | "mapmsg" => map_inner(0, f),
        "lanereq" | "storeinit" => {
            if f.first() == Some(&0) {
                inner(1, f)
            } else {
                vec![]
            }
        }
        "laneresp" | "storeresp" => match f.first() {
            Some(3) => inner(1, f),
            Some(1) => inner(17, f),
            _ => vec![],
        },
        "dlnot" => {
            if f.first() == Some(&3) {
                let mut v = vec![1];
                if var == "m" {
                    v.extend(map_inner(9, f));
                }
                v
            } else {
                vec![]
            }
        }
        "rawreq" | "rawresp" | "reqmsg" | "respmsg" => vec![24],
        "rawcmd" | "cmdmsg" => {
            let flags = *f.first().unwrap_or(&0);
            if flags & 1 == 0 && flags & 2 != 0 {
                vec![3]
            } else if flags & 4 != 0 {
                vec![1, 9, 17]
            } else {
                vec![1, 9]
            }
        }
        _ => vec![],
    };
    v.into_iter().filter(|o| o + 8 <= f.len()).collect()
}

fn tag_offset(name: &str) -> Option<usize> {
    match name.split('-').next().unwrap() {
        "lanereq" | "laneresp" | "storeinit" | "storeinitd" | "storeresp" | "dlnot" | "rawcmd" | "cmdmsg" => Some(0),
        "mapop" | "mapmsg" => Some(8),
        "rawreq" | "rawresp" | "reqmsg" | "respmsg" => Some(24),
        _ => None,
    }
}

/// Where the Recon text of a body string of `msg` (hex tokens of the message text) sits inside its frame, with a
/// label: `key` / `value` of a map update, `rkey` of a map remove, `body` otherwise. Names (node, lane, host) are
/// left alone: a name that is not UTF-8 any more is an error of the header, after which no decoder claims to know
/// where the frame ends.
fn recon_regions(codec: &str, msg: &str, frame: &[u8]) -> Vec<(usize, usize, &'static str)> {
    let fam = codec.split('-').next().unwrap();
    let toks: Vec<&str> = msg.split(|c| c == ':' || c == '(' || c == ')').filter(|t| !t.is_empty()).collect();
    let routed = matches!(fam, "reqmsg" | "respmsg" | "cmdmsg" | "rawreq" | "rawresp" | "rawcmd");
    let has_body = matches!(toks.first().copied(), Some("cmd" | "event" | "adr" | "rgd"));
    let mut out = vec![];
    let mut next: Vec<&'static str> = vec![];
    for (k, tok) in toks.iter().enumerate() {
        match *tok {
            "upd" => {
                next = vec!["value", "key"];
                continue;
            }
            "rem" => {
                next = vec!["rkey"];
                continue;
            }
            _ => {}
        }
        if tok.len() < 2 || tok.len() % 2 != 0 || !tok.bytes().all(|b| b.is_ascii_hexdigit()) {
            continue;
        }
        let label = next.pop().unwrap_or("body");
        if routed && !(has_body && k == toks.len() - 1) {
            continue;
        }
        if !routed && label == "body" && tok.len() == 32 && k >= 1 && matches!(toks[k - 1], "sync" | "sev" | "synced") {
            continue; // a uuid
        }
        let s = match un_str(tok) {
            Some(s) => s,
            None => continue,
        };
        let r = recon(&s);
        if r.is_empty() || r.len() > frame.len() {
            continue;
        }
        if let Some(o) = (0..=frame.len() - r.len()).rev().find(|&o| frame[o..o + r.len()] == r[..]) {
            if !out.iter().any(|&(o2, _, _)| o2 == o) {
                out.push((o, r.len(), label));
            }
        }
    }
    out
}

/// The message text has a zero-length bytes / Recon field (`-` = empty bytes, `~` = `None`, i.e. empty Recon text).
fn has_empty_field(m: &str) -> bool {
    let routed = ["adr:", "rgd:", "reg:", "cmd:", "event:", "unlinked:", "link:", "sync:", "unlink:", "linked:", "synced:"];
    if routed.iter().any(|p| m.starts_with(p)) && !m.contains('(') {
        // the body is the last field; `~` elsewhere is an absent host
        let last = m.rsplit(':').next().unwrap_or("");
        let kind = m.split(':').next().unwrap_or("");
        return matches!(kind, "adr" | "rgd" | "cmd" | "event") && (last == "-" || last == "~");
    }
    m.split(|c| c == ':' || c == '(' || c == ')').any(|t| t == "-" || t == "~")
}

struct Case {
    id: String,
    ops: Vec<String>,
}

fn random_chunks(r: &mut Rng, bytes: &[u8], max_chunk: u64) -> Vec<Vec<u8>> {
    let mut out = vec![];
    let mut i = 0usize;
    while i < bytes.len() {
        let n = (r.range(1, max_chunk) as usize).min(bytes.len() - i);
        out.push(bytes[i..i + n].to_vec());
        i += n;
    }
    out
}

/// Build the cases of one message sequence. The encoder runs here (in the generating process) only to know
/// the frames; every op, `enc` included, is executed again by the worker.
fn build_cases(info: &CodecInfo, r: &mut Rng, mode: &str, tag: &str, out: &mut Vec<Case>) {
    let mut drv = (info.mk)();
    let nmsg = r.range(1, 6);
    let mut msgs = vec![];
    let mut frames: Vec<Vec<u8>> = vec![];
    // every third sequence ends with a message that has an EMPTY body / key / value (zero-length field) if the codec
    // can produce one: the boundary "complete frame, nothing behind it, nothing in it"
    let empty_last = r.chance(1, 3);
    for k in 0..nmsg {
        let mut m = (info.gen)(r);
        if empty_last && k + 1 == nmsg {
            for _ in 0..24 {
                if has_empty_field(&m) {
                    break;
                }
                m = (info.gen)(r);
            }
        }
        match drv.enc(&m) {
            Some(f) => {
                msgs.push(m);
                frames.push(f);
            }
            None => {
                // reported by the monitor as encoder-failed
                msgs.push(m);
                frames.push(vec![]);
            }
        }
    }
    let stream: Vec<u8> = frames.concat();
    let mut head = vec![format!("codec {}", info.name)];
    head.extend(msgs.iter().map(|m| format!("enc {}", m)));
    if frames.iter().any(|f| f.is_empty()) {
        out.push(Case { id: format!("{} encfail", tag), ops: head });
        return;
    }
    if mode == "resync" {
        // corrupt ONE byte inside the Recon text of a body (key / value / name) of one message: every length field
        // stays intact, so the frame boundaries are still recoverable; the corrupted message must come out as one
        // error (or one message, if the text still parses) and every later message exactly as encoded
        let mut cands: Vec<(usize, usize, usize, &'static str)> = vec![]; // (frame, offset in frame, len, label)
        for (i, (m, f)) in msgs.iter().zip(frames.iter()).enumerate() {
            for (o, l, lab) in recon_regions(info.name, m, f) {
                cands.push((i, o, l, lab));
            }
        }
        if cands.is_empty() {
            return;
        }
        let starts: Vec<usize> = frames
            .iter()
            .scan(0usize, |s, f| {
                let st = *s;
                *s += f.len();
                Some(st)
            })
            .collect();
        let (fi, off, len, label) = *r.pick(&cands);
        let mut s = stream.clone();
        let (pos, byte) = match r.below(6) {
            0 | 1 => (off, *r.pick(&[b'{', b')', b'@', b']', 0xffu8])),
            2 => (off + len - 1, *r.pick(&[b'{', b'(', b'\\', 0xc3u8])),
            3 => (off + r.below(len as u64) as usize, *r.pick(&[b'"', b'\\', b'{', b'}', b' ', 0x80u8])),
            _ => (off + r.below(len as u64) as usize, r.range(0x20, 0x7e) as u8),
        };
        let p = starts[fi] + pos;
        if s[p] == byte {
            s[p] = b'}';
        }
        else {
            s[p] = byte;
        }
        head.push(format!("expect-resync {} {}", fi, label));
        let mut ops = head.clone();
        for cut in 0..=s.len() {
            ops.push("reset".into());
            ops.push(format!("feed {}", hex(&s[..cut])));
            ops.push(format!("feed {}", hex(&s[cut..])));
            ops.push("feed -".into());
            ops.push("feed -".into());
            ops.push("end".into());
        }
        out.push(Case { id: format!("{} resync split1 frame={} at={} len={}", tag, fi, p, s.len()), ops });
        let mut ops = head.clone();
        for k in 0..4u64 {
            ops.push("reset".into());
            let maxc = match k {
                0 => 1,
                1 => 3,
                2 => 9,
                _ => 40,
            };
            for c in random_chunks(r, &s, maxc) {
                ops.push(format!("feed {}", hex(&c)));
            }
            ops.push("feed -".into());
            ops.push("feed -".into());
            ops.push("end".into());
        }
        out.push(Case { id: format!("{} resync multi frame={} at={} len={}", tag, fi, p, s.len()), ops });
        return;
    }
    if mode == "valid" {
        // every single split point
        let mut ops = head.clone();
        for cut in 0..=stream.len() {
            ops.push("reset".into());
            ops.push(format!("feed {}", hex(&stream[..cut])));
            ops.push(format!("feed {}", hex(&stream[cut..])));
        }
        out.push(Case { id: format!("{} split1 len={}", tag, stream.len()), ops });
        // random multi-splits, down to one byte per read
        let mut ops = head.clone();
        for k in 0..4u64 {
            ops.push("reset".into());
            let maxc = match k {
                0 => 1,
                1 => 3,
                2 => 9,
                _ => 40,
            };
            for c in random_chunks(r, &stream, maxc) {
                ops.push(format!("feed {}", hex(&c)));
            }
        }
        out.push(Case { id: format!("{} multi len={}", tag, stream.len()), ops });
    } else {
        // byte-level mutations of the valid stream, one decoder run per case
        let starts: Vec<usize> = frames.iter().scan(0usize, |s, f| {
            let st = *s;
            *s += f.len();
            Some(st)
        }).collect();
        for k in 0..10u64 {
            let mut s = stream.clone();
            let fi = r.below(frames.len() as u64) as usize;
            let lens = len_offsets(info.name, &frames[fi]);
            let kind = r.below(10);
            let what;
            match kind {
                0 | 1 => {
                    let p = r.below(s.len() as u64) as usize;
                    s[p] ^= r.range(1, 255) as u8;
                    what = format!("flip@{}", p);
                }
                2 => {
                    let p = r.below(s.len() as u64) as usize;
                    s.truncate(p);
                    let extra = r.below(3);
                    for _ in 0..extra {
                        s.push(r.below(256) as u8);
                    }
                    what = format!("trunc@{}+{}", p, extra);
                }
                3 | 4 | 5 | 6 if !lens.is_empty() => {
                    let o = starts[fi] + *r.pick(&lens);
                    let old = u64::from_be_bytes(s[o..o + 8].try_into().unwrap());
                    let routed = tag_offset(info.name) == Some(24);
                    let keep = if routed { old & (0b111 << 61) } else { 0 };
                    let mask = if routed { (1u64 << 61) - 1 } else { u64::MAX };
                    let new = match r.below(12) {
                        0 => old.wrapping_add(1),
                        1 => old.wrapping_sub(1),
                        2 => u64::MAX,
                        3 => u64::MAX - r.below(16),
                        4 => 0,
                        5 => (1u64 << 63) + (1u64 << 40) + r.below(1 << 20),
                        6 => (1u64 << 62) - r.below(1 << 20) - (1 << 40),
                        7 => (1u64 << 48) + r.below(1 << 20),
                        8 => (1u64 << 32) + r.below(1 << 20),
                        9 => old.wrapping_add(r.range(2, 40)),
                        10 => old.wrapping_sub(r.range(2, 40)),
                        _ => r.next(),
                    };
                    let new = if kind == 6 && routed { new } else { (new & mask) | keep };
                    s[o..o + 8].copy_from_slice(&new.to_be_bytes());
                    what = format!("len@{}={:#x}", o, new);
                }
                7 | 8 if tag_offset(info.name).is_some() && frames[fi].len() > tag_offset(info.name).unwrap() => {
                    let o = starts[fi] + tag_offset(info.name).unwrap();
                    if tag_offset(info.name) == Some(24) {
                        s[o] = (s[o] & 0x1f) | ((r.below(8) as u8) << 5);
                    } else {
                        s[o] = if r.chance(1, 2) { r.below(8) as u8 } else { r.below(256) as u8 };
                    }
                    what = format!("tag@{}={}", o, s[o]);
                }
                _ => {
                    // a few random bytes overwritten
                    let n = r.range(1, 4);
                    for _ in 0..n {
                        let p = r.below(s.len() as u64) as usize;
                        s[p] = r.below(256) as u8;
                    }
                    what = "scribble".to_string();
                }
            }
            let mut ops = head.clone();
            let maxc = *r.pick(&[1u64, 4, 16, 1000]);
            if s.is_empty() {
                ops.push("feed -".into());
            }
            for c in random_chunks(r, &s, maxc) {
                ops.push(format!("feed {}", hex(&c)));
            }
            out.push(Case { id: format!("{} mut{} {}", tag, k, what), ops });
        }
    }
}

// ------------------------------------------------------------------------------------------------ worker

extern "C" {
    fn setrlimit(resource: i32, rlim: *const [u64; 2]) -> i32;
}

/// Deterministic stand-in for "the machine does not have that much memory": any single allocation of
/// `ALLOC_LIMIT` bytes or more fails (the caller then aborts through `handle_alloc_error`), everything below is
/// served by the system allocator. The Lean model uses the same constant.
const ALLOC_LIMIT: usize = 293_000_000; // deliberately not near a multiple of 2^24 (single-byte mutations of length fields)
struct Limited;
unsafe impl std::alloc::GlobalAlloc for Limited {
    unsafe fn alloc(&self, l: std::alloc::Layout) -> *mut u8 {
        if l.size() >= ALLOC_LIMIT {
            std::ptr::null_mut()
        } else {
            std::alloc::System.alloc(l)
        }
    }
    unsafe fn dealloc(&self, p: *mut u8, l: std::alloc::Layout) {
        std::alloc::System.dealloc(p, l)
    }
    unsafe fn alloc_zeroed(&self, l: std::alloc::Layout) -> *mut u8 {
        if l.size() >= ALLOC_LIMIT {
            std::ptr::null_mut()
        } else {
            std::alloc::System.alloc_zeroed(l)
        }
    }
    unsafe fn realloc(&self, p: *mut u8, l: std::alloc::Layout, n: usize) -> *mut u8 {
        // `Vec`'s amortised doubling of a block that was granted is not a new demand of the decoder: let it pass
        // (otherwise whether a length in [LIMIT/2, LIMIT) aborts would depend on how many reads it took)
        let doubling = n == 2 * l.size() && l.size() < ALLOC_LIMIT;
        if n >= ALLOC_LIMIT && !doubling {
            std::ptr::null_mut()
        } else {
            std::alloc::System.realloc(p, l, n)
        }
    }
}
#[global_allocator]
static ALLOC: Limited = Limited;

fn exec_case(ops: &[String], mut emit: impl FnMut(&str, &str)) {
    let table = codecs();
    let mut drv: Option<Box<dyn Drv>> = None;
    for op in ops {
        let parts: Vec<&str> = op.split_whitespace().collect();
        let out: String = match parts.as_slice() {
            ["codec", name] => match table.iter().find(|c| c.name == *name) {
                Some(c) => {
                    drv = Some((c.mk)());
                    "ok".into()
                }
                None => {
                    drv = None;
                    "bad-op".into()
                }
            },
            ["expect-resync", _, _] | ["end"] => match drv.as_ref() {
                Some(_) => "ok".into(),
                None => "bad-op".into(),
            },
            ["reset"] => match drv.as_mut() {
                Some(d) => {
                    d.reset();
                    "ok".into()
                }
                None => "bad-op".into(),
            },
            ["enc", m] => match drv.as_mut() {
                Some(d) => match d.enc(m) {
                    Some(f) => format!("frame {}", hex(&f)),
                    None => "bad-op".into(),
                },
                None => "bad-op".into(),
            },
            ["feed", h] => match (drv.as_mut(), unhex(h)) {
                (Some(d), Some(b)) => d.feed(&b),
                _ => "bad-op".into(),
            },
            _ => "bad-op".into(),
        };
        emit(op, &out);
    }
}

/// `worker <cases-file> <first-case> <trace-out>`: appends to the trace, one flushed line per op.
fn worker(cases_file: &str, first: usize, out: &str) {
    unsafe {
        let none = [0u64, 0u64];
        setrlimit(4 /* RLIMIT_CORE */, &none);
    }
    std::panic::set_hook(Box::new(|_| {}));
    let cases = read_cases(cases_file);
    let mut f = std::fs::OpenOptions::new().append(true).create(true).open(out).expect("trace");
    for c in cases.iter().skip(first) {
        writeln!(f, "case {}", c.id).unwrap();
        exec_case(&c.ops, |op, o| {
            f.write_all(format!("{} ;; {}\n", op, o).as_bytes()).unwrap();
        });
    }
}

fn read_cases(path: &str) -> Vec<Case> {
    let text = std::fs::read_to_string(path).expect("cases file");
    let mut cases: Vec<Case> = vec![];
    for line in text.lines() {
        let line = line.trim();
        if line.is_empty() || line.starts_with('#') {
            continue;
        }
        if let Some(id) = line.strip_prefix("case") {
            cases.push(Case { id: id.trim().to_string(), ops: vec![] });
        } else {
            let op = line.split(" ;; ").next().unwrap().trim().to_string();
            if cases.is_empty() {
                cases.push(Case { id: "?".into(), ops: vec![] });
            }
            cases.last_mut().unwrap().ops.push(op);
        }
    }
    cases
}

/// Run all cases through worker children, `CHUNK` cases per worker invocation (so that neither the case files
/// nor the partial traces get large); a child that dies (abort on a failed allocation) is replaced and the op it
/// was executing is recorded as `abort` (`crash` for any other death), the rest of that case as `dead`.
fn run_cases(cases: &[Case], out: &str) {
    const CHUNK: usize = 40;
    let dir = std::env::temp_dir().join(format!("C10-{}", std::process::id()));
    std::fs::create_dir_all(&dir).unwrap();
    let mut final_out = std::io::BufWriter::new(std::fs::File::create(out).unwrap());
    for (k, chunk) in cases.chunks(CHUNK).enumerate() {
        let cf = dir.join(format!("cases-{}.ops", k));
        let part = dir.join(format!("part-{}.trace", k));
        {
            let mut f = std::io::BufWriter::new(std::fs::File::create(&cf).unwrap());
            for c in chunk {
                writeln!(f, "case {}", c.id).unwrap();
                for op in &c.ops {
                    writeln!(f, "{}", op).unwrap();
                }
            }
        }
        run_chunk(chunk, cf.to_str().unwrap(), part.to_str().unwrap());
        let mut src = std::fs::File::open(&part).unwrap();
        std::io::copy(&mut src, &mut final_out).unwrap();
        let _ = std::fs::remove_file(&cf);
        let _ = std::fs::remove_file(&part);
    }
    final_out.flush().unwrap();
    let _ = std::fs::remove_dir_all(&dir);
}

fn run_chunk(cases: &[Case], cf: &str, out: &str) {
    std::fs::write(out, b"").unwrap();
    let exe = std::env::current_exe().unwrap();
    let mut first = 0usize;
    let mut respawns = 0;
    while first < cases.len() {
        let st = std::process::Command::new(&exe)
            .args(["worker", cf, &first.to_string(), out])
            .stderr(std::process::Stdio::null())
            .env("RUST_BACKTRACE", "0")
            .status()
            .expect("spawn worker");
        if st.success() {
            break;
        }
        respawns += 1;
        if respawns > 10 * cases.len() + 10 {
            panic!("too many worker deaths");
        }
        // find how far it got
        let text = std::fs::read_to_string(out).unwrap();
        let mut ncases = 0usize;
        let mut nops = 0usize;
        for line in text.lines() {
            if line.starts_with("case ") {
                ncases += 1;
                nops = 0;
            } else {
                nops += 1;
            }
        }
        let mut f = std::fs::OpenOptions::new().append(true).open(out).unwrap();
        if !(text.ends_with('\n') || text.is_empty()) {
            // a partially written last line (cannot normally happen: one write per line)
            writeln!(f).unwrap();
        }
        use std::os::unix::process::ExitStatusExt;
        let how = if st.signal() == Some(6) { "abort" } else { "crash" };
        if ncases <= first {
            // died before writing the header of the case it was to start with
            writeln!(f, "case {}", cases[first].id).unwrap();
            ncases = first + 1;
            nops = 0;
        }
        let ci = ncases - 1;
        let c = &cases[ci];
        for (j, op) in c.ops.iter().enumerate().skip(nops) {
            writeln!(f, "{} ;; {}", op, if j == nops { how } else { "dead" }).unwrap();
        }
        first = ci + 1;
    }
}

fn main() {
    let a: Vec<String> = std::env::args().collect();
    match a.get(1).map(|s| s.as_str()) {
        Some("worker") => worker(&a[2], a[3].parse().unwrap(), &a[4]),
        Some("gen") => {
            let seed: u64 = a[2].parse().expect("seed");
            let nseq: u64 = a[3].parse().expect("cases");
            let out = &a[4];
            let class = a.get(5).map(|s| s.as_str()).unwrap_or("raw");
            let mode = a.get(6).map(|s| s.as_str()).unwrap_or("valid");
            let only = a.get(7).cloned();
            if class == "typedbare" {
                BARE.store(true, std::sync::atomic::Ordering::Relaxed);
            }
            let table: Vec<CodecInfo> = codecs()
                .into_iter()
                .filter(|c| c.typed == class.starts_with("typed"))
                .filter(|c| only.as_deref().map(|o| o == c.name).unwrap_or(true))
                .collect();
            let mut rng = Rng::new(seed ^ if mode == "valid" { 0 } else { 0x5555 });
            let mut cases = vec![];
            for i in 0..nseq {
                let info = &table[(i as usize + seed as usize) % table.len()];
                let mut r = rng.fork();
                build_cases(info, &mut r, mode, &format!("{} seed={} #{}", info.name, seed, i), &mut cases);
            }
            run_cases(&cases, out);
        }
        Some("replay") => {
            let cases = read_cases(&a[2]);
            run_cases(&cases, &a[3]);
        }
        _ => {
            eprintln!("usage: {} gen <seed> <sequences> <out> <raw|typed> <valid|mutate> [codec] | replay <ops> <out>", a[0]);
            std::process::exit(2);
        }
    }
    let _ = BytesMut::new().put_u8(0);
}
