// scratch probe (will be replaced)
use bytes::{BytesMut, BufMut};
use tokio_util::codec::{Decoder, Encoder};
use swimos_agent_protocol::encoding::map::*;
use swimos_agent_protocol::encoding::command::*;
use swimos_agent_protocol::encoding::downlink::*;
use swimos_agent_protocol::{CommandMessage, MapOperation};
use swimos_api::address::Address;
use swimos_messages::protocol::*;
use swimos_utilities::encoding::WithLengthBytesCodec;
use std::panic::{catch_unwind, AssertUnwindSafe};

fn main() {
    let which = std::env::args().nth(1).unwrap();
    match which.as_str() {
        "f4a" => {
            let mut b = BytesMut::new();
            b.put_u64(9); b.put_u8(0); b.put_u64(u64::MAX);
            let r = catch_unwind(AssertUnwindSafe(|| RawMapOperationDecoder.decode(&mut b).map(|o| format!("{:?}", o))));
            println!("{:?}", r.map_err(|_| "panic"));
        }
        "f4b" => {
            let mut b = BytesMut::new();
            b.put_u64(u64::MAX - 3); b.put_u8(0); b.put_u64(1);
            let r = catch_unwind(AssertUnwindSafe(|| RawMapOperationDecoder.decode(&mut b).map(|o| format!("{:?}", o))));
            println!("{:?}", r.map_err(|_| "panic"));
        }
        "f4c" => {
            let mut b = BytesMut::new();
            b.put_u64(u64::MAX - 3); b.put_u8(0);
            let r = catch_unwind(AssertUnwindSafe(|| WithLengthBytesCodec.decode(&mut b).map(|o| format!("{:?}", o))));
            println!("{:?}", r.map_err(|_| "panic"));
        }
        "f4d" => {
            let mut b = BytesMut::new();
            b.put_u64(u64::MAX - 3); b.put_u8(0);
            let r = catch_unwind(AssertUnwindSafe(|| DownlinkOperationDecoder.decode(&mut b).map(|o| format!("{:?}", o))));
            println!("{:?}", r.map_err(|_| "panic"));
        }
        "alloc1" => {
            let mut b = BytesMut::new();
            b.put_u64(1u64 << 50); b.put_u8(0);
            let r = catch_unwind(AssertUnwindSafe(|| DownlinkOperationDecoder.decode(&mut b).map(|o| format!("{:?}", o))));
            println!("{:?}", r.map_err(|_| "panic"));
        }
        "alloc2" => {
            let mut e = RawRequestMessageEncoder;
            let mut b = BytesMut::new();
            e.encode(RequestMessage::<&str, &[u8]>::command(uuid::Uuid::from_u128(7), swimos_api::address::RelativeAddress::new("n", "l"), &[1u8,2,3][..]), &mut b).unwrap();
            b[24] = 0x60 | 0x10; // keep COMMAND tag, huge length
            let r = catch_unwind(AssertUnwindSafe(|| RawRequestMessageDecoder.decode(&mut b).map(|o| format!("{:?}", o))));
            println!("{:?}", r.map_err(|_| "panic"));
        }
        "f17" => {
            let mut e = RawRequestMessageEncoder;
            let mut b = BytesMut::new();
            e.encode(RequestMessage::<&str, &[u8]>::command(uuid::Uuid::from_u128(7), swimos_api::address::RelativeAddress::new("n", "l"), &[1u8,2,3][..]), &mut b).unwrap();
            b[24] = (b[24] & 0x1f) | (0b110 << 5);
            println!("{:?}", RawRequestMessageDecoder.decode(&mut b));
            let mut b = BytesMut::new();
            e.encode(RequestMessage::<&str, &[u8]>::link(uuid::Uuid::from_u128(7), swimos_api::address::RelativeAddress::new("n", "l")), &mut b).unwrap();
            b[31] = 2;
            b.put_u8(0xaa); b.put_u8(0xbb);
            println!("{:?} left={}", RawRequestMessageDecoder.decode(&mut b), b.len());
        }
        "cmd" => {
            let mut e = RawCommandMessageEncoder::default();
            let mut b = BytesMut::new();
            e.encode(CommandMessage::<&str, &[u8]>::register(Address::new(None, "node", "lane"), 7), &mut b).unwrap();
            e.encode(CommandMessage::<&str, &[u8]>::registered(7, &[1u8,2,3][..], true), &mut b).unwrap();
            let all = b.clone();
            let mut d = RawCommandMessageDecoder::<String>::default();
            let mut one = all.clone();
            println!("oneshot: {:?}", d.decode(&mut one));
            println!("oneshot: {:?}", d.decode(&mut one));
            for cut in 1..all.len() {
                let mut d = RawCommandMessageDecoder::<String>::default();
                let mut buf = BytesMut::new();
                buf.extend_from_slice(&all[..cut]);
                let mut outs = vec![];
                loop { match d.decode(&mut buf) { Ok(Some(m)) => outs.push(format!("{:?}", m)), Ok(None) => break, Err(e) => { outs.push(format!("ERR {:?}", e)); break; } } }
                buf.extend_from_slice(&all[cut..]);
                loop { match d.decode(&mut buf) { Ok(Some(m)) => outs.push(format!("{:?}", m)), Ok(None) => break, Err(e) => { outs.push(format!("ERR {:?}", e)); break; } } }
                println!("cut {}: {:?} left={}", cut, outs, buf.len());
            }
        }
        _ => {}
    }
}
