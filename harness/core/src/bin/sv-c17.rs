//! C17 correspondence: the real vote coordinator driven single-threaded at operation granularity.
use std::future::Future;
use std::pin::Pin;
use std::sync::Arc;
use std::task::{Context, Poll, Wake, Waker};

use svh::{parse_args, Mode, Rng, Trace};
use swimos_runtime::verif::timeout_coord::{coordinator, Receiver, VoteResult, Voter};

/// Counts the wake-ups delivered to the waker the receiver registered.
struct Counting(std::sync::atomic::AtomicUsize);
impl Wake for Counting {
    fn wake(self: Arc<Self>) {
        self.0.fetch_add(1, std::sync::atomic::Ordering::SeqCst);
    }
}

struct Sys {
    voters: Vec<Option<Voter>>,
    rx: Receiver,
    // The waiter may be polled with a different waker each time (it can be moved to another task): two wakers are
    // used alternately and only a wake-up of the one used by the latest pending poll counts (`wakes`); a wake-up of
    // the other one (`stale`) is reported as such.
    wakes: Arc<Counting>,
    stale: Arc<Counting>,
}

fn vr(r: VoteResult) -> &'static str {
    match r {
        VoteResult::Unanimous => "unanimous",
        VoteResult::UnanimityPending => "pending",
    }
}

impl Sys {
    fn new(n: usize) -> Option<Sys> {
        let (vs, rx) = coordinator(n)?;
        Some(Sys {
            voters: vs.into_iter().map(Some).collect(),
            rx,
            wakes: Arc::new(Counting(Default::default())),
            stale: Arc::new(Counting(Default::default())),
        })
    }
    /// The result of the operation, followed by ` wake` if it woke the receiver's registered waker.
    fn exec(&mut self, op: &str) -> String {
        // counters are identified by the waker they belong to (a `poll` swaps the two roles)
        let cur = self.wakes.clone();
        let old = self.stale.clone();
        let before = cur.0.load(std::sync::atomic::Ordering::SeqCst);
        let stale_before = old.0.load(std::sync::atomic::Ordering::SeqCst);
        let r = self.exec0(op);
        let after = cur.0.load(std::sync::atomic::Ordering::SeqCst);
        let stale_after = old.0.load(std::sync::atomic::Ordering::SeqCst);
        if stale_after > stale_before {
            format!("{} stale-waker-woken", r)
        } else if after > before {
            format!("{} wake", r)
        } else {
            r
        }
    }
    fn exec0(&mut self, op: &str) -> String {
        let parts: Vec<&str> = op.split_whitespace().collect();
        match parts.as_slice() {
            ["vote", i] => match self.voters.get(i.parse::<usize>().unwrap()).and_then(|v| v.as_ref()) {
                Some(v) => vr(v.vote()).into(),
                None => "disabled".into(),
            },
            ["rescind", i] => match self.voters.get(i.parse::<usize>().unwrap()).and_then(|v| v.as_ref()) {
                Some(v) => vr(v.rescind()).into(),
                None => "disabled".into(),
            },
            ["drop", i] => match self.voters.get_mut(i.parse::<usize>().unwrap()).and_then(|v| v.take()) {
                Some(v) => {
                    drop(v);
                    "unit".into()
                }
                None => "disabled".into(),
            },
            ["poll"] => {
                // the waiter comes with the other waker this time; the one of its previous poll is now stale
                std::mem::swap(&mut self.wakes, &mut self.stale);
                let w = Waker::from(self.wakes.clone());
                let mut cx = Context::from_waker(&w);
                match Pin::new(&mut self.rx).poll(&mut cx) {
                    Poll::Ready(()) => "ready".into(),
                    Poll::Pending => "notready".into(),
                }
            }
            _ => "bad-op".into(),
        }
    }
}

fn run_case(t: &mut Trace, ops: &[String]) {
    let mut s: Option<Sys> = None;
    for op in ops {
        if let Some(n) = op.strip_prefix("new ") {
            s = Sys::new(n.trim().parse().unwrap());
            t.op(op, if s.is_some() { "ok" } else { "bad-op" });
        } else if let Some(sys) = s.as_mut() {
            let o = sys.exec(op);
            t.op(op, o);
        } else {
            t.op(op, "bad-op");
        }
    }
}

/// All sequences over the alphabet for `n` parties up to `depth` (exhaustive small scope).
fn exhaustive(t: &mut Trace, n: usize, depth: usize) {
    let mut alphabet: Vec<String> = vec!["poll".into()];
    for i in 0..n {
        alphabet.push(format!("vote {}", i));
        alphabet.push(format!("rescind {}", i));
        alphabet.push(format!("drop {}", i));
    }
    let k = alphabet.len();
    let mut idx = vec![0usize; depth];
    let mut count = 0u64;
    loop {
        let mut ops = vec![format!("new {}", n)];
        ops.extend(idx.iter().map(|&j| alphabet[j].clone()));
        t.case(format!("exh n={} #{}", n, count));
        run_case(t, &ops);
        count += 1;
        let mut p = depth;
        loop {
            if p == 0 {
                return;
            }
            p -= 1;
            idx[p] += 1;
            if idx[p] < k {
                break;
            }
            idx[p] = 0;
        }
    }
}

fn main() {
    match parse_args() {
        Mode::Gen { seed, cases, out } => {
            let mut t = Trace::create(&out);
            let extra: Vec<String> = std::env::args().skip(5).collect();
            if extra.first().map(|s| s.as_str()) == Some("exhaustive") {
                // exhaustive <n> <depth>; only shard 0 (seed % 1000 == 0) does the work
                if seed % 1000 == 0 {
                    exhaustive(&mut t, extra[1].parse().unwrap(), extra[2].parse().unwrap());
                }
                t.finish();
                return;
            }
            let mut rng = Rng::new(seed);
            for c in 0..cases {
                let n = if rng.chance(3, 4) { rng.range(2, 3) } else { rng.range(4, 8) } as usize;
                let len = rng.range(1, 24);
                let mut ops = vec![format!("new {}", n)];
                for _ in 0..len {
                    let i = rng.below(n as u64);
                    let r = rng.below(100);
                    ops.push(if r < 38 {
                        format!("vote {}", i)
                    } else if r < 76 {
                        format!("rescind {}", i)
                    } else if r < 84 {
                        format!("drop {}", i)
                    } else {
                        "poll".into()
                    });
                }
                t.case(format!("{} seed={}", c, seed));
                run_case(&mut t, &ops);
            }
            t.finish();
        }
        Mode::Replay { ops, out } => {
            let mut t = Trace::create(&out);
            for (i, case) in ops.iter().enumerate() {
                t.case(i);
                run_case(&mut t, case);
            }
            t.finish();
        }
    }
}
