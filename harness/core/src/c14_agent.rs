//! The agent of the C14 rigs (`sv-cl`: harness as the runtime; `sv-adh`: real runtime): a command lane and a supply
//! lane with a logging lifecycle whose `on_command(v)` commands its own lane, supplies items, sends ad hoc commands
//! and sends commands through commanders — see the header of `bin/sv-cl.rs` for the exact schedule.
use std::collections::HashMap;
use std::sync::{Arc, Mutex};

use swimos::agent::commander::Commander;
use swimos::agent::{
    agent_lifecycle::HandlerContext,
    event_handler::{EventHandler, HandlerActionExt, SendCommand, Sequentially},
    lanes::{CommandLane, SupplyLane},
    lifecycle, projections, AgentLaneModel,
};
use swimos_api::address::Address;

#[projections]
#[derive(AgentLaneModel)]
pub struct TestAgent {
    cmd: CommandLane<i32>,
    sup: SupplyLane<i32>,
}

pub type Log = Arc<Mutex<Vec<String>>>;

pub type Commanders = Arc<Mutex<HashMap<i32, Commander<TestAgent>>>>;

#[derive(Clone)]
pub struct TestLifecycle {
    pub log: Log,
    pub commanders: Commanders,
}

#[lifecycle(TestAgent)]
impl TestLifecycle {
    #[on_command(cmd)]
    pub fn on_command(&self, context: HandlerContext<TestAgent>, value: &i32) -> impl EventHandler<TestAgent> {
        let log = self.log.clone();
        let n = *value;
        let note = context.effect(move || log.lock().unwrap().push(format!("cmd:{}", n)));
        let nested = if n.rem_euclid(7) == 5 {
            Some(context.command(TestAgent::CMD, n + 1))
        } else {
            None
        };
        let log2 = self.log.clone();
        let pushes = (0..n.rem_euclid(4)).map(move |i| {
            let x = n * 10 + i + 1;
            let log3 = log2.clone();
            context
                .effect(move || log3.lock().unwrap().push(format!("sup:{}", x)))
                .followed_by(context.supply(TestAgent::SUP, x))
        });
        let count = if n.rem_euclid(11) == 0 { 60 } else { (n / 4).rem_euclid(5) };
        let sends = (0..count).map(move |i| {
            let node = format!("/t{}", (n + i).rem_euclid(3));
            SendCommand::new(Address::text(None, node.as_str(), "in"), n * 1000 + i, (n + i).rem_euclid(2) == 0)
        });
        let ccount = if n.rem_euclid(13) == 0 { 40 } else { (n / 3).rem_euclid(4) };
        let held = self.commanders.clone();
        let csends = (0..ccount).map(move |i| {
            let t = (n + 2 * i).rem_euclid(4);
            let value = n * 1000 + 500 + i;
            let overwrite = (n + i).rem_euclid(3) == 0;
            let held1 = held.clone();
            let held2 = held.clone();
            context
                .effect(move || if value % 5 == 0 { None } else { held1.lock().unwrap().get(&t).copied() })
                .and_then(move |existing: Option<Commander<TestAgent>>| {
                    let send = move |c: Commander<TestAgent>| {
                        if overwrite {
                            c.send(value)
                        } else {
                            c.send_queued(value)
                        }
                    };
                    match existing {
                        Some(c) => send(c).boxed_local(),
                        None => context
                            .create_commander(None, format!("/t{}", t).as_str(), "in")
                            .and_then(move |c: Commander<TestAgent>| {
                                held2.lock().unwrap().insert(t, c);
                                send(c)
                            })
                            .boxed_local(),
                    }
                })
        });
        note.followed_by(nested.discard())
            .followed_by(Sequentially::new(pushes))
            .followed_by(Sequentially::new(sends))
            .followed_by(Sequentially::new(csends))
    }
}

