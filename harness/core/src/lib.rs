//! Shared helpers for the correspondence harness: PRNG, hex, trace writer.
use std::fmt::Write as _;
use std::io::Write;

/// SplitMix64: every random choice of a run derives from one seed.
#[derive(Clone, Debug)]
pub struct Rng(pub u64);

impl Rng {
    pub fn new(seed: u64) -> Rng {
        // decorrelate consecutive seeds: two rounds of the output function over the seed
        let mut r = Rng(seed ^ 0x1234_5678_9ABC_DEF1);
        let a = r.next();
        let mut r2 = Rng(a.rotate_left(17) ^ seed.wrapping_mul(0xD6E8FEB86659FD93));
        let b = r2.next();
        Rng(a ^ b)
    }
    pub fn next(&mut self) -> u64 {
        self.0 = self.0.wrapping_add(0x9E3779B97F4A7C15);
        let mut z = self.0;
        z = (z ^ (z >> 30)).wrapping_mul(0xBF58476D1CE4E5B9);
        z = (z ^ (z >> 27)).wrapping_mul(0x94D049BB133111EB);
        z ^ (z >> 31)
    }
    /// Uniform in `0..n` (n > 0).
    pub fn below(&mut self, n: u64) -> u64 {
        self.next() % n
    }
    pub fn range(&mut self, lo: u64, hi_incl: u64) -> u64 {
        lo + self.below(hi_incl - lo + 1)
    }
    pub fn chance(&mut self, num: u64, den: u64) -> bool {
        self.below(den) < num
    }
    pub fn pick<'a, T>(&mut self, xs: &'a [T]) -> &'a T {
        &xs[self.below(xs.len() as u64) as usize]
    }
    pub fn fork(&mut self) -> Rng {
        Rng(self.next())
    }
}

pub fn hex(bs: &[u8]) -> String {
    if bs.is_empty() {
        return "-".to_string();
    }
    let mut s = String::with_capacity(bs.len() * 2);
    for b in bs {
        write!(s, "{:02x}", b).unwrap();
    }
    s
}

pub fn unhex(s: &str) -> Option<Vec<u8>> {
    if s == "-" {
        return Some(vec![]);
    }
    if s.len() % 2 != 0 {
        return None;
    }
    (0..s.len() / 2)
        .map(|i| u8::from_str_radix(&s[2 * i..2 * i + 2], 16).ok())
        .collect()
}

/// Trace file: `case <id>` lines and `<op> ;; <observed output>` lines.
pub struct Trace {
    out: Box<dyn Write>,
    pub cases: u64,
    pub ops: u64,
}

impl Trace {
    pub fn create(path: &str) -> Trace {
        let f = std::fs::File::create(path).expect("cannot create trace file");
        Trace {
            out: Box::new(std::io::BufWriter::new(f)),
            cases: 0,
            ops: 0,
        }
    }
    pub fn case(&mut self, id: impl std::fmt::Display) {
        self.cases += 1;
        writeln!(self.out, "case {}", id).unwrap();
    }
    pub fn op(&mut self, op: impl std::fmt::Display, out: impl std::fmt::Display) {
        self.ops += 1;
        writeln!(self.out, "{} ;; {}", op, out).unwrap();
    }
    pub fn finish(mut self) {
        self.out.flush().unwrap();
    }
}

/// Standard CLI of every harness binary: `<bin> gen <seed> <cases> <trace-out>` or
/// `<bin> replay <ops-file> <trace-out>` (ops file: `case`/op lines, anything after ` ;; ` ignored).
pub enum Mode {
    Gen { seed: u64, cases: u64, out: String },
    Replay { ops: Vec<Vec<String>>, out: String },
}

pub fn parse_args() -> Mode {
    let a: Vec<String> = std::env::args().collect();
    match a.get(1).map(|s| s.as_str()) {
        Some("gen") => Mode::Gen {
            seed: a[2].parse().expect("seed"),
            cases: a[3].parse().expect("cases"),
            out: a[4].clone(),
        },
        Some("replay") => {
            let text = std::fs::read_to_string(&a[2]).expect("ops file");
            let mut cases: Vec<Vec<String>> = vec![];
            for line in text.lines() {
                let line = line.trim();
                if line.is_empty() || line.starts_with('#') {
                    continue;
                }
                if line.starts_with("case") {
                    cases.push(vec![]);
                } else {
                    let op = line.split(" ;; ").next().unwrap().trim().to_string();
                    if cases.is_empty() {
                        cases.push(vec![]);
                    }
                    cases.last_mut().unwrap().push(op);
                }
            }
            Mode::Replay { ops: cases, out: a[3].clone() }
        }
        _ => {
            eprintln!("usage: {} gen <seed> <cases> <out> | replay <ops> <out>", a[0]);
            std::process::exit(2);
        }
    }
}
