//! C16 correspondence: derived `Form` types (a battery covering every `#[form(..)]` attribute and the combinations in
//! the property's quantifier) driven through the real conversions:
//!   av  <T> <inst>        as_value                                   -> canonical Value
//!   fv  <T> <value>       try_from_value (bridge -> recognizers)      -> ok <inst> | err
//!   rt  <T> <inst>        as_value/try_from_value, into_value/try_convert, try_read_from round trips -> ok | mismatch:..
//!   pr  <T> <style> <inst> print_recon{,_compact,_pretty}             -> hex text
//!   txt <T> <hex text>    parse_recognize::<T> (A) vs parse_recognize::<Value> + try_from_value (B)
//!   mp  <T> <inst>        MsgPackInterpreter                          -> hex bytes | err:<kind>
//!   mr  <T> <hex bytes>   read_from_msg_pack::<T>                     -> ok <inst> | err
//!   vrt <T> <inst>        types with generic `Value` fields: every path above on the instance, each compared with it
//!                                                                   -> ok | mismatch:<paths> c=<f6|->
//!   sch <T> <descriptor>  hand-written schema descriptor of the type (checked by the Lean model) -> ok
//! Every op line is self-contained (type name + canonical text), so any trace can be replayed.
use std::collections::HashMap;
use std::hash::Hash;
use std::num::NonZeroUsize;
use std::sync::Arc;
use std::time::Duration;
use std::fmt::Debug;
use std::marker::PhantomData;
use std::panic::{catch_unwind, AssertUnwindSafe};

use bytes::{BufMut, BytesMut};
use num_bigint::{BigInt, BigUint};
// the shared helpers (PRNG, trace writer, CLI) of harness/core, compiled into this crate
#[allow(dead_code)]
#[path = "../../../core/src/lib.rs"]
mod svh;
use svh::{hex, parse_args, unhex, Mode, Rng, Trace};
use swimos_form::write::StructuralWritable;
use swimos_form::{Form, Tag};
use swimos_model::{Attr, Blob, Item, Text, Timestamp, Value};
use swimos_utilities::future::{Quantity, RetryStrategy};
use swimos_utilities::routing::RouteUri;
use swimos_msgpack::{read_from_msg_pack, MsgPackInterpreter, MsgPackWriteError};
use swimos_recon::parser::parse_recognize;
use swimos_recon::{print_recon, print_recon_compact, print_recon_pretty};

// ------------------------------------------------------------------------------------------ canonical text: Value

fn vrender(v: &Value, o: &mut String) {
    match v {
        Value::Extant => o.push('x'),
        Value::Int32Value(n) => o.push_str(&format!("i{}", n)),
        Value::Int64Value(n) => o.push_str(&format!("j{}", n)),
        Value::UInt32Value(n) => o.push_str(&format!("u{}", n)),
        Value::UInt64Value(n) => o.push_str(&format!("v{}", n)),
        Value::Float64Value(x) => o.push_str(&format!("f{:016x}", x.to_bits())),
        Value::BooleanValue(b) => o.push_str(if *b { "bt" } else { "bf" }),
        Value::BigInt(n) => o.push_str(&format!("G{}", n)),
        Value::BigUint(n) => o.push_str(&format!("H{}", n)),
        Value::Text(t) => {
            o.push('t');
            o.push_str(&hexs(t.as_str().as_bytes()));
        }
        Value::Data(b) => {
            o.push('d');
            o.push_str(&hexs(b.as_ref()));
        }
        Value::Record(attrs, items) => {
            o.push('{');
            for (i, Attr { name, value }) in attrs.iter().enumerate() {
                if i > 0 {
                    o.push(',');
                }
                o.push('@');
                o.push_str(&hexs(name.as_str().as_bytes()));
                o.push('=');
                vrender(value, o);
            }
            o.push('|');
            for (i, it) in items.iter().enumerate() {
                if i > 0 {
                    o.push(',');
                }
                match it {
                    Item::ValueItem(v) => vrender(v, o),
                    Item::Slot(k, v) => {
                        vrender(k, o);
                        o.push(':');
                        vrender(v, o);
                    }
                }
            }
            o.push('}');
        }
    }
}

fn vstr(v: &Value) -> String {
    let mut s = String::new();
    vrender(v, &mut s);
    s
}

/// hex without the `-` convention (empty stays empty): used inside structured text
fn hexs(b: &[u8]) -> String {
    if b.is_empty() {
        String::new()
    } else {
        hex(b)
    }
}

struct P<'a> {
    s: &'a [u8],
    i: usize,
}

impl<'a> P<'a> {
    fn new(s: &'a str) -> P<'a> {
        P { s: s.as_bytes(), i: 0 }
    }
    fn peek(&self) -> Option<u8> {
        self.s.get(self.i).copied()
    }
    fn eat(&mut self, c: u8) -> Option<()> {
        if self.peek() == Some(c) {
            self.i += 1;
            Some(())
        } else {
            None
        }
    }
    fn next(&mut self) -> Option<u8> {
        let c = self.peek()?;
        self.i += 1;
        Some(c)
    }
    fn done(&self) -> bool {
        self.i == self.s.len()
    }
    fn hex_bytes(&mut self) -> Option<Vec<u8>> {
        let st = self.i;
        while let Some(c) = self.peek() {
            if c.is_ascii_digit() || (b'a'..=b'f').contains(&c) {
                self.i += 1;
            } else {
                break;
            }
        }
        let t = std::str::from_utf8(&self.s[st..self.i]).ok()?;
        if t.is_empty() {
            Some(vec![])
        } else {
            unhex(t)
        }
    }
    fn hex_text(&mut self) -> Option<String> {
        String::from_utf8(self.hex_bytes()?).ok()
    }
    fn int_text(&mut self) -> Option<&'a str> {
        let st = self.i;
        if self.peek() == Some(b'-') {
            self.i += 1;
        }
        while let Some(c) = self.peek() {
            if c.is_ascii_digit() {
                self.i += 1;
            } else {
                break;
            }
        }
        let t = std::str::from_utf8(&self.s[st..self.i]).ok()?;
        if t.is_empty() || t == "-" {
            None
        } else {
            Some(t)
        }
    }
}

fn vparse_p(p: &mut P) -> Option<Value> {
    match p.next()? {
        b'x' => Some(Value::Extant),
        b'i' => Some(Value::Int32Value(p.int_text()?.parse().ok()?)),
        b'j' => Some(Value::Int64Value(p.int_text()?.parse().ok()?)),
        b'u' => Some(Value::UInt32Value(p.int_text()?.parse().ok()?)),
        b'v' => Some(Value::UInt64Value(p.int_text()?.parse().ok()?)),
        b'G' => Some(Value::BigInt(p.int_text()?.parse().ok()?)),
        b'H' => Some(Value::BigUint(p.int_text()?.parse().ok()?)),
        b'f' => {
            let b = p.hex_bytes()?;
            if b.len() != 8 {
                return None;
            }
            let mut a = [0u8; 8];
            a.copy_from_slice(&b);
            Some(Value::Float64Value(f64::from_bits(u64::from_be_bytes(a))))
        }
        b'b' => match p.next()? {
            b't' => Some(Value::BooleanValue(true)),
            b'f' => Some(Value::BooleanValue(false)),
            _ => None,
        },
        b't' => Some(Value::Text(Text::new(&p.hex_text()?))),
        b'd' => Some(Value::Data(Blob::from_vec(p.hex_bytes()?))),
        b'{' => {
            let mut attrs = vec![];
            let mut items = vec![];
            if p.peek() != Some(b'|') {
                loop {
                    p.eat(b'@')?;
                    let name = p.hex_text()?;
                    p.eat(b'=')?;
                    let v = vparse_p(p)?;
                    attrs.push(Attr { name: Text::new(&name), value: v });
                    if p.eat(b',').is_none() {
                        break;
                    }
                }
            }
            p.eat(b'|')?;
            if p.peek() != Some(b'}') {
                loop {
                    let a = vparse_p(p)?;
                    if p.eat(b':').is_some() {
                        let b = vparse_p(p)?;
                        items.push(Item::Slot(a, b));
                    } else {
                        items.push(Item::ValueItem(a));
                    }
                    if p.eat(b',').is_none() {
                        break;
                    }
                }
            }
            p.eat(b'}')?;
            Some(Value::Record(attrs, items))
        }
        _ => None,
    }
}

fn vparse(s: &str) -> Option<Value> {
    let mut p = P::new(s);
    let v = vparse_p(&mut p)?;
    if p.done() {
        Some(v)
    } else {
        None
    }
}

// ------------------------------------------------------------------------------------------ field values

/// A type usable as a field of a battery struct: schema descriptor, generator, canonical instance text.
trait Fv: Sized + Clone + PartialEq + Debug {
    fn ty() -> String;
    fn gen(r: &mut Rng, depth: u32) -> Self;
    /// Generator used for a registry entry of this type (collections: always several elements, so that the element
    /// recogniser is reset and reused).
    fn gen_top(r: &mut Rng) -> Self {
        Self::gen(r, 0)
    }
    fn inst(&self, o: &mut String);
    fn parse(p: &mut P) -> Option<Self>;
    fn modelled() -> bool {
        true
    }
    /// The type has fields of the generic model type `Value` (battery X03, X13..): its cases use the `vrt` op, which runs
    /// every conversion path on the instance and compares each result with the instance itself.
    fn vfields() -> bool {
        false
    }
    /// The instance with every `#[form(body)]` field of type `Value` replaced by what `DelegateBodyMaterializer` is
    /// documented (C16-F6) to give back for it: `{}` -> Extant, `{x}` -> `x`. Only used to LABEL a `vrt` mismatch as
    /// fully explained by C16-F6 (`c=f6`); the verdict itself is `ok` only if every path returns the instance.
    fn f6_norm(&self) -> Self {
        self.clone()
    }
}

fn gen_i64_in(r: &mut Rng, lo: i128, hi: i128) -> i128 {
    match r.below(10) {
        0 => 0,
        1 => 1.min(hi),
        2 => (-1i128).max(lo),
        3 => lo,
        4 => hi,
        5 => (lo + 1).min(hi),
        6 => (hi - 1).max(lo),
        7 => (r.below(200) as i128 - 100).clamp(lo, hi),
        _ => {
            let span = (hi - lo + 1) as u128;
            lo + ((((r.next() as u128) << 64) | r.next() as u128) % span) as i128
        }
    }
}

macro_rules! fv_int {
    ($t:ty, $name:expr) => {
        impl Fv for $t {
            fn ty() -> String {
                $name.to_string()
            }
            fn gen(r: &mut Rng, _d: u32) -> Self {
                gen_i64_in(r, <$t>::MIN as i128, <$t>::MAX as i128) as $t
            }
            fn inst(&self, o: &mut String) {
                o.push_str(&format!("i{}", self));
            }
            fn parse(p: &mut P) -> Option<Self> {
                p.eat(b'i')?;
                p.int_text()?.parse().ok()
            }
        }
    };
}
fv_int!(i32, "i32");
fv_int!(i64, "i64");
fv_int!(u32, "u32");
fv_int!(u64, "u64");

impl Fv for bool {
    fn ty() -> String {
        "bool".into()
    }
    fn gen(r: &mut Rng, _d: u32) -> Self {
        r.chance(1, 2)
    }
    fn inst(&self, o: &mut String) {
        o.push_str(if *self { "bt" } else { "bf" });
    }
    fn parse(p: &mut P) -> Option<Self> {
        p.eat(b'b')?;
        match p.next()? {
            b't' => Some(true),
            b'f' => Some(false),
            _ => None,
        }
    }
}

impl Fv for () {
    fn ty() -> String {
        "unit".into()
    }
    fn gen(_r: &mut Rng, _d: u32) -> Self {}
    fn inst(&self, o: &mut String) {
        o.push('u');
    }
    fn parse(p: &mut P) -> Option<Self> {
        p.eat(b'u')
    }
}

const STRINGS: &[&str] = &[
    "", "a", "b", "name", "hello", "hello world", "true", "false", "1a", " ", "S01", "é→ü", "\"q\"", "a\\b\nc\t",
    "@x", "{", "}", ":", ",", "0", "-1", "%AA", "x y", "_u", "😀", "infinite",
];

impl Fv for String {
    fn ty() -> String {
        "text".into()
    }
    fn gen(r: &mut Rng, _d: u32) -> Self {
        if r.chance(5, 6) {
            r.pick(STRINGS).to_string()
        } else {
            let n = r.below(6);
            (0..n).map(|_| char::from_u32(r.range(32, 126) as u32).unwrap()).collect()
        }
    }
    fn inst(&self, o: &mut String) {
        o.push('t');
        o.push_str(&hexs(self.as_bytes()));
    }
    fn parse(p: &mut P) -> Option<Self> {
        p.eat(b't')?;
        p.hex_text()
    }
}

impl<T: Fv> Fv for Option<T> {
    fn ty() -> String {
        format!("?{}", T::ty())
    }
    fn gen(r: &mut Rng, d: u32) -> Self {
        if r.chance(2, 5) {
            None
        } else {
            Some(T::gen(r, d + 1))
        }
    }
    fn inst(&self, o: &mut String) {
        match self {
            None => o.push('n'),
            Some(t) => {
                o.push('s');
                t.inst(o)
            }
        }
    }
    fn parse(p: &mut P) -> Option<Self> {
        match p.next()? {
            b'n' => Some(None),
            b's' => Some(Some(T::parse(p)?)),
            _ => None,
        }
    }
    fn modelled() -> bool {
        T::modelled()
    }
    fn vfields() -> bool {
        T::vfields()
    }
    fn f6_norm(&self) -> Self {
        self.as_ref().map(|t| t.f6_norm())
    }
}

impl<T: Fv> Fv for Vec<T> {
    fn ty() -> String {
        format!("*{}", T::ty())
    }
    fn gen(r: &mut Rng, d: u32) -> Self {
        let n = if d >= 3 {
            r.below(2)
        } else {
            match r.below(6) {
                0 | 1 => 0,
                2 => 1,
                3 => 2,
                _ => r.range(1, 4),
            }
        };
        (0..n).map(|_| T::gen(r, d + 1)).collect()
    }
    fn gen_top(r: &mut Rng) -> Self {
        let n = r.range(2, 4);
        (0..n).map(|_| T::gen(r, 1)).collect()
    }
    fn inst(&self, o: &mut String) {
        o.push('[');
        for (i, t) in self.iter().enumerate() {
            if i > 0 {
                o.push(',');
            }
            t.inst(o);
        }
        o.push(']');
    }
    fn parse(p: &mut P) -> Option<Self> {
        p.eat(b'[')?;
        let mut v = vec![];
        if p.eat(b']').is_some() {
            return Some(v);
        }
        loop {
            v.push(T::parse(p)?);
            if p.eat(b',').is_none() {
                break;
            }
        }
        p.eat(b']')?;
        Some(v)
    }
    fn modelled() -> bool {
        T::modelled()
    }
    fn vfields() -> bool {
        T::vfields()
    }
    fn f6_norm(&self) -> Self {
        self.iter().map(|t| t.f6_norm()).collect()
    }
}

// ---- types outside the Lean model's universe (exercised implementation-vs-implementation only)

impl Fv for f64 {
    fn ty() -> String {
        "x:f64".into()
    }
    fn gen(r: &mut Rng, _d: u32) -> Self {
        *r.pick(&[0.0, -0.0, 1.0, -1.5, 0.1, 1e300, -2.5e-8, 3.0, 1e15, 123456.789, f64::MAX, f64::MIN_POSITIVE])
    }
    fn inst(&self, o: &mut String) {
        o.push_str(&format!("f{:016x}", self.to_bits()));
    }
    fn parse(p: &mut P) -> Option<Self> {
        p.eat(b'f')?;
        let b = p.hex_bytes()?;
        if b.len() != 8 {
            return None;
        }
        let mut a = [0u8; 8];
        a.copy_from_slice(&b);
        Some(f64::from_bits(u64::from_be_bytes(a)))
    }
    fn modelled() -> bool {
        false
    }
}

impl Fv for Blob {
    fn ty() -> String {
        "x:blob".into()
    }
    fn gen(r: &mut Rng, _d: u32) -> Self {
        let n = *r.pick(&[0u64, 1, 2, 3, 5, 16]);
        Blob::from_vec((0..n).map(|_| r.below(256) as u8).collect())
    }
    fn inst(&self, o: &mut String) {
        o.push('d');
        o.push_str(&hexs(self.as_ref()));
    }
    fn parse(p: &mut P) -> Option<Self> {
        p.eat(b'd')?;
        Some(Blob::from_vec(p.hex_bytes()?))
    }
    fn modelled() -> bool {
        false
    }
}

impl Fv for BigInt {
    fn ty() -> String {
        "x:bigint".into()
    }
    fn gen(r: &mut Rng, _d: u32) -> Self {
        let pool = ["0", "1", "-1", "2147483648", "-9223372036854775809", "18446744073709551616", "340282366920938463463374607431768211456", "-5"];
        r.pick(&pool).parse().unwrap()
    }
    fn inst(&self, o: &mut String) {
        o.push_str(&format!("G{}", self));
    }
    fn parse(p: &mut P) -> Option<Self> {
        p.eat(b'G')?;
        p.int_text()?.parse().ok()
    }
    fn modelled() -> bool {
        false
    }
}

fn gen_value(r: &mut Rng, d: u32) -> Value {
    let k = if d >= 2 { r.below(6) } else { r.below(8) };
    match k {
        0 => Value::Extant,
        1 => Value::Int32Value(i32::gen(r, d)),
        2 => Value::text(String::gen(r, d)),
        3 => Value::BooleanValue(r.chance(1, 2)),
        // integers in the kind the materialiser gives them back (`recognize_item`): the instance text is compared
        4 => {
            let n = i64::gen(r, d);
            match i32::try_from(n) {
                Ok(m) => Value::Int32Value(m),
                Err(_) => Value::Int64Value(n),
            }
        }
        5 => {
            let n = u64::gen(r, d);
            if let Ok(m) = i32::try_from(n) {
                Value::Int32Value(m)
            } else if let Ok(m) = i64::try_from(n) {
                Value::Int64Value(m)
            } else {
                Value::UInt64Value(n)
            }
        }
        _ => {
            let na = r.below(3);
            let ni = r.below(4);
            let attrs = (0..na)
                .map(|_| Attr { name: Text::new(*r.pick(&["a", "tag", "S01", "x y"])), value: gen_value(r, d + 1) })
                .collect();
            let items = (0..ni)
                .map(|_| {
                    if r.chance(1, 2) {
                        Item::ValueItem(gen_value(r, d + 1))
                    } else {
                        Item::Slot(gen_value(r, d + 2), gen_value(r, d + 1))
                    }
                })
                .collect();
            Value::Record(attrs, items)
        }
    }
}

/// Equality of generic `Value` fields is the model's own `PartialEq` (integer kinds compare by number).
fn value_eq(a: &Value, b: &Value) -> bool {
    a == b
}

impl Fv for Value {
    fn ty() -> String {
        "x:value".into()
    }
    fn gen(r: &mut Rng, d: u32) -> Self {
        gen_value(r, d)
    }
    fn inst(&self, o: &mut String) {
        o.push('V');
        vrender(self, o);
    }
    fn parse(p: &mut P) -> Option<Self> {
        p.eat(b'V')?;
        vparse_p(p)
    }
    fn modelled() -> bool {
        false
    }
}

impl<K: Fv + Eq + Hash, T: Fv> Fv for HashMap<K, T> {
    fn ty() -> String {
        "x:map".into()
    }
    fn gen(r: &mut Rng, d: u32) -> Self {
        let n = r.below(4);
        (0..n).map(|_| (K::gen(r, d + 1), T::gen(r, d + 1))).collect()
    }
    fn gen_top(r: &mut Rng) -> Self {
        // 2-4 distinct keys (a few extra draws in case of collisions)
        let n = r.range(2, 4) as usize;
        let mut m = HashMap::new();
        for _ in 0..12 {
            if m.len() >= n {
                break;
            }
            m.insert(K::gen(r, 1), T::gen(r, 1));
        }
        m
    }
    fn inst(&self, o: &mut String) {
        let mut kv: Vec<(String, String)> = self
            .iter()
            .map(|(k, v)| {
                let (mut a, mut b) = (String::new(), String::new());
                k.inst(&mut a);
                v.inst(&mut b);
                (a, b)
            })
            .collect();
        kv.sort();
        o.push_str("m[");
        for (i, (k, v)) in kv.iter().enumerate() {
            if i > 0 {
                o.push(',');
            }
            o.push_str(k);
            o.push(':');
            o.push_str(v);
        }
        o.push(']');
    }
    fn parse(p: &mut P) -> Option<Self> {
        p.eat(b'm')?;
        p.eat(b'[')?;
        let mut m = HashMap::new();
        if p.eat(b']').is_some() {
            return Some(m);
        }
        loop {
            let k = K::parse(p)?;
            p.eat(b':')?;
            let v = T::parse(p)?;
            m.insert(k, v);
            if p.eat(b',').is_none() {
                break;
            }
        }
        p.eat(b']')?;
        Some(m)
    }
    fn modelled() -> bool {
        false
    }
    fn vfields() -> bool {
        T::vfields()
    }
    fn f6_norm(&self) -> Self {
        self.iter().map(|(k, t)| (k.clone(), t.f6_norm())).collect()
    }
}

/// Built-in tuples (`OrdinalFieldsRecognizer`); outside the Lean model.
impl<A: Fv, B: Fv> Fv for (A, B) {
    fn ty() -> String {
        "x:tuple".into()
    }
    fn gen(r: &mut Rng, d: u32) -> Self {
        (A::gen(r, d + 1), B::gen(r, d + 1))
    }
    fn inst(&self, o: &mut String) {
        o.push('<');
        self.0.inst(o);
        o.push(',');
        self.1.inst(o);
        o.push('>');
    }
    fn parse(p: &mut P) -> Option<Self> {
        p.eat(b'<')?;
        let a = A::parse(p)?;
        p.eat(b',')?;
        let b = B::parse(p)?;
        p.eat(b'>')?;
        Some((a, b))
    }
    fn modelled() -> bool {
        false
    }
}

impl<A: Fv, B: Fv, C: Fv> Fv for (A, B, C) {
    fn ty() -> String {
        "x:tuple".into()
    }
    fn gen(r: &mut Rng, d: u32) -> Self {
        (A::gen(r, d + 1), B::gen(r, d + 1), C::gen(r, d + 1))
    }
    fn inst(&self, o: &mut String) {
        o.push('<');
        self.0.inst(o);
        o.push(',');
        self.1.inst(o);
        o.push(',');
        self.2.inst(o);
        o.push('>');
    }
    fn parse(p: &mut P) -> Option<Self> {
        p.eat(b'<')?;
        let a = A::parse(p)?;
        p.eat(b',')?;
        let b = B::parse(p)?;
        p.eat(b',')?;
        let c = C::parse(p)?;
        p.eat(b'>')?;
        Some((a, b, c))
    }
    fn modelled() -> bool {
        false
    }
}

// ------------------------------------------------------------------------------------------ the battery

fn hx(s: &str) -> String {
    hexs(s.as_bytes())
}

/// Implements `Fv` for a struct with named fields. `$desc` builds the hand-written descriptor; `skip` lists the
/// `#[form(skip)]` fields (always generated with their default because a read can only produce the default).
macro_rules! bat_struct {
    ($name:ident $(<$($g:ident),*>)? { $($f:ident : $ft:ty),* } skip { $($s:ident),* } desc $desc:expr) => {
        impl$(<$($g: Fv + Form + Default),*>)? Fv for $name$(<$($g),*>)? {
            fn ty() -> String { $desc }
            #[allow(unused_mut, unused_variables)]
            fn gen(r: &mut Rng, d: u32) -> Self {
                let mut v = $name { $($f: <$ft as Fv>::gen(r, d + 1)),* };
                $( v.$s = Default::default(); )*
                v
            }
            #[allow(unused_mut, unused_assignments, unused_variables)]
            fn inst(&self, o: &mut String) {
                o.push('(');
                let mut first = true;
                $( if !first { o.push(','); } first = false; self.$f.inst(o); )*
                o.push(')');
            }
            #[allow(unused_mut, unused_assignments, unused_variables)]
            fn parse(p: &mut P) -> Option<Self> {
                p.eat(b'(')?;
                let mut first = true;
                $( if !first { p.eat(b',')?; } first = false; let $f = <$ft as Fv>::parse(p)?; )*
                p.eat(b')')?;
                Some($name { $($f),* })
            }
            fn modelled() -> bool { true $(&& <$ft as Fv>::modelled())* }
        }
    };
}

/// `Fv` for a struct outside the Lean model (no descriptor, no `Default` needed).
macro_rules! bat_struct_nodefault {
    ($name:ident { $($f:ident : $ft:ty),* }) => {
        impl Fv for $name {
            fn ty() -> String { "x:struct".into() }
            fn gen(r: &mut Rng, d: u32) -> Self { $name { $($f: <$ft as Fv>::gen(r, d + 1)),* } }
            fn gen_top(r: &mut Rng) -> Self { $name { $($f: <$ft as Fv>::gen_top(r)),* } }
            #[allow(unused_assignments)]
            fn inst(&self, o: &mut String) {
                o.push('(');
                let mut first = true;
                $( if !first { o.push(','); } first = false; self.$f.inst(o); )*
                o.push(')');
            }
            #[allow(unused_assignments)]
            fn parse(p: &mut P) -> Option<Self> {
                p.eat(b'(')?;
                let mut first = true;
                $( if !first { p.eat(b',')?; } first = false; let $f = <$ft as Fv>::parse(p)?; )*
                p.eat(b')')?;
                Some($name { $($f),* })
            }
            fn modelled() -> bool { false }
        }
    };
}

/// Same for tuple structs: `$i` are the tuple indices, `$v` fresh binder names.
macro_rules! bat_tuple {
    ($name:ident $(<$($g:ident),*>)? ( $($i:tt $v:ident : $ft:ty),* ) skip ( $($s:tt),* ) desc $desc:expr) => {
        impl$(<$($g: Fv + Form + Default),*>)? Fv for $name$(<$($g),*>)? {
            fn ty() -> String { $desc }
            #[allow(unused_mut, unused_variables)]
            fn gen(r: &mut Rng, d: u32) -> Self {
                let mut v = $name ( $(<$ft as Fv>::gen(r, d + 1)),* );
                $( v.$s = Default::default(); )*
                v
            }
            #[allow(unused_mut, unused_assignments, unused_variables)]
            fn inst(&self, o: &mut String) {
                o.push('(');
                let mut first = true;
                $( if !first { o.push(','); } first = false; self.$i.inst(o); )*
                o.push(')');
            }
            #[allow(unused_mut, unused_assignments, unused_variables)]
            fn parse(p: &mut P) -> Option<Self> {
                p.eat(b'(')?;
                let mut first = true;
                $( if !first { p.eat(b',')?; } first = false; let $v = <$ft as Fv>::parse(p)?; )*
                p.eat(b')')?;
                Some($name ( $($v),* ))
            }
            fn modelled() -> bool { true $(&& <$ft as Fv>::modelled())* }
        }
    };
}

/// `fld!(kind, "resolved name", Type)` -> descriptor of one field.
fn fd(kind: char, name: &str, ty: String) -> String {
    format!("{}{}={}", kind, hx(name), ty)
}
fn sd(form: char, tag: &str, fields: &[String]) -> String {
    format!("{}{}({})", form, hx(tag), fields.join(","))
}

// 1 plain
#[derive(Form, Clone, PartialEq, Eq, Hash, Debug, Default)]
struct S01 {
    a: i32,
    b: String,
}
bat_struct!(S01 { a: i32, b: String } skip {} desc sd('S', "S01", &[fd('s', "a", i32::ty()), fd('s', "b", String::ty())]));

// 2 tag rename
#[derive(Form, Clone, PartialEq, Debug, Default)]
#[form(tag = "renamed")]
struct S02 {
    a: i64,
    b: bool,
}
bat_struct!(S02 { a: i64, b: bool } skip {} desc sd('S', "renamed", &[fd('s', "a", i64::ty()), fd('s', "b", bool::ty())]));

// 3 field rename
#[derive(Form, Clone, PartialEq, Debug, Default)]
struct S03 {
    #[form(name = "alpha")]
    a: u32,
    b: u64,
}
bat_struct!(S03 { a: u32, b: u64 } skip {} desc sd('S', "S03", &[fd('s', "alpha", u32::ty()), fd('s', "b", u64::ty())]));

// 4 attr
#[derive(Form, Clone, PartialEq, Debug, Default)]
struct S04 {
    #[form(attr)]
    a: i32,
    b: String,
}
bat_struct!(S04 { a: i32, b: String } skip {} desc sd('S', "S04", &[fd('a', "a", i32::ty()), fd('s', "b", String::ty())]));

// 5 two attrs
#[derive(Form, Clone, PartialEq, Debug, Default)]
struct S05 {
    #[form(attr)]
    a: bool,
    #[form(attr)]
    b: String,
    c: i32,
}
bat_struct!(S05 { a: bool, b: String, c: i32 } skip {} desc sd('S', "S05", &[fd('a', "a", bool::ty()), fd('a', "b", String::ty()), fd('s', "c", i32::ty())]));

// 6 header slot
#[derive(Form, Clone, PartialEq, Debug, Default)]
struct S06 {
    #[form(header)]
    a: i32,
    b: String,
}
bat_struct!(S06 { a: i32, b: String } skip {} desc sd('S', "S06", &[fd('h', "a", i32::ty()), fd('s', "b", String::ty())]));

// 7 two header slots
#[derive(Form, Clone, PartialEq, Debug, Default)]
struct S07 {
    #[form(header)]
    node: String,
    #[form(header)]
    lane: String,
    c: i64,
}
bat_struct!(S07 { node: String, lane: String, c: i64 } skip {} desc sd('S', "S07", &[fd('h', "node", String::ty()), fd('h', "lane", String::ty()), fd('s', "c", i64::ty())]));

// 8 header body alone
#[derive(Form, Clone, PartialEq, Debug, Default)]
struct S08 {
    #[form(header_body)]
    a: i32,
    b: String,
}
bat_struct!(S08 { a: i32, b: String } skip {} desc sd('S', "S08", &[fd('H', "a", i32::ty()), fd('s', "b", String::ty())]));

// 9 header body + header slot
#[derive(Form, Clone, PartialEq, Debug, Default)]
struct S09 {
    #[form(header_body)]
    a: i32,
    #[form(header)]
    b: String,
    c: bool,
}
bat_struct!(S09 { a: i32, b: String, c: bool } skip {} desc sd('S', "S09", &[fd('H', "a", i32::ty()), fd('h', "b", String::ty()), fd('s', "c", bool::ty())]));

// 10 simple body replacement (the slot is promoted to the header)
#[derive(Form, Clone, PartialEq, Debug, Default)]
struct S10 {
    a: i32,
    #[form(body)]
    b: String,
}
bat_struct!(S10 { a: i32, b: String } skip {} desc sd('S', "S10", &[fd('s', "a", i32::ty()), fd('b', "b", String::ty())]));

// 11 body = nested struct, with an attribute
#[derive(Form, Clone, PartialEq, Debug, Default)]
struct S11 {
    #[form(attr)]
    a: i32,
    #[form(body)]
    b: S01,
}
bat_struct!(S11 { a: i32, b: S01 } skip {} desc sd('S', "S11", &[fd('a', "a", i32::ty()), fd('b', "b", S01::ty())]));

// 12 body = list
#[derive(Form, Clone, PartialEq, Debug, Default)]
struct S12 {
    h: i32,
    #[form(body)]
    b: Vec<i32>,
}
bat_struct!(S12 { h: i32, b: Vec<i32> } skip {} desc sd('S', "S12", &[fd('s', "h", i32::ty()), fd('b', "b", <Vec<i32>>::ty())]));

// 13 skip
#[derive(Form, Clone, PartialEq, Debug, Default)]
struct S13 {
    a: i32,
    #[form(skip)]
    b: i32,
    c: String,
}
bat_struct!(S13 { a: i32, b: i32, c: String } skip { b } desc sd('S', "S13", &[fd('s', "a", i32::ty()), fd('k', "b", i32::ty()), fd('s', "c", String::ty())]));

// 14 options in every position
#[derive(Form, Clone, PartialEq, Debug, Default)]
struct S14 {
    #[form(attr)]
    a: Option<i32>,
    #[form(header)]
    b: Option<String>,
    c: Option<i32>,
    d: Option<bool>,
}
bat_struct!(S14 { a: Option<i32>, b: Option<String>, c: Option<i32>, d: Option<bool> } skip {} desc
    sd('S', "S14", &[fd('a', "a", <Option<i32>>::ty()), fd('h', "b", <Option<String>>::ty()), fd('s', "c", <Option<i32>>::ty()), fd('s', "d", <Option<bool>>::ty())]));

// 15 optional header body
#[derive(Form, Clone, PartialEq, Debug, Default)]
struct S15 {
    #[form(header_body)]
    a: Option<i32>,
    b: i32,
}
bat_struct!(S15 { a: Option<i32>, b: i32 } skip {} desc sd('S', "S15", &[fd('H', "a", <Option<i32>>::ty()), fd('s', "b", i32::ty())]));

// 16 optional body
#[derive(Form, Clone, PartialEq, Debug, Default)]
struct S16 {
    #[form(body)]
    b: Option<i32>,
}
bat_struct!(S16 { b: Option<i32> } skip {} desc sd('S', "S16", &[fd('b', "b", <Option<i32>>::ty())]));

// 17 nesting in slots, lists of structs
#[derive(Form, Clone, PartialEq, Debug, Default)]
struct S17 {
    a: S01,
    b: Vec<S04>,
    c: Option<S06>,
}
bat_struct!(S17 { a: S01, b: Vec<S04>, c: Option<S06> } skip {} desc
    sd('S', "S17", &[fd('s', "a", S01::ty()), fd('s', "b", <Vec<S04>>::ty()), fd('s', "c", <Option<S06>>::ty())]));

// 18 collections in every position
#[derive(Form, Clone, PartialEq, Debug, Default)]
struct S18 {
    #[form(attr)]
    a: Vec<i32>,
    #[form(header_body)]
    b: Vec<String>,
    c: Vec<Vec<i32>>,
    d: Vec<Option<i32>>,
}
bat_struct!(S18 { a: Vec<i32>, b: Vec<String>, c: Vec<Vec<i32>>, d: Vec<Option<i32>> } skip {} desc
    sd('S', "S18", &[fd('a', "a", <Vec<i32>>::ty()), fd('H', "b", <Vec<String>>::ty()), fd('s', "c", <Vec<Vec<i32>>>::ty()), fd('s', "d", <Vec<Option<i32>>>::ty())]));

// 19 every field kind except body
#[derive(Form, Clone, PartialEq, Debug, Default)]
#[form(tag = "all")]
struct S19 {
    #[form(header_body)]
    hb: i32,
    #[form(header)]
    h1: String,
    #[form(attr)]
    a1: bool,
    #[form(attr, name = "A2")]
    a2: Option<u32>,
    s1: i64,
    #[form(skip)]
    k: u64,
    s2: Option<String>,
}
bat_struct!(S19 { hb: i32, h1: String, a1: bool, a2: Option<u32>, s1: i64, k: u64, s2: Option<String> } skip { k } desc
    sd('S', "all", &[fd('H', "hb", i32::ty()), fd('h', "h1", String::ty()), fd('a', "a1", bool::ty()), fd('a', "A2", <Option<u32>>::ty()),
        fd('s', "s1", i64::ty()), fd('k', "k", u64::ty()), fd('s', "s2", <Option<String>>::ty())]));

// 20 body + header body + header + attr + promoted slots on both sides of the body field
#[derive(Form, Clone, PartialEq, Debug, Default)]
struct S20 {
    #[form(header_body)]
    hb: i32,
    s_before: i32,
    #[form(header)]
    h: String,
    #[form(attr)]
    a: bool,
    #[form(body)]
    b: S01,
    s_after: u32,
}
bat_struct!(S20 { hb: i32, s_before: i32, h: String, a: bool, b: S01, s_after: u32 } skip {} desc
    sd('S', "S20", &[fd('H', "hb", i32::ty()), fd('s', "s_before", i32::ty()), fd('h', "h", String::ty()), fd('a', "a", bool::ty()),
        fd('b', "b", S01::ty()), fd('s', "s_after", u32::ty())]));

// 21 an attribute field whose name is the tag of the delegated body
#[derive(Form, Clone, PartialEq, Debug, Default)]
struct S21 {
    #[form(attr, name = "S01")]
    a: i32,
    #[form(body)]
    b: S01,
}
bat_struct!(S21 { a: i32, b: S01 } skip {} desc sd('S', "S21", &[fd('a', "S01", i32::ty()), fd('b', "b", S01::ty())]));

// 22 nested structs in attribute, header slot and header body
#[derive(Form, Clone, PartialEq, Debug, Default)]
struct S22 {
    #[form(attr)]
    a: S01,
    #[form(header)]
    h: S04,
    #[form(header_body)]
    hb: S06,
    s: i32,
}
bat_struct!(S22 { a: S01, h: S04, hb: S06, s: i32 } skip {} desc
    sd('S', "S22", &[fd('a', "a", S01::ty()), fd('h', "h", S04::ty()), fd('H', "hb", S06::ty()), fd('s', "s", i32::ty())]));

// 23 empty struct / unit struct
#[derive(Form, Clone, PartialEq, Debug, Default)]
struct S23 {}
bat_struct!(S23 {} skip {} desc sd('S', "S23", &[]));

#[derive(Form, Clone, PartialEq, Debug, Default)]
struct U01;
impl Fv for U01 {
    fn ty() -> String {
        format!("U{}", hx("U01"))
    }
    fn gen(_r: &mut Rng, _d: u32) -> Self {
        U01
    }
    fn inst(&self, o: &mut String) {
        o.push_str("()");
    }
    fn parse(p: &mut P) -> Option<Self> {
        p.eat(b'(')?;
        p.eat(b')')?;
        Some(U01)
    }
}

// 24 header body = nested struct alone; header slot list; attribute = option of struct
#[derive(Form, Clone, PartialEq, Debug, Default)]
struct S24 {
    #[form(header_body)]
    hb: S01,
    #[form(attr)]
    a: Option<S04>,
    s: Vec<String>,
}
bat_struct!(S24 { hb: S01, a: Option<S04>, s: Vec<String> } skip {} desc
    sd('S', "S24", &[fd('H', "hb", S01::ty()), fd('a', "a", <Option<S04>>::ty()), fd('s', "s", <Vec<String>>::ty())]));

// 25 header slots holding collections and options, body = option of struct
#[derive(Form, Clone, PartialEq, Debug, Default)]
struct S25 {
    #[form(header)]
    h1: Vec<i32>,
    #[form(header)]
    h2: Option<Vec<String>>,
    #[form(body)]
    b: Option<S01>,
}
bat_struct!(S25 { h1: Vec<i32>, h2: Option<Vec<String>>, b: Option<S01> } skip {} desc
    sd('S', "S25", &[fd('h', "h1", <Vec<i32>>::ty()), fd('h', "h2", <Option<Vec<String>>>::ty()), fd('b', "b", <Option<S01>>::ty())]));

// 26 body = list of structs, body = list of lists
#[derive(Form, Clone, PartialEq, Debug, Default)]
struct S26 {
    #[form(body)]
    b: Vec<S04>,
}
bat_struct!(S26 { b: Vec<S04> } skip {} desc sd('S', "S26", &[fd('b', "b", <Vec<S04>>::ty())]));

// 29 nested collections in attribute / header-body position (the flattened reading of an empty list)
#[derive(Form, Clone, PartialEq, Debug, Default)]
struct S29 {
    #[form(attr)]
    a: Vec<Vec<i32>>,
    s: i32,
}
bat_struct!(S29 { a: Vec<Vec<i32>>, s: i32 } skip {} desc sd('S', "S29", &[fd('a', "a", <Vec<Vec<i32>>>::ty()), fd('s', "s", i32::ty())]));

#[derive(Form, Clone, PartialEq, Debug, Default)]
struct S30 {
    #[form(header_body)]
    hb: Vec<Vec<i32>>,
    #[form(header)]
    h: Option<i32>,
    s: i32,
}
bat_struct!(S30 { hb: Vec<Vec<i32>>, h: Option<i32>, s: i32 } skip {} desc
    sd('S', "S30", &[fd('H', "hb", <Vec<Vec<i32>>>::ty()), fd('h', "h", <Option<i32>>::ty()), fd('s', "s", i32::ty())]));

// 31 header body = list with a mandatory header slot
#[derive(Form, Clone, PartialEq, Debug, Default)]
struct S31 {
    #[form(header_body)]
    hb: Vec<i32>,
    #[form(header)]
    h: i32,
    #[form(header)]
    g: Option<String>,
}
bat_struct!(S31 { hb: Vec<i32>, h: i32, g: Option<String> } skip {} desc
    sd('S', "S31", &[fd('H', "hb", <Vec<i32>>::ty()), fd('h', "h", i32::ty()), fd('h', "g", <Option<String>>::ty())]));

// 32 body = option of list
#[derive(Form, Clone, PartialEq, Debug, Default)]
struct S32 {
    #[form(attr)]
    a: i32,
    #[form(body)]
    b: Option<Vec<i32>>,
}
bat_struct!(S32 { a: i32, b: Option<Vec<i32>> } skip {} desc sd('S', "S32", &[fd('a', "a", i32::ty()), fd('b', "b", <Option<Vec<i32>>>::ty())]));

// 35 body = enum, one variant tag equals an attribute name of the container
#[derive(Form, Clone, PartialEq, Debug, Default)]
struct S35 {
    #[form(attr)]
    beta: i32,
    #[form(body)]
    b: E01,
}
bat_struct!(S35 { beta: i32, b: E01 } skip {} desc sd('S', "S35", &[fd('a', "beta", i32::ty()), fd('b', "b", E01::ty())]));

// 36 body = enum without clash, body = unit
#[derive(Form, Clone, PartialEq, Debug, Default)]
struct S36 {
    #[form(attr)]
    a: i32,
    h: String,
    #[form(body)]
    b: E02,
}
bat_struct!(S36 { a: i32, h: String, b: E02 } skip {} desc sd('S', "S36", &[fd('a', "a", i32::ty()), fd('s', "h", String::ty()), fd('b', "b", E02::ty())]));

#[derive(Form, Clone, PartialEq, Debug, Default)]
struct S37 {
    #[form(body)]
    b: (),
    #[form(skip)]
    k: Vec<i32>,
    o: Option<()>,
}
bat_struct!(S37 { b: (), k: Vec<i32>, o: Option<()> } skip { k } desc sd('S', "S37", &[fd('b', "b", <()>::ty()), fd('k', "k", <Vec<i32>>::ty()), fd('s', "o", <Option<()>>::ty())]));

// tuple structs
#[derive(Form, Clone, PartialEq, Debug, Default)]
struct T01(i32, String);
bat_tuple!(T01 (0 v0: i32, 1 v1: String) skip () desc sd('T', "T01", &[fd('s', "", i32::ty()), fd('s', "", String::ty())]));

#[derive(Form, Clone, PartialEq, Debug, Default)]
struct T02(i32, Option<i32>);
bat_tuple!(T02 (0 v0: i32, 1 v1: Option<i32>) skip () desc sd('T', "T02", &[fd('s', "", i32::ty()), fd('s', "", <Option<i32>>::ty())]));

#[derive(Form, Clone, PartialEq, Debug, Default)]
struct T03(#[form(attr, name = "a")] i32, i32, #[form(skip)] i32, String);
bat_tuple!(T03 (0 v0: i32, 1 v1: i32, 2 v2: i32, 3 v3: String) skip (2) desc
    sd('T', "T03", &[fd('a', "a", i32::ty()), fd('s', "", i32::ty()), fd('k', "", i32::ty()), fd('s', "", String::ty())]));

#[derive(Form, Clone, PartialEq, Debug, Default)]
struct T04(#[form(name = "x")] i32, #[form(name = "y")] Option<i32>);
bat_tuple!(T04 (0 v0: i32, 1 v1: Option<i32>) skip () desc sd('T', "T04", &[fd('s', "x", i32::ty()), fd('s', "y", <Option<i32>>::ty())]));

#[derive(Form, Clone, PartialEq, Debug, Default)]
struct T05(#[form(header_body)] i32, #[form(header, name = "h")] String, Vec<i32>);
bat_tuple!(T05 (0 v0: i32, 1 v1: String, 2 v2: Vec<i32>) skip () desc
    sd('T', "T05", &[fd('H', "", i32::ty()), fd('h', "h", String::ty()), fd('s', "", <Vec<i32>>::ty())]));

#[derive(Form, Clone, PartialEq, Debug, Default)]
struct T06(i32);
bat_tuple!(T06 (0 v0: i32) skip () desc sd('T', "T06", &[fd('s', "", i32::ty())]));

// newtypes
#[derive(Form, Clone, PartialEq, Debug, Default)]
#[form(newtype)]
struct N01(i32);
bat_tuple!(N01 (0 v0: i32) skip () desc sd('M', "N01", &[fd('s', "", i32::ty())]));

#[derive(Form, Clone, PartialEq, Debug, Default)]
#[form(newtype)]
struct N02 {
    inner: S04,
}
bat_struct!(N02 { inner: S04 } skip {} desc sd('N', "N02", &[fd('s', "inner", S04::ty())]));

#[derive(Form, Clone, PartialEq, Debug, Default)]
struct S27 {
    #[form(attr)]
    a: N01,
    n: N02,
    #[form(header)]
    h: Option<N01>,
}
bat_struct!(S27 { a: N01, n: N02, h: Option<N01> } skip {} desc
    sd('S', "S27", &[fd('a', "a", N01::ty()), fd('s', "n", N02::ty()), fd('h', "h", <Option<N01>>::ty())]));

// 33/34 newtype as delegated body: over a primitive and over a struct
#[derive(Form, Clone, PartialEq, Debug, Default)]
struct S33 {
    #[form(body)]
    b: N01,
}
bat_struct!(S33 { b: N01 } skip {} desc sd('S', "S33", &[fd('b', "b", N01::ty())]));

#[derive(Form, Clone, PartialEq, Debug, Default)]
struct S34 {
    #[form(attr)]
    a: i32,
    #[form(body)]
    b: N02,
}
bat_struct!(S34 { a: i32, b: N02 } skip {} desc sd('S', "S34", &[fd('a', "a", i32::ty()), fd('b', "b", N02::ty())]));

#[derive(Form, Clone, PartialEq, Debug, Default)]
#[form(newtype)]
struct N03(Vec<i32>, #[form(skip)] i32);
bat_tuple!(N03 (0 v0: Vec<i32>, 1 v1: i32) skip (1) desc sd('M', "N03", &[fd('s', "", <Vec<i32>>::ty()), fd('k', "", i32::ty())]));

#[derive(Form, Clone, PartialEq, Debug, Default)]
struct S38 {
    #[form(attr)]
    a: N03,
    #[form(header_body)]
    hb: Option<N03>,
    #[form(header)]
    h: N03,
    #[form(body)]
    b: N03,
}
bat_struct!(S38 { a: N03, hb: Option<N03>, h: N03, b: N03 } skip {} desc
    sd('S', "S38", &[fd('a', "a", N03::ty()), fd('H', "hb", <Option<N03>>::ty()), fd('h', "h", N03::ty()), fd('b', "b", N03::ty())]));

// enums
#[derive(Form, Clone, PartialEq, Eq, Hash, Debug)]
enum E01 {
    Alpha,
    #[form(tag = "beta")]
    Beta,
}
impl Default for E01 {
    fn default() -> Self {
        E01::Alpha
    }
}
impl Fv for E01 {
    fn ty() -> String {
        format!("E(U{}|U{})", hx("Alpha"), hx("beta"))
    }
    fn gen(r: &mut Rng, _d: u32) -> Self {
        if r.chance(1, 2) {
            E01::Alpha
        } else {
            E01::Beta
        }
    }
    fn inst(&self, o: &mut String) {
        o.push_str(match self {
            E01::Alpha => "#0()",
            E01::Beta => "#1()",
        });
    }
    fn parse(p: &mut P) -> Option<Self> {
        p.eat(b'#')?;
        let k = p.next()?;
        p.eat(b'(')?;
        p.eat(b')')?;
        match k {
            b'0' => Some(E01::Alpha),
            b'1' => Some(E01::Beta),
            _ => None,
        }
    }
}

#[derive(Form, Clone, PartialEq, Debug)]
enum E02 {
    A,
    B {
        #[form(header)]
        x: i32,
        y: String,
    },
    C(i32, String),
    #[form(tag = "dee")]
    D {
        #[form(attr)]
        a: Option<i32>,
        #[form(body)]
        b: Vec<i32>,
    },
    F {
        #[form(header_body)]
        hb: String,
        #[form(skip)]
        k: i32,
        s: Option<S01>,
    },
}
impl Default for E02 {
    fn default() -> Self {
        E02::A
    }
}
impl Fv for E02 {
    fn ty() -> String {
        format!(
            "E({}|{}|{}|{}|{})",
            format!("U{}", hx("A")),
            sd('S', "B", &[fd('h', "x", i32::ty()), fd('s', "y", String::ty())]),
            sd('T', "C", &[fd('s', "", i32::ty()), fd('s', "", String::ty())]),
            sd('S', "dee", &[fd('a', "a", <Option<i32>>::ty()), fd('b', "b", <Vec<i32>>::ty())]),
            sd('S', "F", &[fd('H', "hb", String::ty()), fd('k', "k", i32::ty()), fd('s', "s", <Option<S01>>::ty())]),
        )
    }
    fn gen(r: &mut Rng, d: u32) -> Self {
        match r.below(5) {
            0 => E02::A,
            1 => E02::B { x: Fv::gen(r, d + 1), y: Fv::gen(r, d + 1) },
            2 => E02::C(Fv::gen(r, d + 1), Fv::gen(r, d + 1)),
            3 => E02::D { a: Fv::gen(r, d + 1), b: Fv::gen(r, d + 1) },
            _ => E02::F { hb: Fv::gen(r, d + 1), k: 0, s: Fv::gen(r, d + 1) },
        }
    }
    fn inst(&self, o: &mut String) {
        match self {
            E02::A => o.push_str("#0()"),
            E02::B { x, y } => {
                o.push_str("#1(");
                x.inst(o);
                o.push(',');
                y.inst(o);
                o.push(')');
            }
            E02::C(x, y) => {
                o.push_str("#2(");
                x.inst(o);
                o.push(',');
                y.inst(o);
                o.push(')');
            }
            E02::D { a, b } => {
                o.push_str("#3(");
                a.inst(o);
                o.push(',');
                b.inst(o);
                o.push(')');
            }
            E02::F { hb, k, s } => {
                o.push_str("#4(");
                hb.inst(o);
                o.push(',');
                k.inst(o);
                o.push(',');
                s.inst(o);
                o.push(')');
            }
        }
    }
    fn parse(p: &mut P) -> Option<Self> {
        p.eat(b'#')?;
        let k = p.next()?;
        p.eat(b'(')?;
        let r = match k {
            b'0' => E02::A,
            b'1' => {
                let x = Fv::parse(p)?;
                p.eat(b',')?;
                let y = Fv::parse(p)?;
                E02::B { x, y }
            }
            b'2' => {
                let x = Fv::parse(p)?;
                p.eat(b',')?;
                let y = Fv::parse(p)?;
                E02::C(x, y)
            }
            b'3' => {
                let a = Fv::parse(p)?;
                p.eat(b',')?;
                let b = Fv::parse(p)?;
                E02::D { a, b }
            }
            b'4' => {
                let hb = Fv::parse(p)?;
                p.eat(b',')?;
                let k = Fv::parse(p)?;
                p.eat(b',')?;
                let s = Fv::parse(p)?;
                E02::F { hb, k, s }
            }
            _ => return None,
        };
        p.eat(b')')?;
        Some(r)
    }
}

#[derive(Form, Clone, PartialEq, Debug, Default)]
struct S28 {
    e: E01,
    #[form(attr)]
    f: E02,
    g: Vec<E02>,
    #[form(header)]
    o: Option<E01>,
}
bat_struct!(S28 { e: E01, f: E02, g: Vec<E02>, o: Option<E01> } skip {} desc
    sd('S', "S28", &[fd('s', "e", E01::ty()), fd('a', "f", E02::ty()), fd('s', "g", <Vec<E02>>::ty()), fd('h', "o", <Option<E01>>::ty())]));

// generics
#[derive(Form, Clone, PartialEq, Debug, Default)]
struct G1<T> {
    a: T,
    #[form(attr)]
    b: Option<T>,
    #[form(header)]
    c: Vec<T>,
}
bat_struct!(G1<T> { a: T, b: Option<T>, c: Vec<T> } skip {} desc
    sd('S', "G1", &[fd('s', "a", T::ty()), fd('a', "b", <Option<T>>::ty()), fd('h', "c", <Vec<T>>::ty())]));

#[derive(Form, Clone, PartialEq, Debug)]
enum G2<A, B> {
    L(A),
    R {
        #[form(header_body)]
        b: B,
        #[form(name = "other")]
        a: Option<A>,
    },
}
impl<A: Default, B> Default for G2<A, B> {
    fn default() -> Self {
        G2::L(A::default())
    }
}
impl<A: Fv + Form + Default, B: Fv + Form + Default> Fv for G2<A, B> {
    fn ty() -> String {
        format!(
            "E({}|{})",
            sd('T', "L", &[fd('s', "", A::ty())]),
            sd('S', "R", &[fd('H', "b", B::ty()), fd('s', "other", <Option<A>>::ty())])
        )
    }
    fn gen(r: &mut Rng, d: u32) -> Self {
        if r.chance(1, 2) {
            G2::L(Fv::gen(r, d + 1))
        } else {
            G2::R { b: Fv::gen(r, d + 1), a: Fv::gen(r, d + 1) }
        }
    }
    fn inst(&self, o: &mut String) {
        match self {
            G2::L(a) => {
                o.push_str("#0(");
                a.inst(o);
                o.push(')');
            }
            G2::R { b, a } => {
                o.push_str("#1(");
                b.inst(o);
                o.push(',');
                a.inst(o);
                o.push(')');
            }
        }
    }
    fn parse(p: &mut P) -> Option<Self> {
        p.eat(b'#')?;
        let k = p.next()?;
        p.eat(b'(')?;
        let r = match k {
            b'0' => G2::L(Fv::parse(p)?),
            b'1' => {
                let b = Fv::parse(p)?;
                p.eat(b',')?;
                let a = Fv::parse(p)?;
                G2::R { b, a }
            }
            _ => return None,
        };
        p.eat(b')')?;
        Some(r)
    }
    fn modelled() -> bool {
        A::modelled() && B::modelled()
    }
}

// every registry type also as the element of collections inside another struct (element recognisers are reset and
// reused from the second element on)
#[derive(Form, Clone, PartialEq, Debug)]
struct CW<T> {
    v: Vec<T>,
    o: Option<T>,
    #[form(header)]
    n: i32,
}
impl<T: Fv + Form> Fv for CW<T> {
    fn ty() -> String {
        sd('S', "CW", &[fd('s', "v", <Vec<T>>::ty()), fd('s', "o", <Option<T>>::ty()), fd('h', "n", i32::ty())])
    }
    fn gen(r: &mut Rng, d: u32) -> Self {
        CW { v: Fv::gen(r, d + 1), o: Fv::gen(r, d + 1), n: Fv::gen(r, d + 1) }
    }
    fn gen_top(r: &mut Rng) -> Self {
        CW { v: <Vec<T>>::gen_top(r), o: Fv::gen(r, 1), n: Fv::gen(r, 1) }
    }
    fn inst(&self, o: &mut String) {
        o.push('(');
        self.v.inst(o);
        o.push(',');
        self.o.inst(o);
        o.push(',');
        self.n.inst(o);
        o.push(')');
    }
    fn parse(p: &mut P) -> Option<Self> {
        p.eat(b'(')?;
        let v = Fv::parse(p)?;
        p.eat(b',')?;
        let o = Fv::parse(p)?;
        p.eat(b',')?;
        let n = Fv::parse(p)?;
        p.eat(b')')?;
        Some(CW { v, o, n })
    }
    fn modelled() -> bool {
        T::modelled()
    }
    fn vfields() -> bool {
        T::vfields()
    }
    fn f6_norm(&self) -> Self {
        CW { v: self.v.f6_norm(), o: self.o.f6_norm(), n: self.n }
    }
}

// ---- every hand-written Form impl of swimos_form for std / library types (tools/extractors/c16.py checks that each
// `impl StructuralWritable for X` / `impl RecognizerReadable for X` in the source has an entry here); all outside the
// Lean model: decided on the implementation by the round-trip monitor

impl Fv for usize {
    fn ty() -> String {
        "x:usize".into()
    }
    fn gen(r: &mut Rng, _d: u32) -> Self {
        gen_i64_in(r, 0, u64::MAX as i128) as usize
    }
    fn inst(&self, o: &mut String) {
        o.push_str(&format!("i{}", self));
    }
    fn parse(p: &mut P) -> Option<Self> {
        p.eat(b'i')?;
        p.int_text()?.parse().ok()
    }
    fn modelled() -> bool {
        false
    }
}

impl Fv for NonZeroUsize {
    fn ty() -> String {
        "x:nzusize".into()
    }
    fn gen(r: &mut Rng, _d: u32) -> Self {
        NonZeroUsize::new((gen_i64_in(r, 1, u64::MAX as i128) as usize).max(1)).unwrap()
    }
    fn inst(&self, o: &mut String) {
        o.push_str(&format!("i{}", self));
    }
    fn parse(p: &mut P) -> Option<Self> {
        p.eat(b'i')?;
        NonZeroUsize::new(p.int_text()?.parse().ok()?)
    }
    fn modelled() -> bool {
        false
    }
}

impl Fv for BigUint {
    fn ty() -> String {
        "x:biguint".into()
    }
    fn gen(r: &mut Rng, _d: u32) -> Self {
        let pool = ["0", "1", "255", "256", "4294967296", "18446744073709551615", "18446744073709551616", "340282366920938463463374607431768211456"];
        r.pick(&pool).parse().unwrap()
    }
    fn inst(&self, o: &mut String) {
        o.push_str(&format!("H{}", self));
    }
    fn parse(p: &mut P) -> Option<Self> {
        p.eat(b'H')?;
        p.int_text()?.parse().ok()
    }
    fn modelled() -> bool {
        false
    }
}

impl Fv for Text {
    fn ty() -> String {
        "x:text".into()
    }
    fn gen(r: &mut Rng, d: u32) -> Self {
        Text::new(&String::gen(r, d))
    }
    fn inst(&self, o: &mut String) {
        o.push('t');
        o.push_str(&hexs(self.as_str().as_bytes()));
    }
    fn parse(p: &mut P) -> Option<Self> {
        p.eat(b't')?;
        Some(Text::new(&p.hex_text()?))
    }
    fn modelled() -> bool {
        false
    }
}

impl Fv for RouteUri {
    fn ty() -> String {
        "x:uri".into()
    }
    fn gen(r: &mut Rng, _d: u32) -> Self {
        let pool = ["/", "/node", "/a/b/c", "swim:/unit/%20x", "/path?q=1", "/p#frag", "warp://host:9001/lane?x=y#f", "/~tilde"];
        loop {
            if let Ok(u) = r.pick(&pool).parse() {
                return u;
            }
        }
    }
    fn inst(&self, o: &mut String) {
        o.push('t');
        o.push_str(&hexs(self.as_str().as_bytes()));
    }
    fn parse(p: &mut P) -> Option<Self> {
        p.eat(b't')?;
        p.hex_text()?.parse().ok()
    }
    fn modelled() -> bool {
        false
    }
}

impl<T: Fv> Fv for Arc<T> {
    fn ty() -> String {
        T::ty()
    }
    fn gen(r: &mut Rng, d: u32) -> Self {
        Arc::new(T::gen(r, d))
    }
    fn inst(&self, o: &mut String) {
        (**self).inst(o)
    }
    fn parse(p: &mut P) -> Option<Self> {
        Some(Arc::new(T::parse(p)?))
    }
    fn modelled() -> bool {
        false
    }
}

impl Fv for Duration {
    fn ty() -> String {
        "x:duration".into()
    }
    fn gen(r: &mut Rng, _d: u32) -> Self {
        // fractional parts that are not whole micro- or milliseconds, the extremes of both fields
        let secs = *r.pick(&[0u64, 1, 59, 86_400, u32::MAX as u64, u64::MAX]);
        let nanos = *r.pick(&[0u32, 1, 999, 1_000, 1_001, 123_456_789, 500_000_000, 999_999_999]);
        Duration::new(secs, nanos)
    }
    fn inst(&self, o: &mut String) {
        o.push_str(&format!("D{}.{}", self.as_secs(), self.subsec_nanos()));
    }
    fn parse(p: &mut P) -> Option<Self> {
        p.eat(b'D')?;
        let s: u64 = p.int_text()?.parse().ok()?;
        p.eat(b'.')?;
        let n: u32 = p.int_text()?.parse().ok()?;
        Some(Duration::new(s, n))
    }
    fn modelled() -> bool {
        false
    }
}

impl Fv for Timestamp {
    fn ty() -> String {
        "x:timestamp".into()
    }
    fn gen(r: &mut Rng, _d: u32) -> Self {
        // microsecond resolution (what the representation keeps): whole seconds, fractional, before the epoch
        let micros = *r.pick(&[0i64, 1, 999_999, 1_000_000, 1_500_000, 1_700_000_000_123_456, -1, -1_000_000, -1_500_001, 253_402_300_799_999_999]);
        Timestamp::from(chrono::DateTime::<chrono::Utc>::from_timestamp_micros(micros).unwrap())
    }
    fn inst(&self, o: &mut String) {
        let dt: &chrono::DateTime<chrono::Utc> = self.as_ref();
        o.push_str(&format!("M{}.{}", dt.timestamp(), dt.timestamp_subsec_nanos()));
    }
    fn parse(p: &mut P) -> Option<Self> {
        p.eat(b'M')?;
        let s: i64 = p.int_text()?.parse().ok()?;
        p.eat(b'.')?;
        let n: u32 = p.int_text()?.parse().ok()?;
        Some(Timestamp::from(chrono::DateTime::<chrono::Utc>::from_timestamp(s, n)?))
    }
    fn modelled() -> bool {
        false
    }
}

impl<T: Fv> Fv for Quantity<T> {
    fn ty() -> String {
        "x:quantity".into()
    }
    fn gen(r: &mut Rng, d: u32) -> Self {
        if r.chance(1, 3) {
            Quantity::Infinite
        } else {
            Quantity::Finite(T::gen(r, d + 1))
        }
    }
    fn inst(&self, o: &mut String) {
        match self {
            Quantity::Infinite => o.push_str("Qinf"),
            Quantity::Finite(t) => {
                o.push_str("Qf");
                t.inst(o)
            }
        }
    }
    fn parse(p: &mut P) -> Option<Self> {
        p.eat(b'Q')?;
        match p.next()? {
            b'i' => {
                p.eat(b'n')?;
                p.eat(b'f')?;
                Some(Quantity::Infinite)
            }
            b'f' => Some(Quantity::Finite(T::parse(p)?)),
            _ => None,
        }
    }
    fn modelled() -> bool {
        false
    }
}

impl Fv for RetryStrategy {
    fn ty() -> String {
        "x:retry".into()
    }
    fn gen(r: &mut Rng, d: u32) -> Self {
        match r.below(4) {
            0 => RetryStrategy::none(),
            1 => RetryStrategy::immediate(NonZeroUsize::gen(r, d)),
            2 => RetryStrategy::interval(Duration::gen(r, d), <Quantity<NonZeroUsize>>::gen(r, d)),
            _ => RetryStrategy::exponential(Duration::gen(r, d), <Quantity<Duration>>::gen(r, d)),
        }
    }
    fn inst(&self, o: &mut String) {
        match self {
            RetryStrategy::None(_) => o.push_str("Rn"),
            RetryStrategy::Interval(s) => {
                o.push_str("Ri(");
                s.retry.inst(o);
                o.push(',');
                s.delay.inst(o);
                o.push(')');
            }
            RetryStrategy::Exponential(s) => {
                o.push_str("Re(");
                s.max_interval.inst(o);
                o.push(',');
                s.max_backoff.inst(o);
                o.push(')');
            }
        }
    }
    fn parse(p: &mut P) -> Option<Self> {
        p.eat(b'R')?;
        match p.next()? {
            b'n' => Some(RetryStrategy::none()),
            b'i' => {
                p.eat(b'(')?;
                let retry = <Quantity<usize>>::parse(p)?;
                p.eat(b',')?;
                let delay = <Option<Duration>>::parse(p)?;
                p.eat(b')')?;
                let mut s = RetryStrategy::default_interval();
                if let RetryStrategy::Interval(i) = &mut s {
                    i.retry = retry;
                    i.delay = delay;
                }
                Some(s)
            }
            b'e' => {
                p.eat(b'(')?;
                let a = Duration::parse(p)?;
                p.eat(b',')?;
                let b = <Quantity<Duration>>::parse(p)?;
                p.eat(b')')?;
                Some(RetryStrategy::exponential(a, b))
            }
            _ => None,
        }
    }
    fn modelled() -> bool {
        false
    }
}

impl<A: Fv> Fv for (A,) {
    fn ty() -> String {
        "x:tuple".into()
    }
    fn gen(r: &mut Rng, d: u32) -> Self {
        (A::gen(r, d + 1),)
    }
    fn inst(&self, o: &mut String) {
        o.push('<');
        self.0.inst(o);
        o.push('>');
    }
    fn parse(p: &mut P) -> Option<Self> {
        p.eat(b'<')?;
        let a = A::parse(p)?;
        p.eat(b'>')?;
        Some((a,))
    }
    fn modelled() -> bool {
        false
    }
}

type Tup12 = (i32, String, bool, u64, Option<i32>, Vec<i32>, i64, u32, S01, (i32, String), E01, ());
impl Fv for Tup12 {
    fn ty() -> String {
        "x:tuple".into()
    }
    fn gen(r: &mut Rng, d: u32) -> Self {
        let d = d + 1;
        (Fv::gen(r, d), Fv::gen(r, d), Fv::gen(r, d), Fv::gen(r, d), Fv::gen(r, d), Fv::gen(r, d), Fv::gen(r, d),
            Fv::gen(r, d), Fv::gen(r, d), Fv::gen(r, d), Fv::gen(r, d), Fv::gen(r, d))
    }
    fn inst(&self, o: &mut String) {
        o.push('<');
        self.0.inst(o); o.push(','); self.1.inst(o); o.push(','); self.2.inst(o); o.push(','); self.3.inst(o); o.push(',');
        self.4.inst(o); o.push(','); self.5.inst(o); o.push(','); self.6.inst(o); o.push(','); self.7.inst(o); o.push(',');
        self.8.inst(o); o.push(','); self.9.inst(o); o.push(','); self.10.inst(o); o.push(','); self.11.inst(o);
        o.push('>');
    }
    fn parse(p: &mut P) -> Option<Self> {
        p.eat(b'<')?;
        let a = Fv::parse(p)?; p.eat(b',')?;
        let b = Fv::parse(p)?; p.eat(b',')?;
        let c = Fv::parse(p)?; p.eat(b',')?;
        let d = Fv::parse(p)?; p.eat(b',')?;
        let e = Fv::parse(p)?; p.eat(b',')?;
        let f = Fv::parse(p)?; p.eat(b',')?;
        let g = Fv::parse(p)?; p.eat(b',')?;
        let h = Fv::parse(p)?; p.eat(b',')?;
        let i = Fv::parse(p)?; p.eat(b',')?;
        let j = Fv::parse(p)?; p.eat(b',')?;
        let k = Fv::parse(p)?; p.eat(b',')?;
        let l = Fv::parse(p)?;
        p.eat(b'>')?;
        Some((a, b, c, d, e, f, g, h, i, j, k, l))
    }
    fn modelled() -> bool {
        false
    }
}

/// `Vec<u8>`, `Box<[u8]>`, `Blob`: the three byte-blob impls side by side
#[derive(Form, Clone, PartialEq, Debug, Default)]
struct X08 {
    a: Vec<u8>,
    #[form(attr)]
    b: Box<[u8]>,
    #[form(header)]
    c: Blob,
}
impl Fv for X08 {
    fn ty() -> String {
        "x:blobs".into()
    }
    fn gen(r: &mut Rng, d: u32) -> Self {
        X08 { a: Blob::gen(r, d).into_vec(), b: Blob::gen(r, d).into_vec().into_boxed_slice(), c: Blob::gen(r, d) }
    }
    fn inst(&self, o: &mut String) {
        o.push_str(&format!("(d{},d{},d{})", hexs(&self.a), hexs(&self.b), hexs(self.c.as_ref())));
    }
    fn parse(p: &mut P) -> Option<Self> {
        p.eat(b'(')?;
        p.eat(b'd')?;
        let a = p.hex_bytes()?;
        p.eat(b',')?;
        p.eat(b'd')?;
        let b = p.hex_bytes()?.into_boxed_slice();
        p.eat(b',')?;
        p.eat(b'd')?;
        let c = Blob::from_vec(p.hex_bytes()?);
        p.eat(b')')?;
        Some(X08 { a, b, c })
    }
    fn modelled() -> bool {
        false
    }
}

/// the library types in slot / attribute / header / body positions of derived structs
#[derive(Form, Clone, PartialEq, Debug)]
struct X09 {
    #[form(attr)]
    d: Duration,
    #[form(header)]
    t: Timestamp,
    q: Quantity<u64>,
    u: RouteUri,
    z: usize,
    n: NonZeroUsize,
    g: BigUint,
    x: Text,
    a: Arc<S04>,
    r: RetryStrategy,
}
bat_struct_nodefault!(X09 { d: Duration, t: Timestamp, q: Quantity<u64>, u: RouteUri, z: usize, n: NonZeroUsize, g: BigUint, x: Text, a: Arc<S04>, r: RetryStrategy });

#[derive(Form, Clone, PartialEq, Debug)]
struct X10 {
    #[form(header_body)]
    t: Timestamp,
    #[form(body)]
    d: Duration,
}
bat_struct_nodefault!(X10 { t: Timestamp, d: Duration });

/// maps with compound keys in slot, attribute and body position
#[derive(Form, Clone, PartialEq, Debug, Default)]
struct X11 {
    #[form(attr)]
    index: HashMap<(i32, i32), String>,
    by_struct: HashMap<S01, i32>,
    by_list: HashMap<Vec<i32>, E01>,
}
bat_struct_nodefault!(X11 { index: HashMap<(i32, i32), String>, by_struct: HashMap<S01, i32>, by_list: HashMap<Vec<i32>, E01> });

#[derive(Form, Clone, PartialEq, Debug, Default)]
struct X12 {
    #[form(attr)]
    a: i32,
    #[form(body)]
    b: HashMap<E01, (i32, String)>,
}
bat_struct_nodefault!(X12 { a: i32, b: HashMap<E01, (i32, String)> });


// ------------------------------------------------------------------------------------------ generic `Value` fields
// Derived types with a field of the generic model type `Value` in every position the derive supports (battery X02, X03,
// X13..X21). Their cases use the `vrt` op. The generator concentrates on the boundary shapes of the recognisers for
// `Value` fields (`DelegateBodyMaterializer`, `AttrBodyMaterializer`, `ValueMaterializer`): Extant, primitives, `{}`,
// attributes with 0 / exactly 1 value item / exactly 1 slot / 2 items, no attributes with 0 / 1 / 2 items, a single
// item that is itself a record, nesting to depth 3. Integers are generated in the kind the materialiser gives back.

fn gen_bprim(r: &mut Rng) -> Value {
    match r.below(10) {
        0 => Value::Extant,
        1 | 2 | 3 => Value::Int32Value(*r.pick(&[0, 1, 5, -1, 3, i32::MAX, i32::MIN])),
        4 => Value::Int64Value(*r.pick(&[1i64 << 40, i64::MIN, -(1i64 << 33)])),
        5 => Value::UInt64Value(*r.pick(&[u64::MAX, 1u64 << 63])),
        6 => Value::BooleanValue(r.chance(1, 2)),
        _ => Value::text(*r.pick(&["a", "", "x y", "update", "k", "true", "5"])),
    }
}

fn gen_battrs(r: &mut Rng, n: u64, depth: u32) -> Vec<Attr> {
    (0..n)
        .map(|_| {
            let value = if depth == 0 || r.chance(2, 3) {
                if r.chance(2, 3) { Value::Extant } else { gen_bprim(r) }
            } else {
                gen_bvalue(r, depth - 1)
            };
            Attr { name: Text::new(*r.pick(&["a", "b", "update", "k v", "remove"])), value }
        })
        .collect()
}

fn gen_bitem_value(r: &mut Rng, depth: u32) -> Value {
    if depth == 0 || r.chance(1, 2) { gen_bprim(r) } else { gen_bvalue(r, depth - 1) }
}

fn gen_bslot(r: &mut Rng, depth: u32) -> Item {
    let key = if r.chance(4, 5) { Value::text(*r.pick(&["k", "key", "value", "a"])) } else { gen_bitem_value(r, depth.min(1)) };
    Item::Slot(key, gen_bitem_value(r, depth))
}

fn gen_bitem(r: &mut Rng, depth: u32) -> Item {
    if r.chance(1, 2) { Item::ValueItem(gen_bitem_value(r, depth)) } else { gen_bslot(r, depth) }
}

/// `depth` = how many more levels of records may be nested below this one.
fn gen_bvalue(r: &mut Rng, depth: u32) -> Value {
    let na = r.range(1, 2);
    match r.below(18) {
        0 => Value::Extant,
        1 | 2 => gen_bprim(r),
        3 => Value::Record(vec![], vec![]),
        // attributes and no items: `@a`
        4 => Value::Record(gen_battrs(r, na, depth), vec![]),
        // attributes and exactly one value item: `@update 5`, `@a @b 3`
        5 | 6 | 7 => Value::Record(gen_battrs(r, na, depth), vec![Item::ValueItem(gen_bitem_value(r, depth))]),
        // attributes and exactly one slot: `@a {k:1}`
        8 => Value::Record(gen_battrs(r, na, depth), vec![gen_bslot(r, depth)]),
        // attributes and two items
        9 => Value::Record(gen_battrs(r, na, depth), vec![gen_bitem(r, depth), gen_bitem(r, depth)]),
        // no attributes, one value item / one slot / two items
        10 => Value::Record(vec![], vec![Item::ValueItem(gen_bitem_value(r, depth))]),
        11 => Value::Record(vec![], vec![gen_bslot(r, depth)]),
        12 => Value::Record(vec![], vec![gen_bitem(r, depth), gen_bitem(r, depth)]),
        // a single item that is itself a record (with and without attributes around it)
        13 | 14 => {
            let inner = match r.below(4) {
                0 => Value::Record(vec![], vec![]),
                1 => Value::Record(vec![], vec![Item::ValueItem(gen_bprim(r))]),
                2 => Value::Record(gen_battrs(r, 1, 0), vec![Item::ValueItem(gen_bprim(r))]),
                _ if depth > 0 => gen_bvalue(r, depth - 1),
                _ => Value::Record(vec![], vec![gen_bslot(r, 0)]),
            };
            let attrs = if r.chance(1, 2) { gen_battrs(r, 1, 0) } else { vec![] };
            Value::Record(attrs, vec![Item::ValueItem(inner)])
        }
        _ => {
            let (a, n) = (r.below(3), r.below(4));
            let attrs = gen_battrs(r, a, depth);
            Value::Record(attrs, (0..n).map(|_| gen_bitem(r, depth)).collect())
        }
    }
}

fn gen_bv(r: &mut Rng) -> Value {
    gen_bvalue(r, 2)
}
/// `Some(Extant)` is excluded: an `Option` of a type that reads `Extant` cannot tell it from `None`
/// (C16_option_of_unit_fails, inherent).
fn gen_bopt(r: &mut Rng) -> Option<Value> {
    if r.chance(1, 4) {
        return None;
    }
    loop {
        let v = gen_bv(r);
        if v != Value::Extant {
            return Some(v);
        }
    }
}
fn gen_bvec(r: &mut Rng) -> Vec<Value> {
    let n = r.below(4);
    (0..n).map(|_| gen_bv(r)).collect()
}
fn gen_bstr(r: &mut Rng) -> String {
    String::gen(r, 1)
}
fn gen_bi32(r: &mut Rng) -> i32 {
    i32::gen(r, 1)
}

/// What C16-F6 documents for a `#[form(body)]` field of type `Value` (one step, as the code does).
fn f6v(v: &Value) -> Value {
    match v {
        Value::Record(attrs, items) if attrs.is_empty() && items.len() <= 1 => match items.first() {
            None => Value::Extant,
            Some(Item::ValueItem(x)) => x.clone(),
            Some(_) => v.clone(),
        },
        _ => v.clone(),
    }
}

/// `Fv` for a struct with `Value` fields: per field its generator; `f6` lists the `#[form(body)]` fields of type `Value`.
macro_rules! bat_vstruct {
    ($name:ident { $($f:ident : $ft:ty = $g:expr),* } f6 { $($b:ident),* }) => {
        impl Fv for $name {
            fn ty() -> String { "x:vstruct".into() }
            fn gen(r: &mut Rng, _d: u32) -> Self { $name { $($f: ($g)(r)),* } }
            #[allow(unused_assignments)]
            fn inst(&self, o: &mut String) {
                o.push('(');
                let mut first = true;
                $( if !first { o.push(','); } first = false; self.$f.inst(o); )*
                o.push(')');
            }
            #[allow(unused_assignments)]
            fn parse(p: &mut P) -> Option<Self> {
                p.eat(b'(')?;
                let mut first = true;
                $( if !first { p.eat(b',')?; } first = false; let $f = <$ft as Fv>::parse(p)?; )*
                p.eat(b')')?;
                Some($name { $($f),* })
            }
            fn modelled() -> bool { false }
            fn vfields() -> bool { true }
            #[allow(unused_mut)]
            fn f6_norm(&self) -> Self {
                let mut v = self.clone();
                $( v.$b = f6v(&v.$b); )*
                v
            }
        }
    };
}
macro_rules! bat_vtuple {
    ($name:ident ( $($i:tt $v:ident : $ft:ty = $g:expr),* )) => {
        impl Fv for $name {
            fn ty() -> String { "x:vtuple".into() }
            fn gen(r: &mut Rng, _d: u32) -> Self { $name ( $(($g)(r)),* ) }
            #[allow(unused_assignments)]
            fn inst(&self, o: &mut String) {
                o.push('(');
                let mut first = true;
                $( if !first { o.push(','); } first = false; self.$i.inst(o); )*
                o.push(')');
            }
            #[allow(unused_assignments)]
            fn parse(p: &mut P) -> Option<Self> {
                p.eat(b'(')?;
                let mut first = true;
                $( if !first { p.eat(b',')?; } first = false; let $v = <$ft as Fv>::parse(p)?; )*
                p.eat(b')')?;
                Some($name ( $($v),* ))
            }
            fn modelled() -> bool { false }
            fn vfields() -> bool { true }
        }
    };
}

// the shape of the map / value lane messages: tag, header slot, delegated generic body
#[derive(Form, Clone, PartialEq, Debug)]
#[form(tag = "envelope")]
struct X13 {
    #[form(header)]
    node: String,
    #[form(body)]
    payload: Value,
}
bat_vstruct!(X13 { node: String = gen_bstr, payload: Value = gen_bv } f6 { payload });

// header slot (next to a non-generic header body), attribute, plain slot
#[derive(Form, Clone, PartialEq, Debug)]
struct X14 {
    #[form(header_body)]
    hb: i32,
    #[form(header)]
    h: Value,
    #[form(attr)]
    at: Value,
    s: Value,
}
bat_vstruct!(X14 { hb: i32 = gen_bi32, h: Value = gen_bv, at: Value = gen_bv, s: Value = gen_bv } f6 {});

// generic header body FOLLOWED BY a header slot (C16-F22: not readable from a Value / from MessagePack)
#[derive(Form, Clone, PartialEq, Debug)]
struct X22 {
    #[form(header_body)]
    hb: Value,
    #[form(header)]
    h: i32,
}
bat_vstruct!(X22 { hb: Value = gen_bv, h: i32 = gen_bi32 } f6 {});

#[derive(Form, Clone, PartialEq, Debug)]
#[form(tag = "opt")]
struct X15 {
    o: Option<Value>,
    #[form(name = "list")]
    v: Vec<Value>,
    #[form(header)]
    n: i32,
}
bat_vstruct!(X15 { o: Option<Value> = gen_bopt, v: Vec<Value> = gen_bvec, n: i32 = gen_bi32 } f6 {});

#[derive(Form, Clone, PartialEq, Debug)]
struct X16(Value, Value);
bat_vtuple!(X16 (0 v0: Value = gen_bv, 1 v1: Value = gen_bv));

#[derive(Form, Clone, PartialEq, Debug)]
#[form(newtype)]
struct X17(Value);
bat_vtuple!(X17 (0 v0: Value = gen_bv));

// delegated generic body next to an attribute and a header body, renamed tag
#[derive(Form, Clone, PartialEq, Debug)]
#[form(tag = "upd")]
struct X18 {
    #[form(attr)]
    q: i32,
    #[form(header_body)]
    key: i32,
    #[form(body)]
    b: Value,
}
bat_vstruct!(X18 { q: i32 = gen_bi32, key: i32 = gen_bi32, b: Value = gen_bv } f6 { b });

// generic header body, attribute, slot and optional slot with a renamed tag and renamed fields
#[derive(Form, Clone, PartialEq, Debug)]
#[form(tag = "vals")]
struct X19 {
    #[form(header_body, name = "HB")]
    hb: Value,
    #[form(attr, name = "meta")]
    at: Value,
    #[form(name = "slot")]
    s: Value,
    #[form(name = "o")]
    o: Option<Value>,
}
bat_vstruct!(X19 { hb: Value = gen_bv, at: Value = gen_bv, s: Value = gen_bv, o: Option<Value> = gen_bopt } f6 {});

// tuple struct with a generic header and a generic delegated body
#[derive(Form, Clone, PartialEq, Debug)]
#[form(tag = "tb")]
struct X20(#[form(header, name = "h")] Value, #[form(body)] Value);
impl Fv for X20 {
    fn ty() -> String {
        "x:vtuple".into()
    }
    fn gen(r: &mut Rng, _d: u32) -> Self {
        X20(gen_bv(r), gen_bv(r))
    }
    fn inst(&self, o: &mut String) {
        o.push('(');
        self.0.inst(o);
        o.push(',');
        self.1.inst(o);
        o.push(')');
    }
    fn parse(p: &mut P) -> Option<Self> {
        p.eat(b'(')?;
        let a = <Value as Fv>::parse(p)?;
        p.eat(b',')?;
        let b = <Value as Fv>::parse(p)?;
        p.eat(b')')?;
        Some(X20(a, b))
    }
    fn modelled() -> bool {
        false
    }
    fn vfields() -> bool {
        true
    }
    fn f6_norm(&self) -> Self {
        X20(self.0.clone(), f6v(&self.1))
    }
}

// enum in the shape of the map operations: generic key in the header, generic delegated body
#[derive(Form, Clone, PartialEq, Debug)]
enum X21 {
    #[form(tag = "put")]
    Put {
        #[form(header)]
        key: Value,
        #[form(body)]
        value: Value,
    },
    #[form(tag = "del")]
    Del {
        #[form(header_body)]
        key: Value,
    },
    #[form(tag = "set")]
    Set(Value),
    #[form(tag = "clr")]
    Clr,
}
impl Fv for X21 {
    fn ty() -> String {
        "x:venum".into()
    }
    fn gen(r: &mut Rng, _d: u32) -> Self {
        match r.below(7) {
            0 | 1 | 2 => X21::Put { key: gen_bv(r), value: gen_bv(r) },
            3 | 4 => X21::Del { key: gen_bv(r) },
            5 => X21::Set(gen_bv(r)),
            _ => X21::Clr,
        }
    }
    fn inst(&self, o: &mut String) {
        match self {
            X21::Put { key, value } => {
                o.push_str("e0(");
                key.inst(o);
                o.push(',');
                value.inst(o);
                o.push(')');
            }
            X21::Del { key } => {
                o.push_str("e1(");
                key.inst(o);
                o.push(')');
            }
            X21::Set(v) => {
                o.push_str("e2(");
                v.inst(o);
                o.push(')');
            }
            X21::Clr => o.push_str("e3()"),
        }
    }
    fn parse(p: &mut P) -> Option<Self> {
        p.eat(b'e')?;
        let k = p.next()?;
        p.eat(b'(')?;
        let out = match k {
            b'0' => {
                let key = <Value as Fv>::parse(p)?;
                p.eat(b',')?;
                let value = <Value as Fv>::parse(p)?;
                X21::Put { key, value }
            }
            b'1' => X21::Del { key: <Value as Fv>::parse(p)? },
            b'2' => X21::Set(<Value as Fv>::parse(p)?),
            b'3' => X21::Clr,
            _ => return None,
        };
        p.eat(b')')?;
        Some(out)
    }
    fn modelled() -> bool {
        false
    }
    fn vfields() -> bool {
        true
    }
    fn f6_norm(&self) -> Self {
        match self {
            X21::Put { key, value } => X21::Put { key: key.clone(), value: f6v(value) },
            ow => ow.clone(),
        }
    }
}

// ---- outside the model's universe
#[derive(Form, Clone, PartialEq, Debug, Default)]
struct X01 {
    a: f64,
    #[form(attr)]
    b: Blob,
    #[form(header)]
    c: BigInt,
}
bat_struct!(X01 { a: f64, b: Blob, c: BigInt } skip {} desc
    sd('S', "X01", &[fd('s', "a", f64::ty()), fd('a', "b", Blob::ty()), fd('h', "c", BigInt::ty())]));

#[derive(Form, Clone, Debug, Default)]
struct X02 {
    #[form(attr)]
    a: Value,
    #[form(header_body)]
    h: Value,
    s: Value,
}
impl PartialEq for X02 {
    fn eq(&self, o: &X02) -> bool {
        value_eq(&self.a, &o.a) && value_eq(&self.h, &o.h) && value_eq(&self.s, &o.s)
    }
}
bat_vstruct!(X02 { a: Value = gen_bv, h: Value = gen_bv, s: Value = gen_bv } f6 {});

#[derive(Form, Clone, Debug, Default)]
struct X03 {
    #[form(body)]
    b: Value,
}
impl PartialEq for X03 {
    fn eq(&self, o: &X03) -> bool {
        value_eq(&self.b, &o.b)
    }
}
bat_vstruct!(X03 { b: Value = gen_bv } f6 { b });

#[derive(Form, Clone, PartialEq, Debug, Default)]
struct X04 {
    m: HashMap<String, i32>,
    #[form(attr)]
    n: HashMap<String, i32>,
}
bat_struct!(X04 { m: HashMap<String, i32>, n: HashMap<String, i32> } skip {} desc
    sd('S', "X04", &[fd('s', "m", <HashMap<String, i32>>::ty()), fd('a', "n", <HashMap<String, i32>>::ty())]));

#[derive(Form, Clone, PartialEq, Debug, Default)]
struct X05 {
    #[form(body)]
    b: Blob,
}
bat_struct!(X05 { b: Blob } skip {} desc sd('S', "X05", &[fd('b', "b", Blob::ty())]));

#[derive(Form, Clone, PartialEq, Debug, Default)]
struct X06 {
    #[form(body)]
    b: BigInt,
}
bat_struct!(X06 { b: BigInt } skip {} desc sd('S', "X06", &[fd('b', "b", BigInt::ty())]));

#[derive(Tag, Clone, Copy, PartialEq, Eq, Debug)]
enum Level {
    #[form(tag = "info")]
    Info,
    #[form(tag = "warn")]
    Warn,
}
impl Default for Level {
    fn default() -> Self {
        Level::Info
    }
}
#[derive(Form, Clone, PartialEq, Debug, Default)]
struct X07 {
    #[form(tag)]
    level: Level,
    #[form(header)]
    time: i64,
    message: String,
}
impl Fv for Level {
    fn ty() -> String {
        "x:tag".into()
    }
    fn gen(r: &mut Rng, _d: u32) -> Self {
        if r.chance(1, 2) {
            Level::Info
        } else {
            Level::Warn
        }
    }
    fn inst(&self, o: &mut String) {
        o.push_str(match self {
            Level::Info => "L0",
            Level::Warn => "L1",
        });
    }
    fn parse(p: &mut P) -> Option<Self> {
        p.eat(b'L')?;
        match p.next()? {
            b'0' => Some(Level::Info),
            b'1' => Some(Level::Warn),
            _ => None,
        }
    }
    fn modelled() -> bool {
        false
    }
}
bat_struct!(X07 { level: Level, time: i64, message: String } skip {} desc
    sd('S', "", &[fd('g', "level", Level::ty()), fd('h', "time", i64::ty()), fd('s', "message", String::ty())]));

// ------------------------------------------------------------------------------------------ type-erased operations

fn res<T: Fv>(r: Result<T, impl Debug>) -> String {
    match r {
        Ok(t) => {
            let mut s = String::from("ok:");
            t.inst(&mut s);
            s
        }
        Err(_) => "err".into(),
    }
}

fn guard(f: impl FnOnce() -> String) -> String {
    match catch_unwind(AssertUnwindSafe(f)) {
        Ok(s) => s,
        Err(_) => "panic".into(),
    }
}

trait Ops {
    fn name(&self) -> &'static str;
    fn desc(&self) -> String;
    fn modelled(&self) -> bool;
    fn gen(&self, r: &mut Rng) -> String;
    fn av(&self, inst: &str) -> String;
    fn fv(&self, value: &str) -> String;
    fn rt(&self, inst: &str) -> String;
    fn pr(&self, style: &str, inst: &str) -> String;
    fn txt(&self, hex_text: &str) -> String;
    fn mp(&self, inst: &str) -> String;
    fn mr(&self, hex_bytes: &str) -> String;
    fn seq(&self, hex_texts: &str) -> String;
    fn vfields(&self) -> bool;
    fn vrt(&self, inst: &str) -> String;
}

/// The texts as successive frames of ONE `WithLenRecognizerDecoder` (one recogniser instance, reset between frames).
fn decode_frames<T: Form>(texts: &[String]) -> Vec<Option<T>> {
    use tokio_util::codec::Decoder;
    let mut buf = BytesMut::new();
    for t in texts {
        buf.put_u64(t.len() as u64);
        buf.put_slice(t.as_bytes());
    }
    let mut dec = swimos_recon::WithLenRecognizerDecoder::new(T::make_recognizer());
    let mut out: Vec<Option<T>> = vec![];
    let mut guard_n = 0;
    while out.len() < texts.len() && guard_n < 4 * texts.len() + 4 {
        guard_n += 1;
        let before = buf.len();
        match dec.decode(&mut buf) {
            Ok(Some(v)) => out.push(Some(v)),
            Err(_) => out.push(None),
            Ok(None) => {
                if buf.len() == before {
                    out.push(dec.decode_eof(&mut buf).ok().flatten());
                    break;
                }
            }
        }
    }
    while out.len() < texts.len() {
        out.push(None);
    }
    out
}

struct Bat<T>(&'static str, PhantomData<T>);

fn parse_inst<T: Fv>(s: &str) -> Option<T> {
    let mut p = P::new(s);
    let t = T::parse(&mut p)?;
    if p.done() {
        Some(t)
    } else {
        None
    }
}

fn msgpack_bytes<T: StructuralWritable>(t: &T) -> Result<Vec<u8>, MsgPackWriteError> {
    let mut buffer = BytesMut::new();
    let mut writer = (&mut buffer).writer();
    let interp = MsgPackInterpreter::new(&mut writer);
    t.write_with(interp)?;
    Ok(buffer.to_vec())
}

fn mp_err(e: &MsgPackWriteError) -> &'static str {
    match e {
        MsgPackWriteError::IoError(_) => "io",
        MsgPackWriteError::BigIntTooLarge(_) => "bigint",
        MsgPackWriteError::BigUIntTooLarge(_) => "biguint",
        MsgPackWriteError::TooManyAttrs(_) => "too-many-attrs",
        MsgPackWriteError::TooManyItems(_) => "too-many-items",
        MsgPackWriteError::WrongNumberOfAttrs => "wrong-number-of-attrs",
        MsgPackWriteError::IncorrectRecordKind => "incorrect-record-kind",
        MsgPackWriteError::WrongNumberOfItems => "wrong-number-of-items",
    }
}

impl<T: Fv + Form + 'static> Ops for Bat<T> {
    fn name(&self) -> &'static str {
        self.0
    }
    fn desc(&self) -> String {
        T::ty()
    }
    fn modelled(&self) -> bool {
        T::modelled()
    }
    fn gen(&self, r: &mut Rng) -> String {
        let mut s = String::new();
        T::gen_top(r).inst(&mut s);
        s
    }
    fn av(&self, inst: &str) -> String {
        match parse_inst::<T>(inst) {
            None => "bad-op".into(),
            Some(t) => guard(|| vstr(&t.as_value())),
        }
    }
    fn fv(&self, value: &str) -> String {
        match vparse(value) {
            None => "bad-op".into(),
            Some(v) => guard(|| res(T::try_from_value(&v)).replacen("ok:", "ok ", 1)),
        }
    }
    fn rt(&self, inst: &str) -> String {
        let t = match parse_inst::<T>(inst) {
            None => return "bad-op".into(),
            Some(t) => t,
        };
        guard(|| {
            let mut bad: Vec<&str> = vec![];
            let v = t.as_value();
            if T::try_from_value(&v).ok().as_ref() != Some(&t) {
                bad.push("as_value/try_from_value");
            }
            let v2 = t.clone().into_value();
            if !value_eq(&v, &v2) {
                bad.push("into_value!=as_value");
            }
            if T::try_convert(v2).ok().as_ref() != Some(&t) {
                bad.push("into_value/try_convert");
            }
            if bad.is_empty() {
                "ok".into()
            } else {
                "mismatch".into()
            }
        })
    }
    fn pr(&self, style: &str, inst: &str) -> String {
        let t = match parse_inst::<T>(inst) {
            None => return "bad-op".into(),
            Some(t) => t,
        };
        guard(|| {
            let s = match style {
                "0" => format!("{}", print_recon(&t)),
                "1" => format!("{}", print_recon_compact(&t)),
                _ => format!("{}", print_recon_pretty(&t)),
            };
            hex(s.as_bytes())
        })
    }
    fn txt(&self, hex_text: &str) -> String {
        let text = match unhex(hex_text).and_then(|b| String::from_utf8(b).ok()) {
            None => return "bad-op".into(),
            Some(t) => t,
        };
        let a = guard(|| res(parse_recognize::<T>(text.as_str(), false)));
        let b = guard(|| match parse_recognize::<Value>(text.as_str(), false) {
            Err(_) => "noparse".into(),
            Ok(v) => res(T::try_from_value(&v)),
        });
        format!("A={} B={} c={}", a, b, text_class(&text))
    }
    fn mp(&self, inst: &str) -> String {
        let t = match parse_inst::<T>(inst) {
            None => return "bad-op".into(),
            Some(t) => t,
        };
        guard(|| match msgpack_bytes(&t) {
            Ok(b) => hex(&b),
            Err(e) => format!("err:{}", mp_err(&e)),
        })
    }
    fn mr(&self, hex_bytes: &str) -> String {
        let b = match unhex(hex_bytes) {
            None => return "bad-op".into(),
            Some(b) => b,
        };
        guard(|| {
            let mut buf = bytes::Bytes::from(b);
            res(read_from_msg_pack::<T, _>(&mut buf)).replacen("ok:", "ok ", 1)
        })
    }
    fn seq(&self, hex_texts: &str) -> String {
        // the same texts read (R) as successive frames of ONE `WithLenRecognizerDecoder` (one recogniser instance, reset
        // between frames) and (F) each by a fresh `parse_recognize`
        let texts: Option<Vec<String>> =
            hex_texts.split(',').map(|h| unhex(h).and_then(|b| String::from_utf8(b).ok())).collect();
        let texts = match texts {
            None => return "bad-op".into(),
            Some(t) => t,
        };
        let fresh: Vec<String> = texts.iter().map(|t| guard(|| res(parse_recognize::<T>(t.as_str(), false)))).collect();
        let reused = guard(|| {
            use tokio_util::codec::Decoder;
            let mut buf = BytesMut::new();
            for t in &texts {
                buf.put_u64(t.len() as u64);
                buf.put_slice(t.as_bytes());
            }
            let mut dec = swimos_recon::WithLenRecognizerDecoder::new(T::make_recognizer());
            let mut out: Vec<String> = vec![];
            let mut guard_n = 0;
            while out.len() < texts.len() && guard_n < 4 * texts.len() + 4 {
                guard_n += 1;
                let before = buf.len();
                match dec.decode(&mut buf) {
                    Ok(Some(v)) => out.push(res::<T>(Ok::<T, ()>(v))),
                    Err(_) => out.push("err".into()),
                    Ok(None) => {
                        if buf.len() == before {
                            match dec.decode_eof(&mut buf) {
                                Ok(Some(v)) => out.push(res::<T>(Ok::<T, ()>(v))),
                                _ => out.push("err".into()),
                            }
                            break;
                        }
                    }
                }
            }
            while out.len() < texts.len() {
                out.push("missing".into());
            }
            out.join("|")
        });
        format!("R={} F={}", reused, fresh.join("|"))
    }
    fn vfields(&self) -> bool {
        T::vfields()
    }
    /// Every conversion path on one instance, each result compared with the instance: `ok` or
    /// `mismatch:<paths> c=<f6|->` (`c=f6`: every wrong result is exactly what C16-F6 documents, see `Fv::f6_norm`).
    fn vrt(&self, inst: &str) -> String {
        let t = match parse_inst::<T>(inst) {
            None => return "bad-op".into(),
            Some(t) => t,
        };
        guard(|| {
            let n = t.f6_norm();
            let mut bad: Vec<String> = vec![];
            let mut unexplained = false;
            let mut chk = |name: &str, r: Option<T>| {
                if r.as_ref() != Some(&t) {
                    bad.push(name.to_string());
                    if r.as_ref() != Some(&n) {
                        unexplained = true;
                    }
                }
            };
            // model
            let v = t.as_value();
            chk("model", T::try_from_value(&v).ok());
            let v2 = t.clone().into_value();
            if !value_eq(&v, &v2) {
                chk("into_value!=as_value", None);
            }
            chk("convert", T::try_convert(v2).ok());
            // Recon, three printers, two reading paths
            let texts = [format!("{}", print_recon(&t)), format!("{}", print_recon_compact(&t)), format!("{}", print_recon_pretty(&t))];
            // (relative to C09: only for texts that the generic parser reads back as the value that was printed; what the
            // printer / parser do to generic values is C09's business, e.g. `{{5}}` printed as `{5}` after an attribute)
            let mut recon_ok = vec![];
            for (i, s) in texts.iter().enumerate() {
                if parse_recognize::<Value>(s.as_str(), false).ok().as_ref() != Some(&v) {
                    continue;
                }
                recon_ok.push(s.clone());
                chk(&format!("recon{}", i), parse_recognize::<T>(s.as_str(), false).ok());
                chk(
                    &format!("recon{}v", i),
                    parse_recognize::<Value>(s.as_str(), false).ok().and_then(|v| T::try_from_value(&v).ok()),
                );
            }
            // one recogniser instance, reset between two frames
            if let Some(s) = recon_ok.first() {
                let frames = decode_frames::<T>(&[s.clone(), s.clone()]);
                for (i, f) in frames.into_iter().enumerate() {
                    chk(&format!("reused{}", i), f);
                }
            }
            // MessagePack, typed reader and generic reader + try_from_value
            match msgpack_bytes(&t) {
                Ok(b) => {
                    let mut buf = bytes::Bytes::from(b.clone());
                    chk("msgpack", read_from_msg_pack::<T, _>(&mut buf).ok());
                    let mut buf = bytes::Bytes::from(b);
                    chk("msgpackv", read_from_msg_pack::<Value, _>(&mut buf).ok().and_then(|v| T::try_from_value(&v).ok()));
                }
                Err(_) => chk("msgpack-write", None),
            }
            if bad.is_empty() {
                "ok".into()
            } else {
                format!("mismatch:{} c={}", bad.join(","), if unexplained { "-" } else { "f6" })
            }
        })
    }
}

macro_rules! reg {
    ($($name:literal => $t:ty),* $(,)?) => {
        vec![$(
            Box::new(Bat::<$t>($name, PhantomData)) as Box<dyn Ops>,
            Box::new(Bat::<Vec<$t>>(concat!("V:", $name), PhantomData)) as Box<dyn Ops>,
            Box::new(Bat::<Option<$t>>(concat!("O:", $name), PhantomData)) as Box<dyn Ops>,
            Box::new(Bat::<CW<$t>>(concat!("C:", $name), PhantomData)) as Box<dyn Ops>,
            Box::new(Bat::<HashMap<String, $t>>(concat!("M:", $name), PhantomData)) as Box<dyn Ops>
        ),*]
    };
}

/// Every base type `T` is registered five times: `T`, `V:T` = `Vec<T>` (2-4 elements), `O:T` = `Option<T>`,
/// `C:T` = a struct with `Vec<T>` and `Option<T>` fields, `M:T` = `HashMap<String, T>`.
fn registry() -> Vec<Box<dyn Ops>> {
    let all = reg![
        "S01" => S01, "S02" => S02, "S03" => S03, "S04" => S04, "S05" => S05, "S06" => S06, "S07" => S07, "S08" => S08,
        "S09" => S09, "S10" => S10, "S11" => S11, "S12" => S12, "S13" => S13, "S14" => S14, "S15" => S15, "S16" => S16,
        "S17" => S17, "S18" => S18, "S19" => S19, "S20" => S20, "S21" => S21, "S22" => S22, "S23" => S23, "U01" => U01,
        "S24" => S24, "S25" => S25, "S26" => S26, "S29" => S29, "S30" => S30, "S31" => S31, "S32" => S32,
        "S33" => S33, "S34" => S34, "S35" => S35, "S36" => S36, "S37" => S37, "S38" => S38, "N03" => N03,
        "T01" => T01, "T02" => T02, "T03" => T03, "T04" => T04, "T05" => T05, "T06" => T06,
        "N01" => N01, "N02" => N02, "S27" => S27,
        "E01" => E01, "E02" => E02, "S28" => S28,
        "G1i" => G1<i32>, "G1t" => G1<String>, "G1s" => G1<S04>, "G1o" => G1<Vec<i32>>,
        "G2a" => G2<i32, String>, "G2b" => G2<S01, Vec<i32>>,
        "Pi32" => i32, "Pu64" => u64, "Ptext" => String, "Pbool" => bool, "Popt" => Option<i32>, "Plist" => Vec<S01>,
        "Ptup2" => (i32, String), "Ptup3" => (S06, Option<i32>, Vec<i32>),
        "X01" => X01, "X02" => X02, "X03" => X03, "X04" => X04, "X05" => X05, "X06" => X06, "X07" => X07,
        // library types with hand-written impls, compound-key maps
        "X08" => X08, "X09" => X09, "X10" => X10, "X11" => X11, "X12" => X12,
        "Lusize" => usize, "Lnz" => NonZeroUsize, "Lbiguint" => BigUint, "Lbigint" => BigInt, "Lf64" => f64, "Lunit" => (),
        "Ltext" => Text, "Luri" => RouteUri, "Larc" => Arc<S06>, "Lblob" => Blob, "Lvalue" => Value, "Li64" => i64, "Lu32" => u32,
        "Ldur" => Duration, "Ltime" => Timestamp, "Lquant" => Quantity<Duration>, "Lquant2" => Quantity<S01>, "Lretry" => RetryStrategy,
        "Ptup1" => (Duration,), "Ptup12" => Tup12,
        "Kmap2" => HashMap<(i32, i32), String>, "KmapS" => HashMap<S01, Duration>, "KmapV" => HashMap<Vec<i32>, i32>,
        "KmapE" => HashMap<E01, Vec<i32>>, "KmapO" => HashMap<Option<i32>, bool>,
        // generic `Value` fields in every position (with X02, X03)
        "X13" => X13, "X14" => X14, "X15" => X15, "X16" => X16, "X17" => X17, "X18" => X18, "X19" => X19, "X20" => X20,
        "X21" => X21, "X22" => X22,
    ];
    // `Option<Option<_>>` is the `Option` of a type that reads `Extant` (C16_option_of_unit_fails): not registered
    // (same for `Option<()>` and `Option<Value>`)
    all.into_iter().filter(|e| !["O:Popt", "O:Lunit", "O:Lvalue", "O:X17"].contains(&e.name())).collect()
}

// ------------------------------------------------------------------------------------------ mutations

fn mutate_value(r: &mut Rng, v: &Value, depth: u32) -> Value {
    // structural mutations keeping the result a valid Value
    match v {
        Value::Record(attrs, items) => {
            let mut attrs = attrs.clone();
            let mut items = items.clone();
            // descend sometimes
            if depth < 3 && r.chance(2, 5) {
                let n = attrs.len() + items.len();
                if n > 0 {
                    let k = r.below(n as u64) as usize;
                    if k < attrs.len() {
                        attrs[k].value = mutate_value(r, &attrs[k].value, depth + 1);
                    } else {
                        let j = k - attrs.len();
                        items[j] = match &items[j] {
                            Item::ValueItem(x) => Item::ValueItem(mutate_value(r, x, depth + 1)),
                            Item::Slot(k2, x) => {
                                if r.chance(1, 4) {
                                    Item::Slot(mutate_value(r, k2, depth + 1), x.clone())
                                } else {
                                    Item::Slot(k2.clone(), mutate_value(r, x, depth + 1))
                                }
                            }
                        };
                    }
                    return Value::Record(attrs, items);
                }
            }
            match r.below(14) {
                0 if !items.is_empty() => {
                    let k = r.below(items.len() as u64) as usize;
                    items.remove(k);
                }
                1 if !items.is_empty() => {
                    let k = r.below(items.len() as u64) as usize;
                    let it = items[k].clone();
                    items.push(it);
                }
                2 if items.len() > 1 => {
                    let k = r.below(items.len() as u64 - 1) as usize;
                    items.swap(k, k + 1);
                }
                3 if items.len() > 1 => {
                    items.reverse();
                }
                4 if !attrs.is_empty() => {
                    let k = r.below(attrs.len() as u64) as usize;
                    attrs.remove(k);
                }
                5 if attrs.len() > 1 => {
                    let k = r.below(attrs.len() as u64 - 1) as usize;
                    attrs.swap(k, k + 1);
                }
                6 if !attrs.is_empty() => {
                    let k = r.below(attrs.len() as u64) as usize;
                    let a = attrs[k].clone();
                    attrs.push(a);
                }
                7 => {
                    attrs.push(Attr { name: Text::new(*r.pick(&["a", "zz", "S01", "b"])), value: Value::Extant });
                }
                8 => {
                    items.push(Item::ValueItem(gen_small(r)));
                }
                9 => {
                    items.push(Item::Slot(Value::text(*r.pick(&["a", "b", "zz", "c"])), gen_small(r)));
                }
                10 if !attrs.is_empty() => {
                    // rename tag / attribute
                    let k = r.below(attrs.len() as u64) as usize;
                    attrs[k].name = Text::new(*r.pick(&["a", "S01", "other", ""]));
                }
                11 if !items.is_empty() => {
                    // slot <-> value item
                    let k = r.below(items.len() as u64) as usize;
                    items[k] = match &items[k] {
                        Item::ValueItem(x) => Item::Slot(Value::text(*r.pick(&["a", "b", "c"])), x.clone()),
                        Item::Slot(_, x) => Item::ValueItem(x.clone()),
                    };
                }
                12 if !attrs.is_empty() => {
                    // wrap / unwrap the attribute body in a record (header flattening ambiguity)
                    let k = r.below(attrs.len() as u64) as usize;
                    attrs[k].value = match &attrs[k].value {
                        Value::Record(a, it) if a.is_empty() && it.len() == 1 => match &it[0] {
                            Item::ValueItem(x) => x.clone(),
                            _ => Value::Record(vec![], vec![Item::ValueItem(attrs[k].value.clone())]),
                        },
                        x => Value::Record(vec![], vec![Item::ValueItem(x.clone())]),
                    };
                }
                _ => return gen_small(r),
            }
            Value::Record(attrs, items)
        }
        Value::Int32Value(n) => match r.below(6) {
            0 => Value::Int64Value(*n as i64),
            1 if *n >= 0 => Value::UInt32Value(*n as u32),
            2 if *n >= 0 => Value::UInt64Value(*n as u64),
            3 => Value::Int64Value(*n as i64 + (1i64 << 40)),
            _ => gen_small(r),
        },
        Value::Int64Value(n) => match r.below(5) {
            0 if i32::try_from(*n).is_ok() => Value::Int32Value(*n as i32),
            1 if *n >= 0 => Value::UInt64Value(*n as u64),
            2 => Value::Int64Value(n.wrapping_add(1)),
            _ => gen_small(r),
        },
        Value::UInt32Value(n) => match r.below(5) {
            0 => Value::Int64Value(*n as i64),
            1 => Value::UInt64Value(*n as u64),
            2 if i32::try_from(*n).is_ok() => Value::Int32Value(*n as i32),
            _ => gen_small(r),
        },
        Value::UInt64Value(n) => match r.below(5) {
            0 if i64::try_from(*n).is_ok() => Value::Int64Value(*n as i64),
            1 if u32::try_from(*n).is_ok() => Value::UInt32Value(*n as u32),
            2 if i32::try_from(*n).is_ok() => Value::Int32Value(*n as i32),
            _ => gen_small(r),
        },
        _ => gen_small(r),
    }
}

fn gen_small(r: &mut Rng) -> Value {
    match r.below(9) {
        0 => Value::Extant,
        1 => Value::Int32Value(*r.pick(&[0, 1, -1, 7, i32::MAX, i32::MIN])),
        2 => Value::Int64Value(*r.pick(&[0, 5, -3, i64::MAX, i64::MIN, 1 << 33])),
        3 => Value::UInt32Value(*r.pick(&[0, 3, u32::MAX])),
        4 => Value::UInt64Value(*r.pick(&[0, 9, u64::MAX, 1 << 40])),
        5 => Value::BooleanValue(r.chance(1, 2)),
        6 => Value::text(*r.pick(STRINGS)),
        7 => Value::Record(vec![], vec![]),
        _ => Value::Record(vec![], vec![Item::ValueItem(Value::Int32Value(1)), Item::ValueItem(Value::Int32Value(2))]),
    }
}

fn mutate_text(r: &mut Rng, s: &str) -> String {
    let chars: Vec<char> = s.chars().collect();
    let n = chars.len();
    let pick_pos = |r: &mut Rng| if n == 0 { 0 } else { r.below(n as u64 + 1) as usize };
    let mut out: Vec<char> = chars.clone();
    match r.below(12) {
        0 if n > 0 => {
            out.truncate(r.below(n as u64) as usize);
        }
        1 if n > 0 => {
            out.remove(r.below(n as u64) as usize);
        }
        2 => {
            let p = pick_pos(r);
            out.insert(p, *r.pick(&['{', '}', '(', ')', '@', ':', ',', ';', ' ', '\n', '"', '1', 'a', '-', '%', '#']));
        }
        3 if n > 0 => {
            let p = r.below(n as u64) as usize;
            out[p] = *r.pick(&['{', '}', '(', ')', '@', ':', ',', ';', ' ', '"', '0', 'z']);
        }
        4 => {
            // whitespace / separator variants
            return s.replace(',', ";");
        }
        5 => {
            return s.replace(',', "\n").replace('{', "{\n");
        }
        6 => {
            // header flattening: "(x)" <-> "({x})"
            if let (Some(a), Some(b)) = (s.find('('), s.find(')')) {
                if a < b {
                    let inner = &s[a + 1..b];
                    let new_inner = if inner.starts_with('{') && inner.ends_with('}') && inner.len() >= 2 {
                        inner[1..inner.len() - 1].to_string()
                    } else {
                        format!("{{{}}}", inner)
                    };
                    return format!("{}({}){}", &s[..a], new_inner, &s[b + 1..]);
                }
            }
            return format!(" {} ", s);
        }
        7 => {
            return format!("{} {}", s, r.pick(&["1", "x", "@a", "{", "}", ",", "garbage:1"]));
        }
        8 => {
            // add empty parens after the first attribute / remove them
            if let Some(p) = s.find(' ') {
                return format!("{}(){}", &s[..p], &s[p..]);
            }
            return format!("{}()", s);
        }
        9 => {
            // duplicate a chunk
            if n > 2 {
                let a = r.below(n as u64 - 1) as usize;
                let b = a + 1 + r.below((n - a - 1) as u64) as usize;
                let chunk: Vec<char> = chars[a..b].to_vec();
                let mut o2 = chars[..b].to_vec();
                o2.extend(chunk);
                o2.extend_from_slice(&chars[b..]);
                return o2.into_iter().collect();
            }
        }
        10 => {
            return s.replace(' ', "");
        }
        _ => {
            return s.replace(':', " : ").replace('{', " { ").replace('}', " } ");
        }
    }
    out.into_iter().collect()
}

/// Lexical class of a Recon text (labels for triage of two-path disagreements, not used by the monitor's verdict):
/// `e` an attribute without body or with `()`; `s` an attribute body made only of separators; `m` an attribute body
/// with several top-level items that is not wrapped in braces.
fn text_class(t: &str) -> String {
    let cs: Vec<char> = t.chars().collect();
    let (mut e, mut sflag, mut m) = (false, false, false);
    let mut i = 0;
    let n = cs.len();
    let skip_str = |i: &mut usize| {
        // at an opening quote
        *i += 1;
        while *i < n && cs[*i] != '"' {
            if cs[*i] == '\\' {
                *i += 1;
            }
            *i += 1;
        }
        *i += 1;
    };
    while i < n {
        if cs[i] == '"' {
            skip_str(&mut i);
            continue;
        }
        if cs[i] == '@' {
            i += 1;
            if i < n && cs[i] == '"' {
                skip_str(&mut i);
            } else {
                while i < n && (cs[i].is_alphanumeric() || cs[i] == '_' || !cs[i].is_ascii()) {
                    i += 1;
                }
            }
            if i < n && cs[i] == '(' {
                // scan the body
                let mut depth = 0i32;
                let mut j = i + 1;
                let (mut seps, mut other, mut braced_only) = (0, 0, true);
                let mut top_items_started = false;
                while j < n {
                    let c = cs[j];
                    if c == '"' {
                        let mut k = j;
                        skip_str(&mut k);
                        if depth == 0 {
                            other += 1;
                            braced_only = false;
                        }
                        j = k;
                        continue;
                    }
                    if depth == 0 && c == ')' {
                        break;
                    }
                    if c == '(' || c == '{' {
                        if depth == 0 && c == '(' {
                            braced_only = false;
                        }
                        if depth == 0 && top_items_started {
                            // a second top-level group
                        }
                        depth += 1;
                        if depth == 1 {
                            other += 1;
                            top_items_started = true;
                        }
                    } else if c == ')' || c == '}' {
                        depth -= 1;
                    } else if depth == 0 {
                        if c == ',' || c == ';' || c == '\n' {
                            if c != '\n' {
                                seps += 1;
                            }
                        } else if !c.is_whitespace() {
                            other += 1;
                            braced_only = false;
                        }
                    }
                    j += 1;
                }
                if other == 0 && seps == 0 {
                    e = true;
                } else if other == 0 {
                    sflag = true;
                } else if seps > 0 && !(braced_only && other == 1) {
                    m = true;
                }
                // continue INSIDE the body: attributes nested in it are classified too
                i += 1;
            } else {
                e = true;
            }
            continue;
        }
        i += 1;
    }
    let mut o = String::new();
    if e {
        o.push('e');
    }
    if sflag {
        o.push('s');
    }
    if m {
        o.push('m');
    }
    if o.is_empty() {
        o.push('-');
    }
    o
}

fn mutate_bytes(r: &mut Rng, b: &[u8]) -> Vec<u8> {
    let mut o = b.to_vec();
    let n = o.len();
    match r.below(5) {
        0 if n > 0 => o.truncate(r.below(n as u64) as usize),
        1 if n > 0 => {
            let p = r.below(n as u64) as usize;
            o[p] = o[p].wrapping_add(*r.pick(&[1u8, 0xff, 0x10, 0x80]));
        }
        2 if n > 0 => {
            o.remove(r.below(n as u64) as usize);
        }
        3 => {
            let p = r.below(n as u64 + 1) as usize;
            o.insert(p, *r.pick(&[0x80u8, 0x90, 0x92, 0xc0, 0x01, 0xa1, 0x61, 0xc4, 0xdf]));
        }
        _ => o.push(*r.pick(&[0xc0u8, 0x00, 0x80])),
    }
    o
}

// ------------------------------------------------------------------------------------------ driver

fn exec(reg: &[Box<dyn Ops>], op: &str) -> String {
    let parts: Vec<&str> = op.split_whitespace().collect();
    if parts.len() < 2 {
        return "bad-op".into();
    }
    let t = match reg.iter().find(|e| e.name() == parts[1]) {
        Some(t) => t,
        None => return "bad-op".into(),
    };
    match (parts[0], parts.len()) {
        ("sch", 3) => {
            if t.desc() == parts[2] {
                "ok".into()
            } else {
                "stale-descriptor".into()
            }
        }
        ("av", 3) => t.av(parts[2]),
        ("fv", 3) => t.fv(parts[2]),
        ("rt", 3) => t.rt(parts[2]),
        ("pr", 4) => t.pr(parts[2], parts[3]),
        ("txt", 3) => t.txt(parts[2]),
        ("mp", 3) => t.mp(parts[2]),
        ("mr", 3) => t.mr(parts[2]),
        ("seq", 3) => t.seq(parts[2]),
        ("vrt", 3) => t.vrt(parts[2]),
        _ => "bad-op".into(),
    }
}

fn run_case(reg: &[Box<dyn Ops>], t: &mut Trace, ops: &[String]) {
    for op in ops {
        let o = exec(reg, op);
        t.op(op, o);
    }
}

/// One generated case of the model engine: descriptor, as_value, read back, round trips, mutated values.
fn gen_model_case(reg: &[Box<dyn Ops>], r: &mut Rng, t: &mut Trace, e: &dyn Ops, id: String) {
    let name = e.name();
    let inst = e.gen(r);
    t.case(id);
    let mut ops = vec![format!("sch {} {}", name, e.desc()), format!("av {} {}", name, inst)];
    let v = e.av(&inst);
    ops.push(format!("fv {} {}", name, v));
    ops.push(format!("rt {} {}", name, inst));
    if let Some(val) = vparse(&v) {
        let k = r.range(2, 6);
        for _ in 0..k {
            let mut m = mutate_value(r, &val, 0);
            if r.chance(1, 4) {
                m = mutate_value(r, &m, 0);
            }
            ops.push(format!("fv {} {}", name, vstr(&m)));
        }
    }
    run_case(reg, t, &ops);
}

fn gen_paths_case(reg: &[Box<dyn Ops>], r: &mut Rng, t: &mut Trace, e: &dyn Ops, id: String) {
    let name = e.name();
    let inst = e.gen(r);
    t.case(id);
    let mut ops = vec![format!("av {} {}", name, inst)];
    let v = e.av(&inst);
    // types with generic `Value` fields: every path against the instance in one op (`vrt`), which can tell the
    // documented C16-F6 outcome from any other wrong result
    let vf = e.vfields();
    if vf {
        ops.push(format!("vrt {} {}", name, inst));
    } else {
        ops.push(format!("fv {} {}", name, v));
        ops.push(format!("rt {} {}", name, inst));
    }
    let mut texts: Vec<String> = vec![];
    for style in ["0", "1", "2"] {
        ops.push(format!("pr {} {} {}", name, style, inst));
        let h = e.pr(style, &inst);
        if let Some(s) = unhex(&h).and_then(|b| String::from_utf8(b).ok()) {
            ops.push(format!("txt {} {}", name, h));
            texts.push(s);
        }
    }
    // texts of schema-violating values (valid Recon, printed by the real printer) and textual mutations
    if let Some(val) = vparse(&v) {
        for _ in 0..r.range(2, 5) {
            let mut m = mutate_value(r, &val, 0);
            if r.chance(1, 4) {
                m = mutate_value(r, &m, 0);
            }
            let s = if r.chance(1, 2) { format!("{}", print_recon(&m)) } else { format!("{}", print_recon_compact(&m)) };
            ops.push(format!("txt {} {}", name, hex(s.as_bytes())));
            if r.chance(1, 3) {
                texts.push(s);
            }
        }
    }
    for _ in 0..r.range(2, 5) {
        if texts.is_empty() {
            break;
        }
        let base = r.pick(&texts).clone();
        let mut m = mutate_text(r, &base);
        if r.chance(1, 4) {
            m = mutate_text(r, &m);
        }
        ops.push(format!("txt {} {}", name, hex(m.as_bytes())));
    }
    // several documents through ONE decoder / recogniser instance (reset in between) vs fresh reads
    {
        let mut hs = vec![e.pr("1", &inst)];
        for _ in 0..r.range(1, 3) {
            let other = e.gen(r);
            hs.push(e.pr(if r.chance(1, 2) { "1" } else { "0" }, &other));
        }
        if hs.iter().all(|h| unhex(h).is_some()) {
            ops.push(format!("seq {} {}", name, hs.join(",")));
        }
    }
    ops.push(format!("mp {} {}", name, inst));
    let mh = e.mp(&inst);
    if let Some(b) = unhex(&mh) {
        if !vf {
            ops.push(format!("mr {} {}", name, mh));
        }
        for _ in 0..r.range(1, 3) {
            let m = mutate_bytes(r, &b);
            ops.push(format!("mr {} {}", name, hex(&m)));
        }
    }
    run_case(reg, t, &ops);
}

fn main() {
    // panics inside the code under test are outcomes, not noise on stderr
    if std::env::var("SV_PANIC").is_err() { std::panic::set_hook(Box::new(|_| {})); }
    let reg = registry();
    match parse_args() {
        Mode::Gen { seed, cases, out } => {
            let mut t = Trace::create(&out);
            let extra: Vec<String> = std::env::args().skip(5).collect();
            let mode = extra.first().map(|s| s.as_str()).unwrap_or("model").to_string();
            let mut r = Rng::new(seed);
            let pool: Vec<&Box<dyn Ops>> = if mode == "model" { reg.iter().filter(|e| e.modelled()).collect() } else { reg.iter().collect() };
            for c in 0..cases {
                // round-robin over the battery so that every type is exercised in every shard
                let e = pool[(c as usize) % pool.len()].as_ref();
                let id = format!("{} seed={} {}", c, seed, e.name());
                if mode == "model" {
                    gen_model_case(&reg, &mut r, &mut t, e, id);
                } else {
                    gen_paths_case(&reg, &mut r, &mut t, e, id);
                }
            }
            t.finish();
        }
        Mode::Replay { ops, out } => {
            let mut t = Trace::create(&out);
            for (i, case) in ops.iter().enumerate() {
                t.case(i);
                run_case(&reg, &mut t, case);
            }
            t.finish();
        }
    }
}
