//! C16, engine `form-msgpack`: the REAL `swimos_msgpack` writer and reader on generic `swimos_model::Value`s against
//! the byte-level model `lean/SwimVerif/Model/MsgPack.lean`.
//!
//! ops (one case = one generated value):
//!   `mpw <venc>`          -> `w-<marker class> <hex of the real bytes>` | `w-err`
//!   `mpr <hex> <tag>`     -> `<tag>-ok <venc> rest=<unread bytes>` | `<tag>-err` | `panic`
//! tags: `real` (the written bytes), `ext` (written bytes + trailing bytes), `trunc` (a strict prefix), `flip` (one byte
//! changed), `ins`/`del` (one byte inserted / removed).  Mutants containing a float marker byte (0xca, 0xcb) anywhere
//! are not emitted (float tokens are outside the model), they are counted in the `# skipped-floatbyte` comment.
//! `<venc>` is the value encoding of C09 (`lean/SwimVerif/Model/ReconProto.lean`).
use std::panic::{catch_unwind, AssertUnwindSafe};

use bytes::{Buf, BufMut, BytesMut};
use num_bigint::{BigInt, BigUint, Sign};
#[allow(dead_code)]
#[path = "../../../core/src/lib.rs"]
mod svh;
use svh::{hex, parse_args, unhex, Mode, Rng, Trace};
use swimos_form::write::StructuralWritable;
use swimos_model::{Attr, Blob, Item, Text, Value};
use swimos_msgpack::{read_from_msg_pack, MsgPackInterpreter};

// ------------------------------------------------------------------------------------------ value encoding (as sv-c09)

fn venc_into(v: &Value, out: &mut Vec<String>) {
    match v {
        Value::Extant => out.push("X".into()),
        Value::Int32Value(n) => out.push(format!("Ia:{}", n)),
        Value::Int64Value(n) => out.push(format!("Ib:{}", n)),
        Value::UInt32Value(n) => out.push(format!("Ic:{}", n)),
        Value::UInt64Value(n) => out.push(format!("Id:{}", n)),
        Value::BigInt(n) => out.push(format!("Ie:{}", n)),
        Value::BigUint(n) => out.push(format!("If:{}", n)),
        Value::Float64Value(x) => out.push(if x.is_nan() { "FN".into() } else { format!("F?{}", x) }),
        Value::BooleanValue(b) => out.push(if *b { "B1".into() } else { "B0".into() }),
        Value::Text(t) => out.push(format!("T{}", hex(t.as_str().as_bytes()))),
        Value::Data(b) => out.push(format!("D{}", hex(b.as_ref()))),
        Value::Record(attrs, items) => {
            out.push(format!("R:{}:{}", attrs.len(), items.len()));
            for Attr { name, value } in attrs {
                out.push(format!("A{}", hex(name.as_str().as_bytes())));
                venc_into(value, out);
            }
            for it in items {
                match it {
                    Item::ValueItem(v) => {
                        out.push("V".into());
                        venc_into(v, out);
                    }
                    Item::Slot(k, v) => {
                        out.push("S".into());
                        venc_into(k, out);
                        venc_into(v, out);
                    }
                }
            }
        }
    }
}

fn venc(v: &Value) -> String {
    let mut out = vec![];
    venc_into(v, &mut out);
    out.join(",")
}

fn vdec_tokens(toks: &[&str], pos: &mut usize) -> Option<Value> {
    let t = *toks.get(*pos)?;
    *pos += 1;
    if t.is_empty() {
        return None;
    }
    let (h, rest) = t.split_at(1);
    Some(match h {
        "X" => Value::Extant,
        "I" => {
            let (k, n) = rest.split_once(':')?;
            match k {
                "a" => Value::Int32Value(n.parse().ok()?),
                "b" => Value::Int64Value(n.parse().ok()?),
                "c" => Value::UInt32Value(n.parse().ok()?),
                "d" => Value::UInt64Value(n.parse().ok()?),
                "e" => Value::BigInt(n.parse::<BigInt>().ok()?),
                "f" => Value::BigUint(n.parse::<BigUint>().ok()?),
                _ => return None,
            }
        }
        "B" => Value::BooleanValue(rest == "1"),
        "T" => Value::Text(Text::from(String::from_utf8(unhex(rest)?).ok()?)),
        "D" => Value::Data(Blob::from_vec(unhex(rest)?)),
        "R" => {
            let mut it = rest.split(':');
            it.next()?;
            let na: usize = it.next()?.parse().ok()?;
            let ni: usize = it.next()?.parse().ok()?;
            let mut attrs = vec![];
            for _ in 0..na {
                let a = *toks.get(*pos)?;
                *pos += 1;
                let name = String::from_utf8(unhex(a.strip_prefix('A')?)?).ok()?;
                let v = vdec_tokens(toks, pos)?;
                attrs.push(Attr { name: Text::from(name), value: v });
            }
            let mut items = vec![];
            for _ in 0..ni {
                let k = *toks.get(*pos)?;
                *pos += 1;
                match k {
                    "V" => items.push(Item::ValueItem(vdec_tokens(toks, pos)?)),
                    "S" => {
                        let key = vdec_tokens(toks, pos)?;
                        let v = vdec_tokens(toks, pos)?;
                        items.push(Item::Slot(key, v));
                    }
                    _ => return None,
                }
            }
            Value::Record(attrs, items)
        }
        _ => return None,
    })
}

fn vdec(s: &str) -> Option<Value> {
    let toks: Vec<&str> = s.split(',').collect();
    let mut pos = 0;
    let v = vdec_tokens(&toks, &mut pos)?;
    if pos == toks.len() {
        Some(v)
    } else {
        None
    }
}

// ------------------------------------------------------------------------------------------ the real code

fn guard(f: impl FnOnce() -> String) -> String {
    match catch_unwind(AssertUnwindSafe(f)) {
        Ok(s) => s,
        Err(_) => "panic".into(),
    }
}

fn real_write(v: &Value) -> Option<Vec<u8>> {
    let mut buffer = BytesMut::new();
    let mut writer = (&mut buffer).writer();
    let interp = MsgPackInterpreter::new(&mut writer);
    match v.write_with(interp) {
        Ok(()) => Some(buffer.to_vec()),
        Err(_) => None,
    }
}

fn marker_class(b: u8) -> &'static str {
    match b {
        0x00..=0x7f => "fixpos",
        0x80..=0x8f => "fixmap",
        0x90..=0x9f => "fixarray",
        0xa0..=0xbf => "fixstr",
        0xc0 => "nil",
        0xc1 => "reserved",
        0xc2 | 0xc3 => "bool",
        0xc4 => "bin8",
        0xc5 => "bin16",
        0xc6 => "bin32",
        0xc7 => "ext8",
        0xc8 => "ext16",
        0xc9 => "ext32",
        0xca | 0xcb => "float",
        0xcc => "u8",
        0xcd => "u16",
        0xce => "u32",
        0xcf => "u64",
        0xd0 => "i8",
        0xd1 => "i16",
        0xd2 => "i32",
        0xd3 => "i64",
        0xd4..=0xd8 => "fixext",
        0xd9 => "str8",
        0xda => "str16",
        0xdb => "str32",
        0xdc => "array16",
        0xdd => "array32",
        0xde => "map16",
        0xdf => "map32",
        0xe0..=0xff => "fixneg",
    }
}

fn op_mpw(e: &str) -> String {
    let v = match vdec(e) {
        Some(v) => v,
        None => return "bad-op".into(),
    };
    guard(|| match real_write(&v) {
        Some(b) if !b.is_empty() => format!("w-{} {}", marker_class(b[0]), hex(&b)),
        _ => "w-err".into(),
    })
}

fn op_mpr(h: &str, tag: &str) -> String {
    let b = match unhex(h) {
        Some(b) => b,
        None => return "bad-op".into(),
    };
    guard(|| {
        let mut buf = bytes::Bytes::from(b);
        match read_from_msg_pack::<Value, _>(&mut buf) {
            Ok(v) => format!("{}-ok {} rest={}", tag, venc(&v), buf.remaining()),
            Err(_) => format!("{}-err", tag),
        }
    })
}

fn exec(op: &str) -> String {
    let parts: Vec<&str> = op.split_whitespace().collect();
    match (parts.first().copied(), parts.len()) {
        (Some("mpw"), 2) => op_mpw(parts[1]),
        (Some("mpr"), 3) => op_mpr(parts[1], parts[2]),
        _ => "bad-op".into(),
    }
}

// ------------------------------------------------------------------------------------------ generator

const CHARS: &[char] = &[
    'a', 'Z', '0', ' ', '\0', '"', '\u{7f}', '\u{80}', 'é', '\u{7ff}', '\u{800}', '€', '\u{d7ff}', '\u{e000}', '\u{ffff}',
    '\u{10000}', '𝄞', '\u{10ffff}', '\u{2ca}', '\u{2cb}',
];

struct Gen<'a> {
    r: &'a mut Rng,
    big_budget: u32, // at most this many 64 KiB strings / blobs per value
}

impl<'a> Gen<'a> {
    fn len_class(&mut self) -> usize {
        match self.r.below(40) {
            0 => 0,
            1 => 31,
            2 => 32,
            3 => 255,
            4 => 256,
            5 => 33,
            6 => 254,
            7 if self.big_budget > 0 => {
                self.big_budget -= 1;
                65535
            }
            8 if self.big_budget > 0 => {
                self.big_budget -= 1;
                65536
            }
            9 => 300,
            10 => 15,
            11 => 16,
            _ => self.r.below(12) as usize,
        }
    }

    /// A string of exactly `n` UTF-8 bytes when it is pure ASCII, about `n` bytes otherwise.
    fn text(&mut self) -> String {
        let n = self.len_class();
        let ascii = self.r.chance(1, 2) || n > 1000;
        let mut s = String::with_capacity(n + 4);
        if ascii {
            let c = *self.r.pick(&['a', 'x', '7', '_']);
            for i in 0..n {
                s.push(if i % 7 == 3 { 'q' } else { c });
            }
            // one non-ASCII char inside a long text keeps the exact byte length
            if n >= 4 && self.r.chance(1, 2) {
                s.truncate(n - 3);
                s.push('€');
            }
        } else {
            while s.len() < n {
                s.push(*self.r.pick(CHARS));
            }
            // land exactly on the boundary when possible
            while s.len() > n {
                s.pop();
            }
            while s.len() < n {
                s.push('b');
            }
        }
        s
    }

    fn name(&mut self) -> String {
        if self.r.chance(3, 4) {
            let n = self.r.range(0, 6) as usize;
            (0..n).map(|_| *self.r.pick(&['a', 'b', 'é', '_', '1', '@', ' '])).collect()
        } else {
            self.text()
        }
    }

    fn blob(&mut self) -> Vec<u8> {
        let n = self.len_class();
        let fill = self.r.next();
        (0..n).map(|i| if n > 1000 { (i as u8) ^ (fill as u8) } else { (self.r.next() >> 11) as u8 }).collect()
    }

    fn integer(&mut self) -> Value {
        const B: &[i128] = &[
            0, 1, -1, 31, 32, -31, -32, -33, 127, 128, -127, -128, -129, 255, 256, 32767, 32768, -32768, -32769, 65535,
            65536, 2147483647, 2147483648, -2147483648, -2147483649, 4294967295, 4294967296, 9223372036854775807,
            9223372036854775808, -9223372036854775808, -9223372036854775807, 18446744073709551615, 18446744073709551614,
        ];
        let n: i128 = if self.r.chance(1, 2) {
            *self.r.pick(B)
        } else {
            let bits = self.r.range(1, 64);
            let m = (self.r.next() >> (64 - bits)) as i128;
            if self.r.chance(1, 2) && m <= 9223372036854775808 {
                -m
            } else {
                m
            }
        };
        let mut kinds: Vec<u8> = vec![4]; // BigInt always fits
        if n >= i32::MIN as i128 && n <= i32::MAX as i128 {
            kinds.push(0);
        }
        if n >= i64::MIN as i128 && n <= i64::MAX as i128 {
            kinds.push(1);
        }
        if n >= 0 && n <= u32::MAX as i128 {
            kinds.push(2);
        }
        if n >= 0 && n <= u64::MAX as i128 {
            kinds.push(3);
            kinds.push(5);
        }
        // the machine kinds more often than the big ones
        let k = if kinds.len() > 1 && self.r.chance(3, 4) {
            let small: Vec<u8> = kinds.iter().copied().filter(|k| *k < 4).collect();
            if small.is_empty() {
                *self.r.pick(&kinds)
            } else {
                *self.r.pick(&small)
            }
        } else {
            *self.r.pick(&kinds)
        };
        match k {
            0 => Value::Int32Value(n as i32),
            1 => Value::Int64Value(n as i64),
            2 => Value::UInt32Value(n as u32),
            3 => Value::UInt64Value(n as u64),
            4 => Value::BigInt(BigInt::from(n)),
            _ => Value::BigUint(BigUint::from(n as u128)),
        }
    }

    fn big(&mut self) -> Value {
        // magnitudes of 0, 1, 2, 3, 4, 7, 8, 9, 15, 16, 17, 9..40, 254..256 bytes: the ext size classes
        let n = match self.r.below(16) {
            0 => 0,
            1 => 1,
            2 => 2,
            3 => 3,
            4 => 4,
            5 => 7,
            6 => 8,
            7 => 15,
            8 => 16,
            9 => 17,
            10 => *self.r.pick(&[253usize, 254, 255, 256, 257]),
            _ => self.r.range(9, 40) as usize,
        };
        let mut bytes: Vec<u8> = (0..n).map(|_| (self.r.next() >> 13) as u8).collect();
        if n > 0 && bytes[0] == 0 {
            bytes[0] = 1 + (self.r.below(255) as u8);
        }
        let mag = BigUint::from_bytes_be(&bytes);
        if self.r.chance(1, 3) {
            Value::BigUint(mag)
        } else {
            let sign = if self.r.chance(1, 2) { Sign::Minus } else { Sign::Plus };
            Value::BigInt(BigInt::from_biguint(sign, mag))
        }
    }

    fn count(&mut self, depth: u32) -> usize {
        let max = [17u64, 5, 3, 2, 1][depth.min(4) as usize];
        if depth == 0 && self.r.chance(1, 3) {
            *self.r.pick(&[0usize, 1, 2, 14, 15, 16, 17])
        } else {
            self.r.below(max.min(4) + 1) as usize
        }
    }

    fn value(&mut self, depth: u32) -> Value {
        let rec = depth < 4 && self.r.chance(if depth == 0 { 3 } else { 1 }, 4);
        if rec {
            let na = self.count(depth);
            let ni = self.count(depth);
            let attrs: Vec<Attr> = (0..na)
                .map(|_| {
                    let name = self.name();
                    let v = self.value(depth + 1);
                    Attr { name: Text::from(name), value: v }
                })
                .collect();
            let kind = self.r.below(3); // all values, all slots, mixed
            let items: Vec<Item> = (0..ni)
                .map(|_| {
                    let slot = match kind {
                        0 => false,
                        1 => true,
                        _ => self.r.chance(1, 2),
                    };
                    if slot {
                        // keys of every kind, texts more often
                        let k = if self.r.chance(1, 2) { Value::Text(Text::from(self.name())) } else { self.value(depth + 1) };
                        Item::Slot(k, self.value(depth + 1))
                    } else {
                        Item::ValueItem(self.value(depth + 1))
                    }
                })
                .collect();
            return Value::Record(attrs, items);
        }
        match self.r.below(12) {
            0 => Value::Extant,
            1 => Value::BooleanValue(self.r.chance(1, 2)),
            2..=5 => self.integer(),
            6 | 7 => self.big(),
            8 | 9 => Value::Text(Text::from(self.text())),
            10 => Value::Data(Blob::from_vec(self.blob())),
            _ => Value::Text(Text::from(self.name())),
        }
    }
}

fn has_float_byte(b: &[u8]) -> bool {
    b.iter().any(|x| *x == 0xca || *x == 0xcb)
}

struct Stats {
    skipped_float: u64,
    small_full_trunc: u64,
}

fn gen_case(r: &mut Rng, t: &mut Trace, id: String, st: &mut Stats) {
    let v = {
        let big_budget = if r.chance(1, 25) { 1 } else { 0 };
        let mut g = Gen { r: &mut *r, big_budget };
        g.value(0)
    };
    t.case(id);
    let mut ops = vec![format!("mpw {}", venc(&v))];
    if let Some(b) = real_write(&v) {
        ops.push(format!("mpr {} real", hex(&b)));
        // trailing bytes: the reader must stop exactly at the end of the value
        let mut e = b.clone();
        for _ in 0..r.range(1, 4) {
            e.push(*r.pick(&[0u8, 0xc0, 0x80, 0x92, 0xff, 0xa1, 0xc1, 0xdf, 0x7f]));
        }
        ops.push(format!("mpr {} ext", hex(&e)));
        let mut muts: Vec<(Vec<u8>, &'static str)> = vec![];
        if b.len() <= 48 {
            st.small_full_trunc += 1;
            for k in 0..b.len() {
                muts.push((b[..k].to_vec(), "trunc"));
            }
        } else {
            for _ in 0..4 {
                muts.push((b[..r.below(b.len() as u64) as usize].to_vec(), "trunc"));
            }
            muts.push((b[..b.len() - 1].to_vec(), "trunc"));
        }
        let flips = if b.len() <= 48 { 6 } else { 3 };
        for _ in 0..flips {
            let mut m = b.clone();
            // markers sit at the beginning of a value: bias the position towards the first bytes
            let p = if r.chance(1, 2) { r.below(m.len().min(12) as u64) } else { r.below(m.len() as u64) } as usize;
            let nb = match r.below(4) {
                0 => m[p] ^ (1 << r.below(8)),
                1 => m[p].wrapping_add(1),
                2 => m[p].wrapping_sub(1),
                _ => *r.pick(&[
                    0x80u8, 0x81, 0x8f, 0x90, 0x91, 0x92, 0x9f, 0xa0, 0xbf, 0xc0, 0xc1, 0xc2, 0xc4, 0xc5, 0xc6, 0xc7, 0xc8,
                    0xc9, 0xcc, 0xcd, 0xce, 0xcf, 0xd0, 0xd1, 0xd2, 0xd3, 0xd4, 0xd5, 0xd6, 0xd7, 0xd8, 0xd9, 0xda, 0xdb,
                    0xdc, 0xdd, 0xde, 0xdf, 0xe0, 0xff, 0x00, 0x01, 0x02, 0x7f,
                ]),
            };
            if nb != m[p] {
                m[p] = nb;
                muts.push((m, "flip"));
            }
        }
        {
            let mut m = b.clone();
            let p = r.below(m.len() as u64 + 1) as usize;
            m.insert(p, *r.pick(&[0x80u8, 0x90, 0x92, 0xc0, 0x01, 0xa1, 0x61, 0xc4, 0xdf, 0xd4, 0xc7]));
            muts.push((m, "ins"));
            let mut m = b.clone();
            m.remove(r.below(m.len() as u64) as usize);
            muts.push((m, "del"));
        }
        for (m, tag) in muts {
            if has_float_byte(&m) {
                st.skipped_float += 1;
            } else {
                ops.push(format!("mpr {} {}", hex(&m), tag));
            }
        }
    }
    for op in &ops {
        let o = exec(op);
        t.op(op, o);
    }
}

fn main() {
    if std::env::var("SV_PANIC").is_err() {
        std::panic::set_hook(Box::new(|_| {}));
    }
    match parse_args() {
        Mode::Gen { seed, cases, out } => {
            let mut t = Trace::create(&out);
            let mut r = Rng::new(seed);
            let mut st = Stats { skipped_float: 0, small_full_trunc: 0 };
            for c in 0..cases {
                gen_case(&mut r, &mut t, format!("{} seed={}", c, seed), &mut st);
            }
            t.finish();
            eprintln!("# skipped-floatbyte={} full-truncation-cases={}", st.skipped_float, st.small_full_trunc);
        }
        Mode::Replay { ops, out } => {
            let mut t = Trace::create(&out);
            for (i, case) in ops.iter().enumerate() {
                t.case(i);
                for op in case {
                    let o = exec(op);
                    t.op(op, o);
                }
            }
            t.finish();
        }
    }
}
