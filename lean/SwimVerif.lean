-- Root of the library: every property module (so that `lake build` checks everything).
import SwimVerif.Props.C12
import SwimVerif.Props.C17
