/-
C18: line protocol of the route model and the observable-level monitor.

Every string argument is the lower-case hex of its UTF-8 bytes (`-` = empty). Ops (stateless):
  parse P        -> ok <scheme|none> <abs> <param,param|.>      | err <offset>
  uri U          -> ok <scheme|none> <path> <query|none> <fragment|none> | err
  apply P M      -> ok <route> | missing <hex of "name, name"> | badpat             (M = k=v,k=v or `.`)
  un P U         -> match <k=v,..|.> | nomatch | badpat                    (`unapply_str`)
  unr P U        -> match .. | nomatch | baduri | badpat                   (`RouteUri::from_str` + `unapply_route_uri`)
  amb P Q        -> 1 | 0 | badpat
  rt P M         -> ok <route> match .. | ok <route> nomatch | missing .. | badpat    (`apply` then `unapply_str`)
  both P Q U     -> <un P U> | <un Q U> | <amb P Q>
Bindings are printed sorted by key.
-/
import SwimVerif.Model.Route

namespace SwimVerif.Route

/-! ### rendering / parsing -/

def lexLt : Bytes → Bytes → Bool
  | [], [] => false
  | [], _ :: _ => true
  | _ :: _, [] => false
  | a :: as, b :: bs => if a < b then true else if b < a then false else lexLt as bs

def kvSortInsert (e : Bytes × Bytes) : KV → KV
  | [] => [e]
  | x :: rest => if lexLt e.1 x.1 then e :: x :: rest else x :: kvSortInsert e rest

def kvSort (m : KV) : KV := m.foldl (fun acc e => kvSortInsert e acc) []

def renderKV (m : KV) : String :=
  if m.isEmpty then "." else ",".intercalate ((kvSort m).map fun e => hexOfBytes e.1 ++ "=" ++ hexOfBytes e.2)

def renderList (xs : List Bytes) : String :=
  if xs.isEmpty then "." else ",".intercalate (xs.map hexOfBytes)

def renderOpt : Option Bytes → String
  | some b => hexOfBytes b
  | none => "none"

/-- A hex argument that is a Rust `str`. -/
def strArg (s : String) : Option Bytes :=
  match bytesOfHex s with
  | some bs => if isStr bs then some bs else none
  | none => none

def parseKVAux : List String → Option KV
  | [] => some []
  | e :: rest =>
    match e.splitOn "=" with
    | [k, v] =>
      match strArg k, strArg v, parseKVAux rest with
      | some k, some v, some r => some ((k, v) :: r)
      | _, _, _ => none
    | _ => none

/-- The `HashMap` built by inserting the listed entries in order (a later duplicate key wins). -/
def parseKV (s : String) : Option KV :=
  if s == "." then some [] else
  (parseKVAux (s.splitOn ",")).map fun es => es.foldl (fun acc e => kvInsert e.1 e.2 acc) []

def renderMatch : Option KV → String
  | some m => "match " ++ renderKV m
  | none => "nomatch"

def renderParse : Except Nat Pat → String
  | .ok p => s!"ok {renderOpt p.scheme} {boolBit p.absolute} {renderList p.params}"
  | .error off => s!"err {off}"

def renderUri : Option Uri → String
  | some u => s!"ok {renderOpt u.scheme} {hexOfBytes u.path} {renderOpt u.query} {renderOpt u.fragment}"
  | none => "err"

def patArg (s : String) : Option (Except Nat Pat) := (strArg s).map parsePattern

/-- `ApplyError`'s `Display` lists the missing names separated by `", "` (the only public view of them). -/
def renderMissing (ms : List Bytes) : String := "missing " ++ hexOfBytes (List.intercalate [44, 32] ms)

def renderApply : Except (List Bytes) Bytes → String
  | .ok r => "ok " ++ hexOfBytes r
  | .error ms => renderMissing ms

def renderRt (p : Pat) (m : KV) : String :=
  match p.apply m with
  | .ok r => "ok " ++ hexOfBytes r ++ " " ++ renderMatch (p.unapplyStr r)
  | .error ms => renderMissing ms

/-- The model's answer to one op line. -/
def apiLine (line : String) : String :=
  match words line with
  | ["parse", p] => match strArg p with
    | some bs => renderParse (parsePattern bs)
    | none => "bad-op"
  | ["uri", u] => match strArg u with
    | some bs => renderUri (parseUri bs)
    | none => "bad-op"
  | ["apply", p, m] => match patArg p, parseKV m with
    | some (.ok pat), some kv => renderApply (pat.apply kv)
    | some (.error _), some _ => "badpat"
    | _, _ => "bad-op"
  | ["un", p, u] => match patArg p, strArg u with
    | some (.ok pat), some ub => renderMatch (pat.unapplyStr ub)
    | some (.error _), some _ => "badpat"
    | _, _ => "bad-op"
  | ["unr", p, u] => match patArg p, strArg u with
    | some (.ok pat), some ub =>
      match parseUri ub with
      | some uri => renderMatch (pat.unapplyUri uri.scheme uri.path)
      | none => "baduri"
    | some (.error _), some _ => "badpat"
    | _, _ => "bad-op"
  | ["amb", p, q] => match patArg p, patArg q with
    | some (.ok a), some (.ok b) => boolBit (areAmbiguous a b)
    | some _, some _ => "badpat"
    | _, _ => "bad-op"
  | ["rt", p, m] => match patArg p, parseKV m with
    | some (.ok pat), some kv => renderRt pat kv
    | some (.error _), some _ => "badpat"
    | _, _ => "bad-op"
  | ["both", p, q, u] => match patArg p, patArg q, strArg u with
    | some (.ok a), some (.ok b), some ub =>
      renderMatch (a.unapplyStr ub) ++ " | " ++ renderMatch (b.unapplyStr ub) ++ " | " ++ boolBit (areAmbiguous a b)
    | some _, some _, some _ => "badpat"
    | _, _, _ => "bad-op"
  | _ => "bad-op"

/-! ### Decidable side conditions used by the theorems and by the monitor -/

/-- A literal / name that percent-decoding leaves unchanged (contains no `%XX` escape). -/
def pctNormal (s : Bytes) : Bool := pctDecode s == s

/-- Accepted in full by the URI parser's `path_segment`. -/
def segOk (s : Bytes) : Bool := (eatPath s).isEmpty

def schemeOk : Option Bytes → Bool
  | none => true
  | some [] => false
  | some (b :: tl) => isAlpha b && tl.all schemaChar

def Seg.wf : Seg → Bool
  | .lit l => !l.isEmpty && !l.contains 47 && segOk l
  | .param n => !n.isEmpty && pctNormal n && isStr n

/-- Without a scheme and relative, a first literal must not be readable as `scheme:` by the URI parser. The
pattern parser guarantees it (a leading ASCII letter followed by a `:` before the first `/` *is* a scheme). -/
def firstLitOk (p : Pat) : Bool :=
  match p.scheme, p.absolute, p.segs with
  | none, false, .lit (b :: tl) :: _ => !isAlpha b || !tl.contains 58
  | _, _, _ => true

/-- `PatWF`: the patterns for which `apply` and `unapply` are inverse. -/
def Pat.wf (p : Pat) : Bool :=
  schemeOk p.scheme && !p.segs.isEmpty && p.segs.all Seg.wf && firstLitOk p

def nodupB : List Bytes → Bool
  | [] => true
  | x :: rest => !rest.contains x && nodupB rest

/-- The parameter map binds exactly the pattern's names, to non-empty strings. -/
def mapOk (p : Pat) (m : KV) : Bool :=
  nodupB (m.map (·.1)) && m.all (fun e => p.params.contains e.1 && !e.2.isEmpty && isStr e.2) &&
  p.params.all (fun n => (kvGet n m).isSome)

/-! ### Monitor -/

structure Mon where
  seen : List (String × String) := []     -- `un`/`unr`/`amb` lines answered in this case
  deriving Repr

def anyEmptyValue (kv : String) : Bool :=
  kv != "." && (kv.splitOn ",").any fun e => match e.splitOn "=" with | [_, v] => v == "-" | _ => true

/-- From `match K` / `nomatch`: `some (some K)`, `some none`; `none` = not a match result. -/
def matchOf : List String → Option (Option String)
  | ["match", kv] => some (some kv)
  | ["nomatch"] => some none
  | _ => none

def emptyBinding (r : Option (Option String)) : Bool :=
  match r with | some (some kv) => anyEmptyValue kv | _ => false

def kvCount (kv : String) : Nat := if kv == "." then 0 else (kv.splitOn ",").length

/-- Number of `:name` segments of a pattern text, by the automaton alone (no duplicate-name check), so that the
monitor's expectation does not depend on which patterns the model's `parse` accepts. -/
def paramCount (s : Bytes) : Option Nat :=
  match parseLoop {} 0 s with
  | .error _ => none
  | .ok (a, offset) =>
    match parseEnd a offset with
    | .error _ => none
    | .ok segments => some (segments.filter (·.parameter)).length

/-- The raw `:name` segments of a pattern text, by the automaton alone (the keys `apply` looks up). -/
def paramNames (s : Bytes) : Option (List Bytes) :=
  match parseLoop {} 0 s with
  | .error _ => none
  | .ok (a, offset) =>
    match parseEnd a offset with
    | .error _ => none
    | .ok segments => some ((segments.filter (·.parameter)).map (·.str))

/-- `apply` must reject what `unapply` can never produce: a match never binds an empty string and binds every
parameter, so an `apply` that answers `ok` although the map has no value, or the empty value, for one of the
pattern's parameters has produced a route that cannot be the image of this map. -/
def applyProblem (p : String) (kv : String) (ow : List String) : Option String :=
  match ow.head?, (strArg p).bind paramNames, parseKV kv with
  | some "ok", some names, some mp =>
    if names.any (fun n => kvGet n mp == some []) then some "apply-accepted-empty-value"
    else if names.any (fun n => (kvGet n mp).isNone) then some "apply-accepted-missing-parameter"
    else none
  | _, _, _ => none

/-- A match must bind every parameter of the pattern: `some reason` when the number of bindings differs from the
number of parameters. -/
def countProblem (p : String) (r : Option (Option String)) : Option String :=
  match r, (strArg p).bind paramCount with
  | some (some kv), some n => if kvCount kv == n then none else some "binding-count-mismatch"
  | _, _ => none

def splitBar (ws : List String) : List (List String) :=
  ws.foldr (fun w acc => if w == "|" then [] :: acc else match acc with | c :: m => (w :: c) :: m | [] => [[w]]) [[]]

def Mon.step (m : Mon) (line : String) (out : String) : Mon × Option String :=
  let ow := words out
  let remember : Mon := { m with seen := (line, out) :: m.seen }
  let repeated : Option String := m.seen.lookup line
  match words line with
  | ["parse", _] => (m, if ow.head? == some "ok" || ow.head? == some "err" then none else some "unexpected-result")
  | ["uri", _] => (m, none)
  | ["apply", p, kv] => (m, applyProblem p kv ow)
  | ["un", p, _] | ["unr", p, _] =>
    if out == "badpat" || out == "baduri" then (m, none) else
    match matchOf ow with
    | none => (m, some "unexpected-result")
    | some r =>
      if emptyBinding (some r) then (m, some "param-bound-empty")
      else if (countProblem p (some r)).isSome then (m, countProblem p (some r))
      else match repeated with
        | some o => (m, if o == out then none else some "nondeterministic-match")
        | none => (remember, none)
  | ["amb", p, q] =>
    if out == "badpat" then (m, none) else
    if out != "0" && out != "1" then (m, some "unexpected-result") else
    match m.seen.lookup s!"amb {q} {p}" with
    | some o => (remember, if o == out then none else some "ambiguity-asymmetric")
    | none => (remember, none)
  | ["both", p, q, _] =>
    if out == "badpat" then (m, none) else
    match splitBar ow with
    | [r1, r2, [a]] =>
      match matchOf r1, matchOf r2 with
      | some m1, some m2 =>
        if emptyBinding (some m1) || emptyBinding (some m2) then (m, some "param-bound-empty")
        else if (countProblem p (some m1)).isSome then (m, countProblem p (some m1))
        else if (countProblem q (some m2)).isSome then (m, countProblem q (some m2))
        else if m1.isSome && m2.isSome && a == "0" then
          -- one URI matched by both patterns but the pair is not reported
          (m, some "ambiguity-missed")
        else (m, none)
      | _, _ => (m, some "unexpected-result")
    | _ => (m, some "unexpected-result")
  | ["rt", p, kv] =>
    if out == "badpat" then (m, none) else
    -- an empty binding is a violation whatever the pattern
    let res : Option (Option String) := match ow with
      | "ok" :: _ :: rest => matchOf rest
      | _ => none
    if emptyBinding res then (m, some "param-bound-empty") else
    if (countProblem p res).isSome then (m, countProblem p res) else
    if (applyProblem p kv ow).isSome then (m, applyProblem p kv ow) else
    match patArg p, parseKV kv with
    | some (.ok pat), some mp =>
      -- entries of the map for names that are not parameters of the pattern are ignored by `apply`
      let mine : KV := mp.filter fun e => pat.params.contains e.1
      if pat.wf then
        match ow with
        | "ok" :: _ :: rest =>
          -- fill-then-match gives the values back: whenever `apply` answers, the route matches the same pattern
          -- with exactly the values that were filled in
          if matchOf rest == some (some (renderKV mine)) then (m, none)
          else (m, some "roundtrip-differs")
        | _ => if mapOk pat mine then (m, some "apply-failed-on-complete-map") else (m, none)
      else (m, none)
    | _, _ => (m, none)
  | _ => (m, some "unparsable")

end SwimVerif.Route
