/-
C11 (multiplexer part): `swimos_multi_reader::MultiReader` (`add`, `get_next_stream`, `poll_next`) with the `slab::Slab`
key allocation it relies on, over passive sources (a queue, a closed flag and the waker registered by the last
`Pending` poll).

Bit masks (`LocalFlags`, the `AtomicUsize` of each bucket) are modelled as finite sets of indices `< bucketSize`
(`List Nat` without duplicates): `set_flag` = insert, `get_next` = take the minimum (`trailing_zeros`), `unset_flag` is
only ever applied to the bit just found, `fetch_or` = union, `fetch_and(0)` = take all.  The waker `MultiReader`
hands to a source (`waker_fn(|| { ready.fetch_or(1 << index); waker.wake_by_ref() })`) is modelled by the pair
(bucket, index) it flags; firing it also counts one wake of the outer task.

Ghost fields: `pushed`, `delivered` (the histories the theorems talk about).
-/
import SwimVerif.Model.Util
import SwimVerif.Generated.MultiReaderConsts

namespace SwimVerif.MultiReader
open SwimVerif.Generated

/-- `BUCKET_SIZE` -/
def bucketSize : Nat := multiReaderBucketSize

/-- `slab::Entry` -/
inductive Entry
  | occ (src : Nat)
  | vac (next : Nat)
  deriving DecidableEq, Repr

structure Source where
  q : List Nat := []
  closed : Bool := false
  waker : Option (Nat × Nat) := none
  deriving DecidableEq, Repr

structure St where
  entries : List Entry := []         -- `Slab.entries`
  next : Nat := 0                    -- `Slab.next`
  buckets : List (List Nat) := [[]]  -- `stream_buckets`
  localF : List Nat := []            -- `local_flags`
  queueF : List Nat := []            -- `queue_flags`
  cur : Nat := 0                     -- `current_bucket`
  sources : List Source := []        -- the environment: source id ↦ its state
  pushed : List (Nat × Nat) := []    -- ghost: (source, item) in push order
  delivered : List (Nat × Nat) := [] -- ghost: (source, item) in delivery order
  deriving Repr

def init : St := {}

/-! ### finite sets of flag indices -/

def fInsert (s : List Nat) (i : Nat) : List Nat := if s.contains i then s else i :: s
def fUnion (s t : List Nat) : List Nat := t.foldl fInsert s
def fErase (s : List Nat) (i : Nat) : List Nat := s.filter (· ≠ i)
def fMin : List Nat → Option Nat
  | [] => none
  | x :: xs => match fMin xs with
    | some m => some (min x m)
    | none => some x

/-! ### `Slab` -/

/-- `Slab::insert`: (state, key) -/
def slabInsert (st : St) (src : Nat) : St × Nat :=
  if st.next = st.entries.length then
    ({ st with entries := st.entries ++ [.occ src], next := st.next + 1 }, st.next)
  else
    match st.entries[st.next]? with
    | some (.vac n) => ({ st with entries := st.entries.set st.next (.occ src), next := n }, st.next)
    | _ => (st, st.next)   -- unreachable!()

/-- `Slab::remove` -/
def slabRemove (st : St) (key : Nat) : St :=
  { st with entries := st.entries.set key (.vac st.next), next := key }

def slabGet (st : St) (key : Nat) : Option Nat :=
  match st.entries[key]? with
  | some (.occ s) => some s
  | _ => none

def slabEmpty (st : St) : Bool := st.entries.all fun e => match e with | .occ _ => false | .vac _ => true

/-! ### `MultiReader` -/

/-- `StreamBuckets::set` -/
def bucketSet (bs : List (List Nat)) (b i : Nat) : List (List Nat) :=
  if b < bs.length then bs.modify b (fun s => fInsert s i) else bs ++ [[i]]

/-- `MultiReader::add` for a fresh source -/
def add (st : St) : St :=
  let src := st.sources.length
  let r := slabInsert { st with sources := st.sources ++ [{}] } src
  let b := r.2 / bucketSize
  let i := r.2 % bucketSize
  if b = r.1.cur then { r.1 with localF := fInsert r.1.localF i }
  else { r.1 with buckets := bucketSet r.1.buckets b i }

/-- the bucket after the current one (`current_bucket += 1`, wrapping) -/
def nextIdx (st : St) : Nat := if st.buckets.length ≤ st.cur + 1 then 0 else st.cur + 1

/-- move to bucket `c` and take its flags (`fetch_and(0)`) -/
def enter (st : St) (c : Nat) : St :=
  { st with cur := c, localF := st.buckets.getD c [], buckets := st.buckets.set c [] }

/-- the `loop` of `get_next_stream` (fuel = number of buckets + 1) -/
def advance : Nat → St → Nat → St × Bool
  | 0, st, _ => (st, false)
  | fuel + 1, st, start =>
    if (enter st (nextIdx st)).localF ≠ [] then (enter st (nextIdx st), true)
    else if start = nextIdx st then (enter st (nextIdx st), false)
    else advance fuel (enter st (nextIdx st)) start

/-- `LocalFlags::get_next` on `local_flags` -/
def popMin (st : St) : St × Option Nat :=
  match fMin st.localF with
  | some i => ({ st with localF := fErase st.localF i }, some i)
  | none => (st, none)

/-- `fetch_or(queue_flags.get_and_clear())` into the current bucket -/
def flush (st : St) : St :=
  if st.queueF ≠ [] then
    { st with buckets := st.buckets.modify st.cur (fun s => fUnion s st.queueF), queueF := [] }
  else st

/-- `get_next_stream` -/
def getNext (st : St) : St × Option Nat :=
  if st.localF ≠ [] then popMin st
  else if (advance ((flush st).buckets.length + 1) (flush st) (flush st).cur).2 then
    popMin (advance ((flush st).buckets.length + 1) (flush st) (flush st).cur).1
  else ((advance ((flush st).buckets.length + 1) (flush st) (flush st).cur).1, none)

inductive Res
  | item (x : Nat)
  | none
  | pending
  deriving DecidableEq, Repr

def setSource (st : St) (s : Nat) (f : Source → Source) : St := { st with sources := st.sources.modify s f }

/-- the stream produced an item: re-queue it -/
def deliver (st : St) (s idx x : Nat) (rest : List Nat) : St :=
  { setSource st s (fun src => { src with q := rest }) with
      queueF := fInsert st.queueF idx, delivered := st.delivered ++ [(s, x)] }

/-- the stream is pending: it keeps the waker that flags (current bucket, idx) -/
def park (st : St) (s idx : Nat) : St := setSource st s (fun src => { src with waker := some (st.cur, idx) })

/-- `poll_next`; the fuel bounds the `while let` loop (every iteration consumes one flag) -/
def pollNext : Nat → St → St × Res
  | 0, st => (st, .pending)
  | fuel + 1, st =>
    match (getNext st).2 with
    | none => if slabEmpty (getNext st).1 then ((getNext st).1, .none) else ((getNext st).1, .pending)
    | some idx =>
      match slabGet (getNext st).1 (idx + (getNext st).1.cur * bucketSize) with
      | none => pollNext fuel (getNext st).1
      | some s =>
        match ((getNext st).1.sources.getD s {}).q with
        | x :: rest => (deliver (getNext st).1 s idx x rest, .item x)
        | [] =>
          if ((getNext st).1.sources.getD s {}).closed then
            pollNext fuel (slabRemove (getNext st).1 (idx + (getNext st).1.cur * bucketSize))
          else pollNext fuel (park (getNext st).1 s idx)

/-- number of flags that are set anywhere (bounds the loop of `poll_next`) -/
def flagCount (st : St) : Nat := st.localF.length + st.queueF.length + (st.buckets.map List.length).sum

def poll (st : St) : St × Res := pollNext (flagCount st + 2) st

/-- fire the waker a source holds: flag its stream and wake the outer task -/
def fire (st : St) (s : Nat) : St × Nat :=
  match (st.sources.getD s {}).waker with
  | some (b, i) =>
    ({ setSource st s (fun src => { src with waker := none }) with buckets := st.buckets.modify b (fun f => fInsert f i) }, 1)
  | none => (st, 0)

inductive Op
  | add
  | addn (k : Nat)
  | push (s x : Nat)
  | close (s : Nat)
  | poll
  | empty
  deriving Repr

def addMany : Nat → St → St
  | 0, st => st
  | k + 1, st => addMany k (add st)

/-- one operation: (state, result text, wakes of the outer task) -/
def step (st : St) : Op → St × String × Nat
  | .add => (add st, "ok", 0)
  | .addn k => (addMany k st, "ok", 0)
  | .push s x =>
    if s < st.sources.length then
      if (st.sources.getD s {}).closed then (st, "ok", 0)     -- a closed source accepts nothing
      else
        let st1 := { setSource st s (fun src => { src with q := src.q ++ [x] }) with pushed := st.pushed ++ [(s, x)] }
        ((fire st1 s).1, "ok", (fire st1 s).2)
    else (st, "bad-op", 0)
  | .close s =>
    if s < st.sources.length then
      let st1 := setSource st s (fun src => { src with closed := true })
      ((fire st1 s).1, "ok", (fire st1 s).2)
    else (st, "bad-op", 0)
  | .poll =>
    match poll st with
    | (st1, .item x) => (st1, s!"item {x}", 0)
    | (st1, .none) => (st1, "none", 0)
    | (st1, .pending) => (st1, "pending", 0)
  | .empty => (st, s!"empty {slabEmpty st}", 0)

def run (st : St) (ops : List Op) : St := ops.foldl (fun s op => (step s op).1) st

/-! ### line protocol -/

def parseOp (line : String) : Option Op :=
  match words line with
  | ["add"] => some .add
  | ["addn", k] => k.toNat?.map .addn
  | ["push", s, x] => do let s ← s.toNat?; let x ← x.toNat?; pure (.push s x)
  | ["close", s] => s.toNat?.map .close
  | ["poll"] => some .poll
  | ["empty"] => some .empty
  | _ => none

def stepLine (st : St) (line : String) : St × String :=
  match parseOp line with
  | some op => let r := step st op; (r.1, s!"{r.2.1} w={r.2.2}")
  | none => (st, "bad-op w=0")

/-! ### monitor (observable level): per-source FIFO, nothing lost, nothing invented, no lost readiness -/

structure Mon where
  queues : List (List Nat) := []     -- per source: pushed and not yet delivered
  closed : List Bool := []
  woken : Bool := true               -- the outer task has been woken (or never parked) since its last `pending`
  deriving Repr

def findSrc (qs : List (List Nat)) (x : Nat) : Option Nat :=
  (qs.zipIdx.find? fun p => p.1.head? == some x).map (·.2)

def Mon.step (m : Mon) (line : String) (out : String) : Mon × Option String :=
  let ws := words out
  let wakes := ((ws.getLast?.getD "w=0").drop 2).toString.toNat?.getD 0
  let m := if wakes > 0 then { m with woken := true } else m
  match parseOp line, ws with
  | some .add, _ => ({ m with queues := m.queues ++ [[]], closed := m.closed ++ [false], woken := true }, none)
  | some (.addn k), _ =>
    ({ m with queues := m.queues ++ List.replicate k [], closed := m.closed ++ List.replicate k false, woken := true }, none)
  | some (.push s x), _ =>
    if s < m.queues.length && !(m.closed.getD s false) then ({ m with queues := m.queues.modify s (· ++ [x]) }, none)
    else (m, none)
  | some (.close s), _ => ({ m with closed := m.closed.set s true }, none)
  | some .empty, _ => (m, none)
  | some .poll, "item" :: v :: _ =>
    match v.toNat? with
    | none => (m, some "unparsable")
    | some x =>
      -- the item must be at the head of some source's queue (items are unique in the generated traces)
      match findSrc m.queues x with
      | some s => ({ m with queues := m.queues.modify s List.tail, woken := true }, none)
      | none =>
        if m.queues.any (fun q => q.contains x) then (m, some "delivered-out-of-source-order")
        else (m, some "delivered-item-never-pushed")
  | some .poll, "pending" :: _ =>
    -- parking is only allowed when no source has an item; a parked task must have been woken when one arrived
    if m.queues.any (fun q => !q.isEmpty) then (m, some "pending-though-item-available")
    else ({ m with woken := false }, none)
  | some .poll, "none" :: _ =>
    if m.queues.any (fun q => !q.isEmpty) then (m, some "ended-though-item-available")
    else (m, none)
  | some .poll, "panic" :: _ => (m, some "multi-reader-panic")
  | _, _ => (m, some "unparsable")

/-- a push to a parked reader must wake it: checked on the `push` line itself -/
def Mon.stepFull (m : Mon) (line : String) (out : String) : Mon × Option String :=
  match parseOp line with
  | some (.push s _) =>
    let wakes := (((words out).getLast?.getD "w=0").drop 2).toString.toNat?.getD 0
    if !m.woken && wakes = 0 && s < m.queues.length && !(m.closed.getD s false) then (m, some "lost-wakeup-on-push")
    else m.step line out
  | _ => m.step line out


/-! ### monitors of the wake-time engines

`mrw`: the task's waker polls the reader at once when a source wakes it; `woke=` lists what those polls returned.
A task woken by a push must find an item: the stream's ready flag has to be published BEFORE the task is woken.
`mrs`: summary line of a multi-threaded run. -/

def fieldOf (key : String) (ws : List String) : String :=
  match ws.find? (fun w => w.startsWith (key ++ "=")) with
  | some w => (w.drop (key.length + 1)).toString
  | none => ""

def deliverItem (m : Mon) (x : Nat) : Mon × Option String :=
  match findSrc m.queues x with
  | some s => ({ m with queues := m.queues.modify s List.tail, woken := true }, none)
  | none =>
    if m.queues.any (fun q => q.contains x) then (m, some "delivered-out-of-source-order")
    else (m, some "delivered-item-never-pushed")

def wakeItems (m : Mon) : List String → Mon × Option String
  | [] => (m, none)
  | w :: ws =>
    if w.startsWith "item:" then
      match (w.drop 5).toString.toNat? with
      | some x => match deliverItem m x with
        | (m', none) => wakeItems m' ws
        | r => r
      | none => (m, some "unparsable")
    else wakeItems m ws

def Mon.stepWake (m : Mon) (line : String) (out : String) : Mon × Option String :=
  let ws := words out
  let woke := fieldOf "woke" ws
  let wakes := if woke == "-" || woke == "" then [] else woke.splitOn ","
  match words line with
  | ["wakepoll"] => (m, none)
  | _ =>
    match parseOp line with
    | some (.push s x) =>
      let m1 := if s < m.queues.length && !(m.closed.getD s false) then { m with queues := m.queues.modify s (· ++ [x]) } else m
      -- the wake caused by this push: the poll made on the spot must find something to read
      match wakes with
      | w :: _ => if w.startsWith "item:" then wakeItems m1 wakes else (m1, some "multireader-woken-before-ready")
      | [] => (m1, none)
    | some (.close s) => wakeItems { m with closed := m.closed.set s true } wakes
    | some .poll =>
      match ws with
      | "item" :: v :: _ => match v.toNat? with
        | some x => deliverItem m x
        | none => (m, some "unparsable")
      | "pending" :: _ =>
        if m.queues.any (fun q => !q.isEmpty) then (m, some "pending-though-item-available") else (m, none)
      | "none" :: _ =>
        if m.queues.any (fun q => !q.isEmpty) then (m, some "ended-though-item-available") else (m, none)
      | _ => (m, some "unparsable")
    | some op => (m.step line "ok w=0").1 |> fun m' => (m', none)
    | none => (m, some "unparsable")

/-- verdict on one multi-threaded run -/
def stressVerdict (out : String) : Option String :=
  let ws := words out
  let n := fun k => (fieldOf k ws).toNat?
  match n "pushed", n "delivered", n "dup", n "disorder", n "stuck", n "dead" with
  | some p, some d, some dup, some dis, some stuck, some dead =>
    if dead > 0 || stuck > 0 then some "multireader-lost-wakeup-under-threads"
    else if dup > 0 then some "multireader-item-duplicated"
    else if dis > 0 then some "multireader-order-violated"
    else if d ≠ p then some "multireader-item-lost"
    else none
  | _, _, _, _, _, _ => some "unparsable"

end SwimVerif.MultiReader
