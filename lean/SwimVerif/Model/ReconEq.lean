/-
C15: comparing / hashing Recon text without deserialising it (`swimos_recon::{compare_recon_values, recon_hash}`).

Modelled, branch by branch, AS THE CODE IS:
* the tokens in both nom modes (`tokens.rs`: `string_literal`, `identifier`, `numeric_literal`, `blob`; `streaming` =
  `Incomplete` when the lexer runs into the end of the input, `complete` = what `Model/Recon.lean` already defines);
* the pushdown automaton `IncrementalReconParser::parse` with its `FinalSegmentParser` and the driving loop of
  `ParseIterator` / `HashParser::hash` (`recon_parser/record/mod.rs`): `run` turns a text into the `ReadEvent`s, each
  with the `has_next` flag of `take_event` and the input that remained after the step that produced it;
* `ValueMaterializer` (`swimos_form/.../from_model/mod.rs`): events → `Value` (`materialize`), so `parseValue` is
  `parse_recognize::<Value>(text, false)` rebuilt from the automaton (independent of the reference parser of C09);
* `ValueValidator` with its hand-written `PartialEq`, and `incremental_compare` (`comparator/mod.rs`): `compareRecon`;
* `HashParser::hash` with `is_implicit_record` (a scan of the *text* after `@name(`) and the `Hash` impls of
  `ReadEvent` / `NumericValue` / `BigInt` as the sequence of `Hasher::write_*` calls: `hashCalls`.
Specification side: `veq` (`Value::eq`: integer kinds ignored, `NaN == NaN`, `0.0 == -0.0`), the canonical event
stream of a value `evsV` and the normal form `hnorm` the hash is meant to respect.

Floats are exact decimals (as in C09); the model judges `f64` equality by canonical decimal, which is exact on the
*float fragment*: every float literal has at most 15 significant digits and an exponent of at most two digits
(`inFloatFragment`, the same textual test as the harness).
-/
import SwimVerif.Model.Recon
import SwimVerif.Model.ReconProto
import SwimVerif.Generated.ReconEqConsts

namespace SwimVerif.ReconEq
open SwimVerif.Recon
open SwimVerif.Generated.ReconEq

/-! ## Events (`swimos_form::read::ReadEvent`, `NumericValue`) -/

/-- `NumericValue`: the tokenizer's kinds (`try_to_int_literal`), floats as exact decimals. -/
inductive Num where
  | int (n : Int)       -- `Int(i64)`
  | uint (n : Int)      -- `UInt(u64)`
  | bigint (n : Int)    -- `BigInt`
  | biguint (n : Int)   -- `BigUint`
  | float (f : Flt)     -- `Float(f64)`
  deriving DecidableEq, Repr

inductive Event where
  | extant
  | text (s : List Char)
  | num (n : Num)
  | bool (b : Bool)
  | blob (bs : List Nat)
  | startAttr (name : List Char)
  | endAttr
  | startBody
  | slot
  | endRecord
  deriving DecidableEq, Repr

/-- The integer an integral `NumericValue` denotes. -/
def Num.intVal : Num → Option Int
  | .int n => some n
  | .uint n => some n
  | .bigint n => some n
  | .biguint n => some n
  | .float _ => none

/-- `f64` equality as used by `NumericValue::eq` and `Value::eq`: `NaN == NaN`, `0.0 == -0.0`, otherwise the same number. -/
def fltEq (x y : Flt) : Bool := fltCanon x == fltCanon y

/-- `<NumericValue as PartialEq>::eq`: every integral pair goes through `try_from` / `to_i64` / `to_u64` / `to_bigint`
conversions that succeed exactly when the two denote the same integer (the kinds carry their ranges); an integral
value never equals a float. -/
def Num.beq (a b : Num) : Bool :=
  match a, b with
  | .float x, .float y => fltEq x y
  | .float _, _ => false
  | _, .float _ => false
  | _, _ => a.intVal == b.intVal

/-- Derived `PartialEq` of `ReadEvent` (`Cow<str>` compares as `str`). -/
def Event.beq (a b : Event) : Bool :=
  match a, b with
  | .extant, .extant => true
  | .text s, .text t => s == t
  | .num n, .num m => n.beq m
  | .bool p, .bool q => p == q
  | .blob x, .blob y => x == y
  | .startAttr n, .startAttr m => n == m
  | .endAttr, .endAttr => true
  | .startBody, .startBody => true
  | .slot, .slot => true
  | .endRecord, .endRecord => true
  | _, _ => false

/-! ## Tokens in both nom modes -/

/-- Result of a nom parser: `ok`, `Err::Incomplete` (`inc`; streaming mode only), `Err::Error` / `Err::Failure` (`err`;
after a `cut` failure no other alternative of the enclosing `alt`s can match, so the two are not distinguished). -/
inductive Lx (α : Type) where
  | ok (a : α) (rest : List Char)
  | inc
  | err
  deriving Repr

/-- `string_literal` (always the streaming combinators): `Incomplete` until the closing quote is seen; invalid
escapes are an `Error` (`map_res`). -/
def lexStr (inp : List Char) : Lx (List Char) :=
  match inp with
  | [] => .inc
  | c :: r =>
    if c = '"' then
      match scanString r with
      | none => .inc
      | some (body, rest) =>
        match unescape body with
        | .ok s => .ok s rest
        | _ => .err
    else .err

/-- `complete(string_literal)`. -/
def lexStrC (inp : List Char) : Lx (List Char) :=
  match lexStr inp with
  | .inc => .err
  | r => r

/-- `identifier` (`st` = streaming: a run of identifier characters that reaches the end of the input is `Incomplete`). -/
def lexIdentM (st : Bool) (inp : List Char) : Lx (List Char) :=
  match inp with
  | [] => if st then .inc else .err
  | c :: r =>
    if isIdentStart c then
      (if st && (r.dropWhile isIdentChar).isEmpty then .inc
       else .ok (c :: r.takeWhile isIdentChar) (r.dropWhile isIdentChar))
    else .err

/-- `try_to_int_literal`. -/
def mkInt (neg : Bool) (mag : Nat) : Num :=
  if (mag : Int) ≤ u64Max then
    (if neg then (if (mag : Int) ≤ i64Max then .int (-(mag : Int)) else .bigint (-(mag : Int))) else .uint mag)
  else (if neg then .bigint (-(mag : Int)) else .biguint mag)

/-- `signed(natural(tag, digits))` then `try_to_int_literal`: `-`? `0b`/`0x` (any case) digit+. -/
def lexRadixM (st : Bool) (tagc tagC : Char) (isD : Char → Bool) (radix : Nat) (inp : List Char) : Lx Num :=
  match (stripSign inp).2 with
  | [] => if st then .inc else .err
  | [c] => if c = '0' then (if st then .inc else .err) else .err
  | c :: t :: r' =>
    if c = '0' ∧ (t = tagc ∨ t = tagC) then
      match r'.takeWhile isD, r'.dropWhile isD with
      | [], [] => if st then .inc else .err
      | [], _ :: _ => .err
      | d :: ds, [] => if st then .inc else .ok (mkInt (stripSign inp).1 (readRadix radix (d :: ds))) []
      | d :: ds, x :: rest => .ok (mkInt (stripSign inp).1 (readRadix radix (d :: ds))) (x :: rest)
    else .err

/-- Does the optional exponent of the streaming `recognize_float` run into the end of the input (`r` non-empty)? -/
def expInc (r : List Char) : Bool :=
  match r with
  | [] => true
  | c :: r' =>
    if c = 'e' ∨ c = 'E' then
      match r' with
      | [] => true
      | _ :: _ =>
        match (stripPlusMinus r').2.dropWhile isDigit with
        | [] => true          -- no more input where `digit1` wants a (further) digit
        | _ :: _ => false
    else false

/-- The part of the streaming `recognize_float` after the optional sign. -/
def fltIncBody (r : List Char) : Bool :=
  match r with
  | [] => true
  | _ :: _ =>
    match r.takeWhile isDigit, r.dropWhile isDigit with
    | _ :: _, [] => true
    | _ :: _, '.' :: r2 => if (r2.dropWhile isDigit).isEmpty then true else expInc (r2.dropWhile isDigit)
    | _ :: _, x :: r1 => expInc (x :: r1)
    | [], _ =>
      match r with
      | '.' :: r2 =>
        (match r2.takeWhile isDigit, r2.dropWhile isDigit with
         | _, [] => true
         | [], _ :: _ => false
         | _ :: _, x :: r3 => expInc (x :: r3))
      | _ => false

/-- Does the streaming `recognize_float` return `Incomplete` on this input? -/
def fltInc (inp : List Char) : Bool := fltIncBody (stripPlusMinus inp).2

/-- `map(number::double, NumericValue::Float)`. -/
def lexFloatM (st : Bool) (inp : List Char) : Lx Num :=
  if st && fltInc inp then .inc else
  match lexFloat inp with
  | some (.float f, rest) => if st && rest.isEmpty then .inc else .ok (.float f) rest
  | _ => .err

/-- `decimal_or_float`: an integer unless `.`/`e`/`E` follows the digits, then a float. -/
def lexDecimalM (st : Bool) (inp : List Char) : Lx Num :=
  match inp with
  | [] => if st then .inc else .err
  | _ :: _ =>
    match (stripSign inp).2 with
    | [] => if st then .inc else lexFloatM st inp
    | x :: r =>
      match (x :: r).takeWhile isDigit, (x :: r).dropWhile isDigit with
      | [], _ => lexFloatM st inp
      | d :: ds, [] => if st then .inc else .ok (mkInt (stripSign inp).1 (Nat.ofDigitChars 10 (d :: ds) 0)) []
      | d :: ds, c :: rest =>
        if c = '.' ∨ c = 'e' ∨ c = 'E' then lexFloatM st inp
        else .ok (mkInt (stripSign inp).1 (Nat.ofDigitChars 10 (d :: ds) 0)) (c :: rest)

/-- `numeric_literal = alt((binary, hexadecimal, decimal_or_float))`. -/
def lexNumM (st : Bool) (inp : List Char) : Lx Num :=
  match inp with
  | [] => if st then .inc else .err
  | _ :: _ =>
    match lexRadixM st 'b' 'B' isBinDigit 2 inp with
    | .err =>
      (match lexRadixM st 'x' 'X' isHexDigit 16 inp with
       | .err => lexDecimalM st inp
       | r => r)
    | r => r

/-- Does the optional final block of the streaming `base64` run into the end of the input? -/
def b64FinalInc (inp : List Char) : Bool :=
  match inp with
  | [] => true
  | [a] => isB64 a
  | [a, b] => isB64 a && isB64 b
  | [a, b, c] => isB64 a && isB64 b && (isB64 c || c = '=')
  | _ => false

/-- Does the streaming `base64` (`many0_count(block)` then `opt(final_block)`) return `Incomplete`? -/
def b64Inc : Nat → List Char → Bool
  | 0, _ => false
  | fuel + 1, inp =>
    match inp with
    | a :: b :: c :: d :: r =>
      if isB64 a && isB64 b && isB64 c && isB64 d then b64Inc fuel r else false
    | _ => if inp.all isB64 then true else b64FinalInc inp

/-- `blob`: `%` + base64, decoded with `STANDARD`. -/
def lexBlobM (st : Bool) (inp : List Char) : Lx (List Nat) :=
  match inp with
  | [] => if st then .inc else .err
  | c :: r =>
    if c = '%' then
      (if st && b64Inc (r.length + 1) r then .inc else
       match lexB64 (r.length + 1) r with
       | some (bs, rest) => .ok bs rest
       | none => .err)
    else .err

/-- `identifier_event`. -/
def identEvent (s : List Char) : Event :=
  if s = "true".toList then .bool true else if s = "false".toList then .bool false else .text s

/-- The four primitive tokens in the order every `alt` tries them: `string_literal`, `identifier_or_bool`,
`numeric_literal`, `blob` (`st` = mode of the last three; the string literal is always streaming). -/
def lexPrimM (st : Bool) (inp : List Char) : Lx Event :=
  match lexStr inp with
  | .ok s r => .ok (.text s) r
  | .inc => .inc
  | .err =>
    match lexIdentM st inp with
    | .ok s r => .ok (identEvent s) r
    | .inc => .inc
    | .err =>
      match lexNumM st inp with
      | .ok n r => .ok (.num n) r
      | .inc => .inc
      | .err =>
        match lexBlobM st inp with
        | .ok bs r => .ok (.blob bs) r
        | .inc => .inc
        | .err => .err

/-- `attr_name = alt((string_literal, identifier))`, streaming. -/
def lexName (r : List Char) : Lx (List Char) :=
  match lexStr r with
  | .err => lexIdentM true r
  | x => x

/-- `attr`: `@` + `attr_name` + `opt(char('('))`, all streaming: name, has a body, rest. -/
def lexAttr (inp : List Char) : Lx (List Char × Bool) :=
  match inp with
  | [] => .inc
  | c :: r =>
    if c = '@' then
      match lexName r with
      | .ok nm r' =>
        (match r' with
         | [] => .inc
         | p :: r'' => if p = '(' then .ok (nm, true) r'' else .ok (nm, false) (p :: r''))
      | .inc => .inc
      | .err => .err
    else .err

/-- `attr_final`: `@` + `alt((complete(string_literal), complete::identifier))`. -/
def lexAttrFinal (inp : List Char) : Lx (List Char) :=
  match inp with
  | [] => .err
  | c :: r =>
    if c = '@' then
      (match lexStrC r with
       | .err => lexIdentM false r
       | x => x)
    else .err

/-- Streaming `line_ending`. -/
def lineEndM (inp : List Char) : Lx Unit :=
  match inp with
  | [] => .inc
  | '\n' :: r => .ok () r
  | ['\r'] => .inc
  | '\r' :: '\n' :: r => .ok () r
  | _ => .err

/-! ## The pushdown automaton (`IncrementalReconParser`, `FinalSegmentParser`) -/

/-- The five states of an item sequence (`AttrBody…` / `RecordBody…`). -/
inductive BSt | startOrNl | afterValue | afterSlot | slot | afterSep
  deriving DecidableEq, Repr

/-- `ParseState`. -/
inductive PS where
  | init
  | afterAttr
  | body (k : Kind) (s : BSt)
  deriving DecidableEq, Repr

/-- One call of `parse`. `ok evs more stack rest`: the events, whether `take_event` reports `has_next` for the
last one too (`TerminateWithAttr`), the new stack (top first) and the remaining input. `fin` = `ParseEvents::End`. -/
inductive Step where
  | ok (evs : List Event) (allMore : Bool) (stack : List PS) (rest : List Char)
  | fin
  | inc
  | err
  | panic
  deriving Repr

/-- `ParseState::after_item` (`none` = the `panic!` arm). -/
def PS.afterItem : PS → Option PS
  | .init => some .afterAttr
  | .body k .startOrNl => some (.body k .afterValue)
  | .body k .afterSep => some (.body k .afterValue)
  | .body k .slot => some (.body k .afterSlot)
  | _ => none

/-- `StateChange::PopAfterItem` on a stack whose top is the frame to pop. -/
def popAfterItem (below : List PS) : Option (List PS) :=
  match below with
  | [] => some []
  | t :: b => (t.afterItem).map fun t' => t' :: b

/-- `StateChange::PopAfterAttr`. -/
def popAfterAttr (below : List PS) : List PS :=
  match below with
  | [] => []
  | _ :: b => .afterAttr :: b

/-- `K::end_event()`. -/
def kindEndEvent : Kind → Event
  | .ab => .endAttr
  | .rb => .endRecord

/-- Apply `K::end_state_change()` and emit `evs`. -/
def endBody (k : Kind) (evs : List Event) (below : List PS) (rest : List Char) : Step :=
  match k with
  | .ab => .ok evs false (popAfterAttr below) rest
  | .rb =>
    match popAfterItem below with
    | some st => .ok evs false st rest
    | none => .panic

/-- `primary_attr` / `secondary_attr` share the token; `primary` decides the state change
(`PushAttrNewRec` vs `PushAttr` / `ChangeState(AfterAttr)`). `cur :: below` is the stack. -/
def attrStep (primary : Bool) (cur : PS) (below : List PS) (inp : List Char) : Step :=
  match lexAttr inp with
  | .ok (nm, true) rest =>
    if primary then .ok [.startAttr nm] false (.body .ab .startOrNl :: .init :: cur :: below) rest
    else .ok [.startAttr nm] false (.body .ab .startOrNl :: cur :: below) rest
  | .ok (nm, false) rest =>
    if primary then .ok [.startAttr nm, .endAttr] false (.afterAttr :: cur :: below) rest
    else .ok [.startAttr nm, .endAttr] false (.afterAttr :: below) rest
  | .inc => .inc
  | .err => .err

/-- `parse_init` (input after `multispace0`, non-empty). `change = None` clears the stack. -/
def stepInit (below : List PS) (inp : List Char) : Step :=
  match lexPrimM false inp with
  | .ok e rest => .ok [e] false [] rest
  | .inc => .inc
  | .err =>
    match attrStep false .init below inp with
    | .err =>
      (match inp with
       | '{' :: rest => .ok [.startBody] false (.body .rb .startOrNl :: below) rest
       | _ => .err)
    | r => r

/-- Streaming `peek(alt((recognize(alt((separator, one_of(")}:")))), line_ending)))`. -/
def peekTerminator (inp : List Char) : Lx Unit :=
  match inp with
  | [] => .inc
  | c :: _ =>
    if isSep c || c = ')' || c = '}' || c = ':' then .ok () inp
    else match lineEndM inp with
      | .ok _ _ => .ok () inp
      | .inc => .inc
      | .err => .err

/-- `parse_after_attr` (input after `space0`, non-empty). -/
def stepAfterAttr (below : List PS) (inp : List Char) : Step :=
  match lexPrimM true inp with
  | .ok e rest =>
    (match popAfterItem below with
     | some st => .ok [.startBody, e, .endRecord] false st rest
     | none => .panic)
  | .inc => .inc
  | .err =>
    match attrStep false .afterAttr below inp with
    | .err =>
      (match inp with
       | '{' :: rest => .ok [.startBody] false (.body .rb .startOrNl :: below) rest
       | _ =>
         match peekTerminator inp with
         | .ok _ _ =>
           (match popAfterItem below with
            | some st => .ok [.startBody, .endRecord] false st inp
            | none => .panic)
         | .inc => .inc
         | .err => .err)
    | r => r

/-- `parse_not_after_item::<K>(item_required)` (input after `multispace0`, non-empty). -/
def stepNotAfterItem (k : Kind) (req : Bool) (cur : PS) (below : List PS) (inp : List Char) : Step :=
  match lexPrimM true inp with
  | .ok e rest => .ok [e] false (.body k .afterValue :: below) rest
  | .inc => .inc
  | .err =>
    match inp with
    | [] => .inc
    | c :: rest =>
      if isSep c then .ok [.extant] false (.body k .afterSep :: below) rest
      else if c = ':' then .ok [.extant, .slot] false (.body k .slot :: below) rest
      else if c = k.close then endBody k (if req then [.extant, (kindEndEvent k)] else [(kindEndEvent k)]) below rest
      else
        match attrStep true cur below inp with
        | .err => if c = '{' then .ok [.startBody] false (.body .rb .startOrNl :: cur :: below) rest else .err
        | r => r

/-- `parse_slot_value::<K>` (input after `space0`, non-empty). -/
def stepSlotValue (k : Kind) (cur : PS) (below : List PS) (inp : List Char) : Step :=
  match lexPrimM true inp with
  | .ok e rest => .ok [e] false (.body k .afterSlot :: below) rest
  | .inc => .inc
  | .err =>
    match lineEndM inp with
    | .ok _ rest => .ok [.extant] false (.body k .startOrNl :: below) rest
    | .inc => .inc
    | .err =>
      match inp with
      | [] => .inc
      | c :: rest =>
        if isSep c then .ok [.extant] false (.body k .afterSep :: below) rest
        else if c = k.close then endBody k [.extant, (kindEndEvent k)] below rest
        else
          match attrStep true cur below inp with
          | .err => if c = '{' then .ok [.startBody] false (.body .rb .startOrNl :: cur :: below) rest else .err
          | r => r

/-- `parse_after_value::<K>` / `parse_after_slot::<K>` (`slotOk` = a `:` may follow). -/
def stepAfterItem (k : Kind) (slotOk : Bool) (below : List PS) (inp : List Char) : Step :=
  match lineEndM inp with
  | .ok _ rest => .ok [] false (.body k .startOrNl :: below) rest
  | .inc => .inc
  | .err =>
    match inp with
    | [] => .inc
    | c :: rest =>
      if isSep c then .ok [] false (.body k .afterSep :: below) rest
      else if slotOk && c = ':' then .ok [.slot] false (.body k .slot :: below) rest
      else if c = k.close then endBody k [(kindEndEvent k)] below rest
      else .err

/-- `<IncrementalReconParser as Parser>::parse`. -/
def step (stack : List PS) (inp : List Char) : Step :=
  match stack with
  | [] => .fin
  | top :: below =>
    match skipSpaces inp with
    | [] => .inc                      -- streaming `space0`
    | x :: i1 =>
      match top with
      | .init =>
        (match skipMulti (x :: i1) with
         | [] => .inc
         | y :: i2 => stepInit below (y :: i2))
      | .afterAttr => stepAfterAttr below (x :: i1)
      | .body k .startOrNl =>
        (match skipMulti (x :: i1) with
         | [] => .inc
         | y :: i2 => stepNotAfterItem k false top below (y :: i2))
      | .body k .afterSep =>
        (match skipMulti (x :: i1) with
         | [] => .inc
         | y :: i2 => stepNotAfterItem k true top below (y :: i2))
      | .body k .afterValue => stepAfterItem k true below (x :: i1)
      | .body k .afterSlot => stepAfterItem k false below (x :: i1)
      | .body k .slot => stepSlotValue k top below (x :: i1)

/-- The three complete primitive tokens of the final parsers (no string literal there). -/
def lexPrimFinal (inp : List Char) : Lx Event :=
  match lexIdentM false inp with
  | .ok s r => .ok (identEvent s) r
  | _ =>
    match lexNumM false inp with
    | .ok n r => .ok (.num n) r
    | _ =>
      match lexBlobM false inp with
      | .ok bs r => .ok (.blob bs) r
      | _ => .err

/-- `into_final_parser` + `FinalSegmentParser::parse`: only from the stacks `[Init]` and `[AfterAttr]`. -/
def finalStep (stack : List PS) (inp : List Char) : Step :=
  match stack with
  | [.init] =>
    (match skipMulti inp with
     | [] => .ok [.extant] false [] []
     | x :: r =>
       match lexPrimFinal (x :: r) with
       | .ok e rest => .ok [e] false [] rest
       | _ =>
         match lexAttrFinal (x :: r) with
         | .ok nm rest => .ok [.startAttr nm, .endAttr, .startBody, .endRecord] true [] rest
         | _ => .err)
  | [.afterAttr] =>
    (match skipSpaces inp with
     | [] => .ok [.startBody, .endRecord] false [] []
     | x :: r =>
       match lexPrimFinal (x :: r) with
       | .ok e rest => .ok [.startBody, e, .endRecord] false [] rest
       | _ =>
         match lexAttrFinal (x :: r) with
         | .ok nm rest => .ok [.startAttr nm, .endAttr, .startBody, .endRecord] true [] rest
         | _ => .err)
  | _ => .err

/-- One event as `take_event` hands it out: the event, `has_next`, and the parser's remaining input at that time. -/
structure Emit where
  ev : Event
  more : Bool
  rest : List Char
  deriving Repr

/-- How the event stream ends: the parser finished, an error item, a `panic!`, or the model ran out of fuel. -/
inductive Term | fin | err | panic | fuel
  deriving DecidableEq, Repr

def emits (evs : List Event) (allMore : Bool) (rest : List Char) : List Emit :=
  match evs with
  | [] => []
  | [e] => [{ ev := e, more := allMore, rest := rest }]
  | e :: es => { ev := e, more := true, rest := rest } :: emits es allMore rest

/-- The loop of `ParseIterator::next` / `HashParser::hash`. -/
def runFrom : Nat → List PS → List Char → List Emit × Term
  | 0, _, _ => ([], .fuel)
  | fuel + 1, stack, inp =>
    match step stack inp with
    | .fin => ([], .fin)
    | .ok evs am stack' rest =>
      let r := runFrom fuel stack' rest
      (emits evs am rest ++ r.1, r.2)
    | .inc =>
      (match finalStep stack inp with
       | .ok evs am _ rest => (emits evs am rest, .fin)
       | .panic => ([], .panic)
       | _ => ([], .err))
    | .err => ([], .err)
    | .panic => ([], .panic)

/-- Every successful step consumes a character or pops a frame, so `12 * length + 8` steps are plenty (the proofs about
printer output use at most `4 * size ≤ 8 * length + 4`); running out of fuel is a distinct outcome (`fuel`), never
confused with a verdict. -/
def run (inp : List Char) : List Emit × Term := runFrom (12 * inp.length + 8) [.init] inp

/-- The items `ParseIterator` yields: the events, then `Some(Err(_))` if the stream ended in an error. -/
def eventsOf (r : List Emit × Term) : List Event × Term := (r.1.map (·.ev), r.2)

def events (inp : List Char) : List Event × Term := eventsOf (run inp)

/-! ## `ValueMaterializer`: events → `Value` -/

/-- `Item` of a record under construction. -/
inductive It where
  | val (v : Value)
  | slot (k v : Value)
  deriving DecidableEq

/-- `RecordKey`. -/
inductive RKey where
  | noKey
  | slot (k : Value)
  | attr (name : List Char)
  deriving DecidableEq

/-- `RecordBuilder`; `attrs` and `items` are kept last-first. -/
structure RB where
  key : RKey
  attrs : List (List Char × Value)
  items : List It
  inBody : Bool

def toAttrs : List (List Char × Value) → Attrs → Attrs
  | [], acc => acc
  | (n, v) :: r, acc => toAttrs r (.cons n v acc)

def toItems : List It → Items → Items
  | [], acc => acc
  | .val v :: r, acc => toItems r (.val v acc)
  | .slot k v :: r, acc => toItems r (.slot k v acc)

/-- `Value::Record(attrs, items)` from the reversed builders. -/
def mkRecord (attrs : List (List Char × Value)) (items : List It) : Value :=
  .record (toAttrs attrs .nil) (toItems items .nil)

structure MSt where
  stack : List RB := []          -- top first
  slotKey : Option Value := none

/-- `recognize_item` on a number: the `Value` kind the materializer chooses. -/
def numValue : Num → Value
  | .int n => .int (if -i32Max - 1 ≤ n ∧ n ≤ i32Max then .i32 else .i64) n
  | .uint n => .int (if n ≤ i32Max then .i32 else if n ≤ i64Max then .i64 else if n ≤ 4294967295 then .u32 else .u64) n
  | .bigint n => .int .big n
  | .biguint n => .int .ubig n
  | .float f => .float f

/-- `ItemEvent::Primitive`. -/
def primValue : Event → Option Value
  | .extant => some .extant
  | .text s => some (.text s)
  | .num n => some (numValue n)
  | .bool b => some (.bool b)
  | .blob bs => some (.data bs)
  | _ => none

/-- `new_record_frame`. -/
def MSt.newRecordFrame (m : MSt) (inBody : Bool) : MSt :=
  match m.slotKey with
  | some k => { stack := { key := .slot k, attrs := [], items := [], inBody := inBody } :: m.stack, slotKey := none }
  | none => { stack := { key := .noKey, attrs := [], items := [], inBody := inBody } :: m.stack, slotKey := none }

/-- `new_attr_frame`. -/
def MSt.newAttrFrame (m : MSt) (name : List Char) : MSt :=
  let m' := match m.stack with
    | top :: _ => if top.inBody then m.newRecordFrame false else m
    | [] => m.newRecordFrame false
  { m' with stack := { key := .attr name, attrs := [], items := [], inBody := true } :: m'.stack }

/-- `add_item`. -/
def MSt.addItem (m : MSt) (v : Value) : Option MSt :=
  match m.stack with
  | [] => none
  | top :: rest =>
    if top.inBody then
      match m.slotKey with
      | some k => some { stack := { top with items := .slot k v :: top.items } :: rest, slotKey := none }
      | none => some { stack := { top with items := .val v :: top.items } :: rest, slotKey := none }
    else none

/-- `pop(is_attr_end)`: `none` = error, `some (m, done?)`. -/
def MSt.pop (m : MSt) (isAttrEnd : Bool) : Option (MSt × Option Value) :=
  match m.stack with
  | [] => none
  | top :: rest =>
    match top.key with
    | .noKey =>
      if isAttrEnd then none else
      (match rest with
       | [] => some ({ m with stack := [] }, some (mkRecord top.attrs top.items))
       | p :: rest' => some ({ m with stack := { p with items := .val (mkRecord top.attrs top.items) :: p.items } :: rest' }, none))
    | .slot k =>
      if isAttrEnd then none else
      (match rest with
       | [] => none
       | p :: rest' => some ({ m with stack := { p with items := .slot k (mkRecord top.attrs top.items) :: p.items } :: rest' }, none))
    | .attr name =>
      if isAttrEnd then
        let body : Value :=
          if top.attrs.isEmpty && top.items.length ≤ 1 then
            match top.items with
            | [.val v] => v
            | [.slot k v] => .record .nil (.slot k v .nil)
            | _ => .extant
          else mkRecord top.attrs top.items
        (match rest with
         | [] => none
         | p :: rest' => some ({ m with stack := { p with attrs := (name, body) :: p.attrs } :: rest' }, none))
      else none

/-- `<ValueMaterializer as Recognizer>::feed_event`: `none` = more events wanted. -/
def MSt.feed (m : MSt) (e : Event) : MSt × Option (Option Value) :=
  match m.stack with
  | [] =>
    (match primValue e with
     | some v => (m, some (some v))
     | none =>
       match e with
       | .startAttr n => (m.newAttrFrame n, none)
       | .startBody => (m.newRecordFrame true, none)
       | _ => (m, some none))
  | top :: rest =>
    (match primValue e with
     | some v =>
       (match m.addItem v with
        | some m' => (m', none)
        | none => (m, some none))
     | none =>
       match e with
       | .startAttr n => (m.newAttrFrame n, none)
       | .startBody =>
         if top.inBody then (m.newRecordFrame true, none)
         else ({ m with stack := { top with inBody := true } :: rest }, none)
       | .slot =>
         (match top.items with
          | .val v :: its => ({ stack := { top with items := its } :: rest, slotKey := some v }, none)
          | _ :: its => ({ stack := { top with items := its } :: rest, slotKey := some .extant }, none)
          | [] => ({ m with slotKey := some .extant }, none))
       | .endAttr =>
         (match m.pop true with
          | some (m', _) => (m', none)
          | none => (m, some none))
       | .endRecord =>
         (match m.pop false with
          | some (m', some v) => (m', some (some v))
          | some (m', none) => (m', none)
          | none => (m, some none))
       | _ => (m, some none))

/-- `try_flush`. -/
def MSt.flush (m : MSt) : Option Value :=
  match m.stack with
  | [] => some .extant
  | [top] => if top.inBody then none else some (mkRecord top.attrs [])
  | _ => none

/-- `parse_recognize_with`: feed until the recognizer answers; an error item of the iterator is an error. -/
def materialize : MSt → List Event → Term → Option Value
  | m, [], t => if t = .fin then m.flush else none
  | m, e :: es, t =>
    match m.feed e with
    | (_, some r) => r
    | (m', none) => materialize m' es t

/-- `parse_recognize::<Value>(text, false)`. -/
def parseOf (r : List Emit × Term) : Option Value := materialize {} (eventsOf r).1 (eventsOf r).2

def parseValue (inp : List Char) : Option Value := parseOf (run inp)

/-! ## `ValueValidator` (comparator/mod.rs) -/

inductive ValueType where
  | primitive
  | record (attrs items : Nat)
  deriving DecidableEq, Repr

def ValueType.len : ValueType → Nat
  | .primitive => 1
  | .record a i => (if a = 0 then 1 else a) + (if i = 0 then 1 else i)

inductive ItemType where
  | value (v : ValueType)
  | slot (k v : ValueType)
  deriving DecidableEq, Repr

def ItemType.len : ItemType → Nat
  | .value v => v.len
  | .slot k v => k.len + v.len

inductive KeyState where
  | noKey
  | attr
  | slot (k : ValueType)
  deriving DecidableEq, Repr

structure ItemCollection where
  last : Option ItemType := none
  restSize : Nat := 0
  itemsCount : Nat := 0
  deriving DecidableEq, Repr

def ItemCollection.itemsLen (c : ItemCollection) : Nat :=
  match c.last with
  | some l => c.restSize + l.len
  | none => c.restSize

def ItemCollection.push (c : ItemCollection) (item : ItemType) : ItemCollection :=
  { last := some item,
    restSize := (match c.last with | some l => c.restSize + l.len | none => c.restSize),
    itemsCount := c.itemsCount + 1 }

structure BuilderState where
  key : KeyState
  inBody : Bool
  attrs : Nat := 0
  items : ItemCollection := {}
  deriving DecidableEq, Repr

inductive VState | init | inProgress | invalid
  deriving DecidableEq, Repr

/-- `ValueValidator`; the stack is kept top first (`stack.last()` = head). -/
structure VV where
  state : VState := .init
  stack : List BuilderState := []
  slotKey : Option ValueType := none
  deriving DecidableEq, Repr

/-- The inner `while let Some(next) = iter.peek()` loops: absorb the following `NoKey` builders (bottom-up order). -/
def absorbNoKey : List BuilderState → Nat → Nat → Nat × Nat × List BuilderState
  | [], il, al => (il, al, [])
  | b :: r, il, al =>
    if b.key = .noKey then absorbNoKey r (il + b.items.itemsLen) (al + b.attrs) else (il, al, b :: r)

theorem absorbNoKey_length (l : List BuilderState) (il al : Nat) : (absorbNoKey l il al).2.2.length ≤ l.length := by
  induction l generalizing il al with
  | nil => simp [absorbNoKey]
  | cons b r ih =>
    unfold absorbNoKey
    split
    · exact Nat.le_succ_of_le (ih _ _)
    · simp

/-- The `(InProgress, InProgress)` loop of `<ValueValidator as PartialEq>::eq` over the two stacks bottom-up.
Once one side is exhausted the remaining builders of the other are skipped whatever they hold (both branches of
the `(Some(_), None)` arms fall through to the next iteration), so the loop ends with `true`. -/
def stacksEq : Nat → List BuilderState → List BuilderState → Bool
  | 0, _, _ => true
  | fuel + 1, s :: ss, o :: os =>
    let a := absorbNoKey ss s.items.itemsLen s.attrs
    let b := absorbNoKey os o.items.itemsLen o.attrs
    if a.1 = b.1 ∧ a.2.1 = b.2.1 then stacksEq fuel a.2.2 b.2.2 else false
  | _ + 1, _, _ => true

/-- `<ValueValidator as PartialEq>::eq`. -/
def VV.beq (a b : VV) : Bool :=
  if a.slotKey = b.slotKey then
    match a.state, b.state with
    | .inProgress, .inProgress => stacksEq (a.stack.length + b.stack.length + 1) a.stack.reverse b.stack.reverse
    | .init, .init => true
    | _, _ => false
  else false

/-- `new_record_frame`. -/
def VV.newRecordFrame (v : VV) (inBody : Bool) : VV :=
  match v.slotKey with
  | some k => { v with stack := { key := .slot k, inBody := inBody } :: v.stack, slotKey := none }
  | none => { v with stack := { key := .noKey, inBody := inBody } :: v.stack, slotKey := none }

/-- `new_attr_frame`. -/
def VV.newAttrFrame (v : VV) : VV :=
  let v' := match v.stack with
    | top :: _ => if top.inBody then v.newRecordFrame false else v
    | [] => v.newRecordFrame false
  { v' with stack := { key := .attr, inBody := true } :: v'.stack }

/-- `add_item(ValueType::Primitive)`: `none` = `Err(())`. The slot key is taken before the stack is inspected. -/
def VV.addItem (v : VV) (val : ValueType) : Option VV :=
  match v.stack with
  | [] => none
  | top :: rest =>
    if top.inBody then
      match v.slotKey with
      | some k => some { v with stack := { top with items := top.items.push (.slot k val) } :: rest, slotKey := none }
      | none => some { v with stack := { top with items := top.items.push (.value val) } :: rest, slotKey := none }
    else none

/-- `pop(is_attr_end)`. -/
def VV.pop (v : VV) (isAttrEnd : Bool) : Option (VV × Option ValueType) :=
  match v.stack with
  | [] => none
  | top :: rest =>
    match top.key with
    | .noKey =>
      if isAttrEnd then none else
      (match rest with
       | [] => some ({ v with stack := [] }, some (.record top.attrs top.items.itemsLen))
       | p :: rest' =>
         some ({ v with stack := { p with items := p.items.push (.value (.record top.attrs top.items.itemsLen)) } :: rest' }, none))
    | .slot k =>
      if isAttrEnd then none else
      (match rest with
       | [] => none
       | p :: rest' =>
         some ({ v with stack := { p with items := p.items.push (.slot k (.record top.attrs top.items.itemsLen)) } :: rest' }, none))
    | .attr =>
      if isAttrEnd then
        let body : ValueType :=
          if top.attrs = 0 ∧ top.items.itemsCount ≤ 1 then
            match top.items.last with
            | some (.value x) => x
            | some (.slot k x) => .record 0 (ItemType.slot k x).len
            | none => .primitive
          else .record top.attrs top.items.itemsLen
        (match rest with
         | [] => none
         | p :: rest' => some ({ v with stack := { p with attrs := p.attrs + body.len } :: rest' }, none))
      else none

def Event.isPrim : Event → Bool
  | .extant => true
  | .text _ => true
  | .num _ => true
  | .bool _ => true
  | .blob _ => true
  | _ => false

/-- `feed_event`. A failed `pop` has already removed the top builder (`self.stack.pop()` comes first), which is
immaterial: the validator is `Invalid` from then on and `Invalid` never compares equal. -/
def VV.feed (v : VV) (e : Event) : VV × Option ValueType :=
  match v.state with
  | .init =>
    (match e with
     | .startAttr _ => ({ v.newAttrFrame with state := .inProgress }, none)
     | .startBody => ({ v.newRecordFrame true with state := .inProgress }, none)
     | .slot => ({ v with state := .invalid }, none)
     | .endAttr => ({ v with state := .invalid }, none)
     | .endRecord => ({ v with state := .invalid }, none)
     | _ => (v, none))
  | .inProgress =>
    if e.isPrim then
      (match v.addItem .primitive with
       | some v' => (v', none)
       | none => ({ v with state := .invalid, slotKey := none }, none))
    else
      (match e with
       | .startAttr _ => (v.newAttrFrame, none)
       | .startBody =>
         (match v.stack with
          | [] => ({ v with state := .invalid }, none)
          | top :: rest =>
            if top.inBody then (v.newRecordFrame true, none)
            else ({ v with stack := { top with inBody := true } :: rest }, none))
       | .slot =>
         (match v.stack with
          | [] => ({ v with state := .invalid }, none)
          | top :: rest =>
            let key : ValueType := match top.items.last with
              | some (.value x) => x
              | _ => .primitive
            ({ v with stack := { top with items := { top.items with last := none } } :: rest, slotKey := some key }, none))
       | .endAttr =>
         (match v.pop true with
          | some (v', _) => (v', none)      -- `done` is never `Some` for an attribute end
          | none => ({ v with state := .invalid, stack := v.stack.drop 1 }, none))
       | .endRecord =>
         (match v.pop false with
          | some (v', some val) => ({ v' with state := .init }, some val)
          | some (v', none) => (v', none)
          | none => ({ v with state := .invalid, stack := v.stack.drop 1 }, none))
       | _ => (v, none))
  | .invalid => (v, none)

/-! ## `incremental_compare` -/

/-- One item of the event iterator: `Some(Ok(ev))` or `Some(Err(_))` (after which the iterator is finished). -/
inductive SItem where
  | ev (e : Event)
  | bad
  deriving DecidableEq, Repr

def stream (p : List Event × Term) : List SItem :=
  p.1.map .ev ++ (if p.2 = .fin then [] else [.bad])

/-- The `if event == StartBody/EndRecord { feed; next }` step on one side: `none` = `return Some(false)`. -/
def skipIf (target : Event) (v : VV) (e : Event) (rest : List SItem) : Option (VV × Event × List SItem) :=
  if e.beq target then
    match rest with
    | .ev e' :: rest' => some ((v.feed e).1, e', rest')
    | _ => none
  else some (v, e, rest)

/-- Both skips of one side (`StartBody`, then `EndRecord`): `none` = `return Some(false)`. -/
def skipBoth (v : VV) (e : Event) (rest : List SItem) : Option (VV × Event × List SItem) :=
  match skipIf .startBody v e rest with
  | none => none
  | some p => skipIf .endRecord p.1 p.2.1 p.2.2

/-- The check after every iteration of the loop. -/
def afterIter (v1 v2 : VV) : Option (Option Bool) :=
  if v1.beq v2 then none
  else if v1.state = .invalid ∧ v2.state = .invalid then some none
  else some (some false)

/-- `incremental_compare` (`fuel` ≥ total length of the two streams + 1).  In the branch for two different events
the code skips on the first side, then on the second; every failure returns `Some(false)` and the two sides do not
interact, so the order is immaterial and the model evaluates both. -/
def cmpLoop : Nat → VV → VV → List SItem → List SItem → Option Bool
  | 0, _, _, _, _ => some false
  | fuel + 1, v1, v2, a, b =>
    match a, b with
    | .ev e1 :: ra, .ev e2 :: rb =>
      if e1.beq e2 then
        match afterIter (v1.feed e1).1 (v2.feed e2).1 with
        | some r => r
        | none => cmpLoop fuel (v1.feed e1).1 (v2.feed e2).1 ra rb
      else
        match skipBoth v1 e1 ra, skipBoth v2 e2 rb with
        | some p1, some p2 =>
          if p1.2.1.beq p2.2.1 then
            if (p1.1.feed p1.2.1).2 = (p2.1.feed p2.2.1).2 then
              match afterIter (p1.1.feed p1.2.1).1 (p2.1.feed p2.2.1).1 with
              | some r => r
              | none => cmpLoop fuel (p1.1.feed p1.2.1).1 (p2.1.feed p2.2.1).1 p1.2.2 p2.2.2
            else some false
          else some false
        | _, _ => some false
    | .ev e1 :: ra, [] =>
      (match afterIter (v1.feed e1).1 v2 with
       | some r => r
       | none => cmpLoop fuel (v1.feed e1).1 v2 ra [])
    | [], .ev e2 :: rb =>
      (match afterIter v1 (v2.feed e2).1 with
       | some r => r
       | none => cmpLoop fuel v1 (v2.feed e2).1 [] rb)
    | .bad :: _, .bad :: _ => none
    | .bad :: _, _ => some false
    | _, .bad :: _ => some false
    | [], [] => some (v1.beq v2)

def incrementalCompare (a b : List SItem) : Option Bool := cmpLoop (a.length + b.length + 1) {} {} a b

/-- `compare_recon_values`. -/
def compareOf (ra rb : List Emit × Term) (same : Bool) : Bool :=
  match incrementalCompare (stream (eventsOf ra)) (stream (eventsOf rb)) with
  | some r => r
  | none => same

def compareRecon (a b : List Char) : Bool := compareOf (run a) (run b) (a == b)

/-! ## `recon_hash` -/

/-- One call on the `Hasher`. -/
inductive HTok where
  | i (n : Int)        -- `write_isize`: an enum discriminant
  | u (n : Nat)        -- `write_u8`
  | w (n : Int)        -- `write_i128`
  | z (n : Nat)        -- `write_usize`: a length prefix
  | q (f : Flt)        -- `write_u64` of the bits of a float (`NaN` is written as 0 = the bits of `+0.0`)
  | b (bs : List Nat)  -- `write`
  deriving DecidableEq, Repr

/-- `str::hash`. -/
def strCalls (s : List Char) : List HTok := [.b (bytesOfChars s), .u 255]

def inI128 (n : Int) : Bool :=
  decide (-170141183460469231731687303715884105728 ≤ n ∧ n ≤ 170141183460469231731687303715884105727)

/-- Little-endian bytes of the base-2^64 digits of `n` (`fuel` ≥ number of digits). -/
def leDigits64 : Nat → Nat → List Nat
  | 0, _ => []
  | fuel + 1, n =>
    if n = 0 then [] else
    let d := n % 18446744073709551616
    [d % 256, d / 256 % 256, d / 65536 % 256, d / 16777216 % 256, d / 4294967296 % 256, d / 1099511627776 % 256,
      d / 281474976710656 % 256, d / 72057594037927936 % 256] ++ leDigits64 fuel (n / 18446744073709551616)

/-- `<BigInt as Hash>::hash` for a non-zero value: sign discriminant, then `Vec<u64>::hash`. -/
def bigCalls (n : Int) : List HTok :=
  let bytes := leDigits64 (n.natAbs + 1) n.natAbs
  [.i (if n < 0 then 0 else 2), .z (bytes.length / 8), .b bytes]

/-- The float whose bits `NumericValue::hash` writes: `NaN` as `+0.0`; `-0.0` as `+0.0` too once C15-N1 is repaired
(`floatHashZeroNormalised`, read from the source). -/
def hashedFloat (f : Flt) : Flt :=
  match (if floatHashZeroNormalised then fltCanon f else f) with
  | .nan => .fin false 0 0
  | x => x

/-- `<NumericValue as Hash>::hash`. -/
def numCalls : Num → List HTok
  | .float f => [.u floatHash, .q (hashedFloat f)]
  | n =>
    match n.intVal with
    | some v => if inI128 v then [.u intHash, .w v] else .u bigintHash :: bigCalls v
    | none => []

/-- Derived `Hash` of `ReadEvent`: discriminant (declaration order, read from the source), then the fields. -/
def evCalls : Event → List HTok
  | .extant => [.i dExtant]
  | .text s => .i dTextValue :: strCalls s
  | .num n => .i dNumber :: numCalls n
  | .bool b => [.i dBoolean, .u (if b then 1 else 0)]
  | .blob bs => [.i dBlob, .z bs.length, .b bs]
  | .startAttr n => .i dStartAttribute :: strCalls n
  | .endAttr => [.i dEndAttribute]
  | .startBody => [.i dStartBody]
  | .slot => [.i dSlot]
  | .endRecord => [.i dEndRecord]

/-- `is_implicit_record` as a scan of the text (`ValidationState`: `none` = `Top`, `some lvl` = `Nested(lvl + 1)`); the
two `is_not` stop sets are read from the source. -/
def implicitScan : Nat → Option Nat → List Char → Bool
  | 0, _, _ => false
  | fuel + 1, none, inp =>
    -- `Top`: skip `is_not(",;:{()")`, then one of `,` `;` `:` (true) `{` `(` (nest) `)` (false); anything else: false
    (match inp.dropWhile (fun c => !scanTopStops.contains c.toNat) with
     | [] => false
     | c :: r =>
       if c = ',' || c = ';' || c = ':' then true
       else if c = '{' || c = '(' then implicitScan fuel (some 0) r
       else false)
  | fuel + 1, some lvl, inp =>
    (match inp.dropWhile (fun c => !scanNestedStops.contains c.toNat) with
     | [] => false
     | c :: r =>
       if c = '{' || c = '(' then implicitScan fuel (some (lvl + 1)) r
       else if c = ')' || c = '}' then
         (match lvl with
          | 0 => implicitScan fuel none r
          | l + 1 => implicitScan fuel (some l) r)
       else false)

/-- `is_implicit_record` once C15-N2 is repaired: a look-ahead with the parser itself from the state
`[Init, AttrBodyStartOrNl]`; the body is an implicit record if it has a slot or more than one value at its top level. -/
def implicitLook : Nat → Nat → List Event → Bool
  | _, _, [] => false
  | depth, values, e :: es =>
    match e with
    | .startAttr _ => implicitLook (depth + 1) values es
    | .endAttr => if depth = 0 then false else implicitLook (depth - 1) values es
    | .startBody =>
      if depth = 0 then (if 1 ≤ values then true else implicitLook 1 (values + 1) es)
      else implicitLook (depth + 1) values es
    | .endRecord => implicitLook (depth - 1) values es
    | .slot => if depth = 0 then true else implicitLook depth values es
    | _ => if depth = 0 then (if 1 ≤ values then true else implicitLook 0 (values + 1) es) else implicitLook depth values es

/-- `is_implicit_record(input)`: the scan of the text (the code as it is) or the structural look-ahead (repaired),
as the source says (`implicitByStructure`). -/
def isImplicitRecord (inp : List Char) : Bool :=
  if implicitByStructure then
    implicitLook 0 0 ((runFrom (12 * inp.length + 8) [.body .ab .startOrNl, .init] inp).1.map (·.ev))
  else implicitScan (inp.length + 1) none inp

/-- The `while let Some(event_or_end) = events.take_event()` body of `HashParser::hash`. -/
def hashEmits : List Bool → List Emit → List HTok
  | _, [] => []
  | cb, e :: es =>
    match e.ev with
    | .startAttr _ =>
      if !e.more && isImplicitRecord e.rest then evCalls e.ev ++ evCalls .startBody ++ hashEmits (true :: cb) es
      else evCalls e.ev ++ hashEmits (false :: cb) es
    | .endAttr =>
      (match cb with
       | true :: cb' => evCalls .endRecord ++ evCalls .endAttr ++ hashEmits cb' es
       | false :: cb' => evCalls .endAttr ++ hashEmits cb' es
       | [] => evCalls .endAttr ++ hashEmits [] es)
    | _ => evCalls e.ev ++ hashEmits cb es

/-- `recon_hash(text, hasher)`: the calls it makes; if parsing failed the raw string is hashed as well. -/
def hashOf (r : List Emit × Term) (inp : List Char) : List HTok :=
  hashEmits [] r.1 ++ (if r.2 = .fin then [] else strCalls inp)

def hashCalls (inp : List Char) : List HTok := hashOf (run inp) inp

/-! ## Specification side -/

mutual
/-- `<Value as PartialEq>::eq` on parser-produced (range-correct) values: integer kinds are ignored, `NaN == NaN`,
`0.0 == -0.0`, an integer never equals a float. -/
def veq : Value → Value → Bool
  | .extant, .extant => true
  | .int _ n, .int _ m => n == m
  | .float x, .float y => fltEq x y
  | .bool p, .bool q => p == q
  | .text s, .text t => s == t
  | .data x, .data y => x == y
  | .record a i, .record a' i' => aeq a a' && ieq i i'
  | _, _ => false
def aeq : Attrs → Attrs → Bool
  | .nil, .nil => true
  | .cons n v r, .cons n' v' r' => n == n' && veq v v' && aeq r r'
  | _, _ => false
def ieq : Items → Items → Bool
  | .nil, .nil => true
  | .val v r, .val v' r' => veq v v' && ieq r r'
  | .slot k v r, .slot k' v' r' => veq k k' && veq v v' && ieq r r'
  | _, _ => false
end

/-- The `NumericValue` of an integer as the tokenizer would produce it. -/
def numOfInt (n : Int) : Num := mkInt (decide (n < 0)) n.natAbs

mutual
/-- Canonical event stream of a value in item position: what the parser yields for any text of it, with every
attribute body that is a record written out with `StartBody … EndRecord` (the normalisation `HashParser` aims at). -/
def evsV : Value → List Event
  | .extant => [.extant]
  | .int _ n => [.num (numOfInt n)]
  | .float f => [.num (.float f)]
  | .bool b => [.bool b]
  | .text s => [.text s]
  | .data bs => [.blob bs]
  | .record a i => evsA a ++ (.startBody :: (evsI i ++ [.endRecord]))
def evsA : Attrs → List Event
  | .nil => []
  | .cons n v r =>
    (.startAttr n :: ((match v with | .extant => [] | w => evsV w) ++ [.endAttr])) ++ evsA r
def evsI : Items → List Event
  | .nil => []
  | .val v r => evsV v ++ evsI r
  | .slot k v r => evsV k ++ (.slot :: (evsV v ++ evsI r))
end

/-- Hash calls of an event with `-0.0` written as `0.0` (what equality requires). -/
def evCallsN (e : Event) : List HTok :=
  match e with
  | .num (.float f) => [.i dNumber, .u floatHash, .q (match fltCanon f with | .nan => .fin false 0 0 | x => x)]
  | _ => evCalls e

/-- The normal form the hash is meant to respect. -/
def hnorm (v : Value) : List HTok := (evsV v).flatMap evCallsN


/-! ## helpers shared by the monitor and the theorems about `incremental_compare` -/

/-- Two event lists agree event by event. -/
def evsAgree : List Event → List Event → Bool
  | [], [] => true
  | e :: a, f :: b => e.beq f && evsAgree a b
  | _, _ => false

/-- A brace event (the only events `incremental_compare` ever skips). -/
def Event.isBrace (e : Event) : Bool := e.beq .startBody || e.beq .endRecord

/-- The events of a stream without the braces. -/
def leavesOf (es : List Event) : List Event := es.filter fun e => !e.isBrace

/-- Feed a list of events to a validator. -/
def feedAll (v : VV) : List Event → VV
  | [] => v
  | e :: es => feedAll (v.feed e).1 es

/-- The stream is one complete value for the validator: `InProgress` after every proper non-empty prefix, `Init` at
the end (what the parser produces for a valid text). -/
def midOk (v : VV) : List Event → Bool
  | [] => false
  | [e] => (v.feed e).1.state == .init
  | e :: e' :: r => (v.feed e).1.state == .inProgress && midOk (v.feed e).1 (e' :: r)

def singleB (s : List Event) : Bool := midOk {} s


/-! ## `HashParser` at the level of events, and the printers' layout of a value -/

/-- `HashParser::hash` over a list of events, with the implicit-record decision taken on the events that follow
(`implicitLook`, what the repaired `is_implicit_record` computes by reading ahead with the parser). For an attribute
without a body the next event is `EndAttribute` and the look-ahead answers `false`, as the `has_next` test does. -/
def hashEvs : List Bool → List Event → List HTok
  | _, [] => []
  | cb, e :: es =>
    match e with
    | .startAttr _ =>
      if implicitLook 0 0 es then evCalls e ++ evCalls .startBody ++ hashEvs (true :: cb) es
      else evCalls e ++ hashEvs (false :: cb) es
    | .endAttr =>
      (match cb with
       | true :: cb' => evCalls .endRecord ++ evCalls .endAttr ++ hashEvs cb' es
       | false :: cb' => evCalls .endAttr ++ hashEvs cb' es
       | [] => evCalls .endAttr ++ hashEvs [] es)
    | _ => evCalls e ++ hashEvs cb es

/-- May the body of an attribute with this value be written without braces? (a record without attributes that has a
slot as its only item, or at least two items) -/
def implicitBody : Value → Bool
  | .record .nil (.slot _ _ .nil) => true
  | .record .nil (.val _ (.val _ _)) => true
  | .record .nil (.val _ (.slot _ _ _)) => true
  | .record .nil (.slot _ _ (.val _ _)) => true
  | .record .nil (.slot _ _ (.slot _ _ _)) => true
  | _ => false

mutual
/-- The event stream of a value in a layout: `ch name` says whether the body of an attribute of that name is written
without braces where that is allowed (`@a(1,2)`, `@a(k:1)`); everything else as in `evsV`.  `ch = fun _ => true` is
the layout the printers use, `ch = fun _ => false` the fully braced one, anything else a mixture. -/
def evsG (ch : List Char → Bool) : Value → List Event
  | .extant => [.extant]
  | .int _ n => [.num (numOfInt n)]
  | .float f => [.num (.float f)]
  | .bool b => [.bool b]
  | .text s => [.text s]
  | .data bs => [.blob bs]
  | .record a i => evsGA ch a ++ (.startBody :: (evsGI ch i ++ [.endRecord]))
def evsGA (ch : List Char → Bool) : Attrs → List Event
  | .nil => []
  | .cons n v r =>
    (.startAttr n :: ((match v with
        | .extant => []
        | .record .nil i =>
          if ch n && implicitBody (.record .nil i) then evsGI ch i else .startBody :: (evsGI ch i ++ [.endRecord])
        | w => evsG ch w) ++ [.endAttr])) ++ evsGA ch r
def evsGI (ch : List Char → Bool) : Items → List Event
  | .nil => []
  | .val v r => evsG ch v ++ evsGI ch r
  | .slot k v r => evsG ch k ++ (.slot :: (evsG ch v ++ evsGI ch r))
end

/-- The printers' layout. -/
def evsP (v : Value) : List Event := evsG (fun _ => true) v

/-! ## The float fragment (same test as the harness) -/

def isDigDot (c : Char) : Bool := c.isDigit || c = '.'

/-- Number of digits of the exponent `[eE][+-]?digit*` at the head of the input (0 if there is none). -/
def expDigits (inp : List Char) : Nat :=
  match inp with
  | c :: r =>
    if c = 'e' ∨ c = 'E' then
      (match r with
       | s :: r' => if s = '+' ∨ s = '-' then (r'.takeWhile Char.isDigit).length else ((s :: r').takeWhile Char.isDigit).length
       | [] => 0)
    else 0
  | [] => 0

/-- `plus` = the previous character was a `+` (a signed literal with `+` is always lexed as a float). -/
def fragScan : Nat → Bool → List Char → Bool
  | 0, _, _ => true
  | fuel + 1, plus, inp =>
    match inp with
    | [] => true
    | c :: r =>
      if isDigDot c then
        let run := (c :: r).takeWhile isDigDot
        let rest := (c :: r).dropWhile isDigDot
        let digits := (run.filter Char.isDigit).length
        let k := expDigits rest
        if 2 < k then false
        else if (plus || run.contains '.' || 0 < k) && 15 < digits then false
        else fragScan fuel false rest
      else fragScan fuel (c = '+') r

def inFloatFragment (inp : List Char) : Bool := fragScan (inp.length + 1) false inp

end SwimVerif.ReconEq
