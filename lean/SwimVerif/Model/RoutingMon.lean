/-
Observable-level monitor for C11 (routing part): decides "an envelope arriving on the socket is passed to the agent
or to the downlinks registered for exactly that node and lane, and to no other, with its content unchanged; every
source's messages leave the socket in its own order; an invalid frame is never delivered" on a trace of
(operation, observed events) pairs of the implementation alone.  Frames are read with the specification reader
(`Envelope.peel`, for which the round trip with the writer is a theorem); nothing of the routing model is used.
-/
import SwimVerif.Model.Routing

namespace SwimVerif.Routing
open SwimVerif.Envelope

structure MDl where
  id : Nat
  node : Str
  lane : Str
  detached : Bool
  deriving Repr

structure MAg where
  node : Str
  detached : Bool
  deriving Repr

structure Mon where
  dls : List MDl := []
  agents : List MAg := []
  ows : List MDl := []             -- send-only clients (`AttachClient::OneWay`)
  running : Bool := true
  counter : Nat := 0
  deriving Repr

/-! ### parsing the observed events -/

def parseMsgFields (payload : String) : Option (Kind × Str × Str × Option Str) :=
  match payload.splitOn "," with
  | [k, n, l, b] => do
    let k ← Kind.parse k; let n ← strOfHex n; let l ← strOfHex l; let b ← optHex b
    pure (k, n, l, b)
  | _ => none

def Ev.parse (w : String) : Option Ev :=
  match w.splitOn ":" with
  | ["f", nl, r] =>
    match nl.splitOn "," with
    | [n, l] => do
      let n ← strOfHex n; let l ← strOfHex l
      if r == "none" then pure (.find n l none)
      else match Src.parse r with
        | some (.agent i) => pure (.find n l (some i))
        | _ => none
    | _ => none
  | ["t", h] => some (.task h)
  | ["p", "close", c] => some (.peerClose c)
  | ["p", "gone"] => some .peerGone
  | ["p", f] => (strOfHex f).map .peer
  | [src, payload] =>
    if src.startsWith "p[" && src.endsWith "]" then
      match Src.parse ((src.drop 2).dropEnd 1).toString, strOfHex payload with
      | some s, some f => some (.peerFrom s f)
      | _, _ => none
    else
      match Src.parse src with
      | some (.agent i) =>
        if payload == "end" then some (.agentEnd i)
        else (parseMsgFields payload).map fun (k, n, l, b) => .toAgent i ⟨k, n, l, b.getD []⟩
      | some (.dl id) =>
        if payload == "end" then some (.dlEnd id)
        else (parseMsgFields payload).map fun (k, n, l, b) => .toDl id k n l b
      | _ => none
  | _ => none

def parseEvs : List String → Option (List Ev)
  | [] => some []
  | w :: ws => do let e ← Ev.parse w; let r ← parseEvs ws; pure (e :: r)

/-- observed output → events (`-`, `ok`, `closed` = none) -/
def parseOut (out : String) : Option (List Ev) :=
  match words out with
  | ["-"] => some []
  | ["ok"] => some []
  | ["closed"] => some []
  | "evs" :: ws => parseEvs ws
  | [w] => if w.startsWith "ok+evs" then some [] else none
  | w :: ws => if w == "ok+evs" then parseEvs ws else none
  | [] => none

def isDeliveryEv : Ev → Bool
  | .toDl _ _ _ _ _ => true
  | .toAgent _ _ => true
  | _ => false

def insertNat (x : Nat) : List Nat → List Nat
  | [] => [x]
  | y :: ys => if x ≤ y then x :: y :: ys else y :: insertNat x ys

def sortNat (xs : List Nat) : List Nat := xs.foldr insertNat []

def firstSome {α : Type} (f : α → Option String) : List α → Option String
  | [] => none
  | x :: xs => match f x with | some r => some r | none => firstSome f xs

def Mon.srcOpen (m : Mon) : Src → Bool
  | .dl id => m.dls.any fun d => d.id == id && !d.detached
  | .agent i => match m.agents[i]? with | some a => !a.detached | none => false
  | .ow id => m.ows.any fun d => d.id == id && !d.detached

/-- what a frame written for `msg` must decode to -/
def frameCarries (frame : Str) (msg : Msg) : Bool :=
  peel frame == .env msg.kind msg.node msg.lane (stripSpace (if hasBody msg.kind then msg.body else []))

/-- register the agent channels announced by `find` events (indices must be consecutive) -/
def Mon.noteFinds (m : Mon) : List Ev → Mon × Option String
  | [] => (m, none)
  | .find n _ (some i) :: rest =>
    if i = m.agents.length then ({ m with agents := m.agents ++ [(⟨n, false⟩ : MAg)] } : Mon).noteFinds rest
    else (m, some "agent-index-not-consecutive")
  | _ :: rest => m.noteFinds rest

def panicClass (frame : Str) : String :=
  match peel frame with
  | .panic .finishIncomplete => "task-panic-empty-name"
  | .panic .charTryFrom => "task-panic-surrogate-escape"
  | _ => "task-panic"

/-- checks of one incoming frame -/
def Mon.checkInput (m : Mon) (frame : Str) (evs : List Ev) : Option String :=
  let dels := evs.filter isDeliveryEv
  if evs.any (fun e => e == Ev.task "panic") then some (panicClass frame)
  else if !m.running then (if dels.isEmpty then none else some "delivery-after-close")
  else
  match peel frame with
  | .unsup => none
  | .env k n l b =>
    if isRequest k then
      if dels.any (fun e => match e with | .toDl _ _ _ _ _ => true | _ => false) then some "request-sent-to-downlink"
      else if dels.length > 1 then some "request-duplicated"
      else
        match dels with
        | [.toAgent i msg] =>
          match m.agents[i]? with
          | some a =>
            if a.node ≠ n then some "request-to-wrong-agent"
            else if a.detached then some "request-to-closed-agent"
            else if msg ≠ ⟨k, n, l, requestBody k b⟩ then some "request-content-changed"
            else none
          | none => some "request-to-unknown-agent"
        | _ =>
          if evs.any (fun e => match e with | .find n' _ none => n' == n | _ => false) then
            -- nobody answers for the node: the peer is told so (`@unlinked(node:..,lane:..)@nodeNotFound`), except for
            -- a command, which is dropped silently
            let frames := evs.filterMap fun e => match e with | .peer f => some f | _ => none
            if k = .command then (if frames.isEmpty then none else some "unexpected-frame")
            else
              match frames with
              | [f] =>
                if peel f == .env .unlinked n l Generated.Env.nodeNotFoundTag then none
                else some "not-found-answer-changed"
              | [] => some "not-found-answer-missing"
              | _ => some "not-found-answer-duplicated"
          else some "request-dropped"
    else
      let expected := sortNat ((m.dls.filter fun d => !d.detached && d.node == n && d.lane == l).map (·.id))
      let observed := dels.filterMap fun e => match e with | .toDl id _ _ _ _ => some id | _ => none
      if dels.any (fun e => match e with | .toAgent _ _ => true | _ => false) then some "notification-sent-to-agent"
      else
        match firstSome (fun e => match e with
            | .toDl id k' n' l' b' =>
              if !(expected.contains id) then some "delivered-to-wrong-downlink"
              else if k' ≠ k ∨ n' ≠ n ∨ l' ≠ l then some "delivered-envelope-changed"
              else if b' = expectedBody k b then none
              else if k = .unlinked ∧ b' = none then some "unlinked-body-dropped"
              else some "delivered-body-changed"
            | _ => none) dels with
        | some r => some r
        | none => if sortNat observed = expected then none else some "missing-or-duplicate-delivery"
  | _ => if dels.isEmpty then none else some "invalid-frame-delivered"

/-- expected tags of a burst for one source: positions of `s` in the list, offset by the counter -/
def burstTags (srcs : List Src) (s : Src) (k : Nat) : List Nat :=
  (srcs.zipIdx).filterMap fun p => if p.1 = s then some (k + p.2) else none

def tagOf (k : Nat) : Str := 'm' :: (toString k).toList

def Mon.burstMsg (m : Mon) (s : Src) (k : Nat) : Option Msg :=
  match s with
  | .dl id => (m.dls.find? fun d => d.id == id).map fun d => ⟨.command, d.node, d.lane, tagOf k⟩
  | .agent i => (m.agents[i]?).map fun a => ⟨.event, a.node, ['l'], tagOf k⟩
  | .ow id => (m.ows.find? fun d => d.id == id).map fun d => ⟨.command, d.node, d.lane, tagOf k⟩

def dedupSrc : List Src → List Src
  | [] => []
  | s :: rest => s :: (dedupSrc rest).filter (· ≠ s)

/-- per-source FIFO and completeness of a burst -/
def Mon.checkBurst (m : Mon) (srcs : List Src) (evs : List Ev) : Option String :=
  if evs.any isDeliveryEv then some "spurious-delivery" else
  let frames := evs.filterMap fun e => match e with | .peerFrom s f => some (s, f) | _ => none
  if frames.any (fun p => !(srcs.contains p.1)) then some "burst-frame-from-nowhere" else
  firstSome (fun s =>
    let got := (frames.filter fun p => p.1 = s).map (·.2)
    let want := if m.running && m.srcOpen s then burstTags srcs s m.counter else []
    if got.length < want.length then
      some (match s with | .ow _ => "one-way-command-not-sent" | _ => "burst-frame-lost")
    else if got.length > want.length then some "burst-frame-duplicated"
    else if (got.zip want).all (fun p => match m.burstMsg s p.2 with
        | some msg => frameCarries p.1 msg
        | none => false) then none
    else some "burst-order-or-content-changed") (dedupSrc srcs)

def Mon.stepOp (m : Mon) (op : Op) (out : String) (evs : List Ev) : Mon × Option String :=
  let stopped := evs.any fun e => match e with | .task _ => true | _ => false
  match op with
  | .agents _ => (m, none)
  | .attach id n l =>
    let m' := if out.startsWith "ok" then { m with dls := m.dls ++ [⟨id, n, l, false⟩] } else m
    ({ m' with running := m'.running && !stopped }, if evs.any isDeliveryEv then some "spurious-delivery" else none)
  | .attachOne id n l =>
    let m' := if out.startsWith "ok" then { m with ows := m.ows ++ [⟨id, n, l, false⟩] } else m
    ({ m' with running := m'.running && !stopped }, if evs.any isDeliveryEv then some "spurious-delivery" else none)
  | .detach (.ow id) =>
    ({ m with ows := m.ows.map (fun d => if d.id = id then { d with detached := true } else d),
              running := m.running && !stopped },
     if evs.any isDeliveryEv then some "spurious-delivery" else none)
  | .detach (.dl id) =>
    ({ m with dls := m.dls.map (fun d => if d.id = id then { d with detached := true } else d),
              running := m.running && !stopped },
     if evs.any isDeliveryEv then some "spurious-delivery" else none)
  | .detach (.agent i) =>
    ({ m with agents := (m.agents.zipIdx).map (fun p => if p.2 = i then { p.1 with detached := true } else p.1),
              running := m.running && !stopped },
     if evs.any isDeliveryEv then some "spurious-delivery" else none)
  | .stop => ({ m with running := false }, if evs.any isDeliveryEv then some "spurious-delivery" else none)
  | .send s msg =>
    let frames := evs.filterMap fun e => match e with | .peer f => some f | _ => none
    let expectSend := m.running && m.srcOpen s && sendable s msg
    ({ m with running := m.running && !stopped },
     if evs.any isDeliveryEv then some "spurious-delivery"
     else if expectSend then
       (match frames with
        | [f] => if frameCarries f msg then none else some "sent-frame-changed"
        | [] => some (match s with | .ow _ => "one-way-command-not-sent" | _ => "sent-frame-missing")
        | _ => some "sent-frame-duplicated")
     else if frames.isEmpty then none else some "unexpected-frame")
  | .burst srcs =>
    ({ m with counter := m.counter + srcs.length, running := m.running && !stopped }, m.checkBurst srcs evs)
  | .frames _ => (m, none)     -- handled in `Mon.step` (needs the text of the operation)
  | .input frame =>
    let (m1, r1) := m.noteFinds evs
    match r1 with
    | some r => (m1, some r)
    | none => ({ m1 with running := m1.running && !stopped }, m1.checkInput frame evs)

/-- a message sent in fragments with control frames in between must have the effect of the whole text; frames that
are not a text message (binary, close, fragmentation violations) must be delivered to nobody -/
def Mon.stepFragmented (m : Mon) (line : String) (evs : List Ev) : Mon × Option String :=
  let stopped := evs.any fun e => match e with | .task _ => true | _ => false
  match words line with
  | ["infrag", f, plan] =>
    match bytesOfHex f, WsFrames.parsePlan plan with
    | some bytes, some ts =>
      if WsFrames.planWellFormed ts then
        match utf8 bytes with
        | some frame =>
          let (m1, r1) := m.noteFinds evs
          match r1 with
          | some r => (m1, some r)
          | none =>
            ({ m1 with running := m1.running && !stopped },
             match m1.checkInput frame evs with
             | some r => if r.startsWith "task-panic" then some r else some "fragmented-envelope-corrupted"
             | none => if stopped && m1.running && (match peel frame with | .err => false | .panic _ => false | _ => true)
                       then some "fragmented-envelope-corrupted" else none)
        | none => ({ m with running := m.running && !stopped }, if evs.any isDeliveryEv then some "invalid-frame-delivered" else none)
      else ({ m with running := m.running && !stopped }, if evs.any isDeliveryEv then some "invalid-frame-delivered" else none)
    | _, _ => (m, some "unparsable")
  | _ => ({ m with running := m.running && !stopped }, if evs.any isDeliveryEv then some "invalid-frame-delivered" else none)

def Mon.step (m : Mon) (line : String) (out : String) : Mon × Option String :=
  match parseOp line, parseOut out with
  | some (.frames _), some evs => m.stepFragmented line evs
  | some op, some evs => m.stepOp op out evs
  | some (.input _), none => if out == "unsup" then (m, none) else (m, some "unparsable")
  | _, _ => (m, some "unparsable")

end SwimVerif.Routing
