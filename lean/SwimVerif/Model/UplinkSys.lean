/-
One remote's `Uplinks` queue together with the write that is in flight and ghost histories — the system the
per-remote theorems of C01 / C02 / C04 / C14 are about. Any interleaving of lane events, link/unlink messages
and completions of the in-flight write for one remote is a `List UOp`.
-/
import SwimVerif.Model.WriteTask

namespace SwimVerif.WT

structure USys where
  up : Uplinks := {}
  inflight : Option Write := none
  /-- ghost: notes handed to the channel so far, tagged with the lane id of their write -/
  delivered : List (Option Nat × Note) := []
  /-- ghost: every data response pushed so far `(lane id, response)` -/
  pushed : List (Nat × Resp) := []

inductive UOp
  | special (a : Special)          -- `push_special`
  | push (lane : Nat) (r : Resp)   -- `push`
  | done                           -- the in-flight write completed: `replace_and_pop`

def tagNotes (w : Write) : List (Option Nat × Note) := w.notes.map (fun n => (w.lid, n))

def ustep (reg : Registry) (s : USys) : UOp → USys
  | .special a =>
    let r := s.up.pushSpecial a reg
    { s with up := r.1, inflight := (match r.2 with | some w => some w | none => s.inflight) }
  | .push lane resp =>
    let r := s.up.push lane resp reg
    { s with up := r.1, inflight := (match r.2 with | some w => some w | none => s.inflight),
             pushed := s.pushed ++ [(lane, resp)] }
  | .done =>
    match s.inflight with
    | none => s
    | some w =>
      let r := s.up.replaceAndPop reg
      { s with up := r.1, inflight := r.2, delivered := s.delivered ++ tagNotes w }

def urun (reg : Registry) (s : USys) (ops : List UOp) : USys := ops.foldl (ustep reg) s

/-- Event bodies among tagged notes for lane `l`. -/
def bodiesFor (l : Nat) (ns : List (Option Nat × Note)) : List Body :=
  ns.filterMap (fun p => match p.1, p.2 with
    | some l', .event b => if l' = l then some b else none
    | _, _ => none)

/-- Bodies pushed for lane `l` (value / supply bodies and map operations). -/
def pushedBodies (l : Nat) (ps : List (Nat × Resp)) : List Body :=
  ps.filterMap (fun p => if p.1 = l then
    (match p.2 with
      | .value b => some (.raw b)
      | .supply b => some (.raw b)
      | .map op => some (.map op)
      | .synced _ => none) else none)

/-- Everything handed to the channel or lent to the in-flight write. -/
def USys.sent (s : USys) : List (Option Nat × Note) :=
  s.delivered ++ (match s.inflight with | some w => tagNotes w | none => [])

end SwimVerif.WT

namespace SwimVerif.WT

/-- Bodies waiting in the backpressure buffers of lane `l`. -/
def bufValue (u : Uplinks) (l : Nat) : List Body :=
  match alGet u.value l with
  | some up => if up.bp.pending then [.raw up.bp.current] else []
  | none => []

def bufSupply (u : Uplinks) (l : Nat) : List Body :=
  match alGet u.supply l with
  | some up => up.bp.map .raw
  | none => []

def bufMap (u : Uplinks) (l : Nat) : List Body :=
  match alGet u.map l with
  | some up => up.bp.map .map
  | none => []

def bufBodies (u : Uplinks) (l : Nat) : List Body := bufValue u l ++ bufSupply u l ++ bufMap u l

/-- Event bodies of a write, if it is about lane `l`. -/
def writeBodies (l : Nat) (w : Option Write) : List Body :=
  match w with
  | some w => bodiesFor l (tagNotes w)
  | none => []

end SwimVerif.WT
