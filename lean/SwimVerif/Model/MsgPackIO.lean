/-
C16, engine `form-msgpack`: line protocol and observable-level monitor over `Model/MsgPack.lean`.

ops:  `mpw <venc>`        → `w-<marker class> <hex>` | `w-err`
      `mpr <hex> <tag>`   → `<tag>-ok <venc> rest=<n>` | `<tag>-err`
(`<venc>` = the C09 value encoding of `Model/ReconProto.lean`; see harness/form/src/bin/sv-c16mp.rs).
-/
import SwimVerif.Model.MsgPack
import SwimVerif.Model.ReconProto

namespace SwimVerif.MsgPack
open SwimVerif.Recon

def markerClass (b : Nat) : String :=
  if b < 128 then "fixpos" else if b < 144 then "fixmap" else if b < 160 then "fixarray"
  else if b < 192 then "fixstr" else if b = 192 then "nil" else if b = 193 then "reserved"
  else if b < 196 then "bool" else if b = 196 then "bin8" else if b = 197 then "bin16" else if b = 198 then "bin32"
  else if b = 199 then "ext8" else if b = 200 then "ext16" else if b = 201 then "ext32" else if b < 204 then "float"
  else if b = 204 then "u8" else if b = 205 then "u16" else if b = 206 then "u32" else if b = 207 then "u64"
  else if b = 208 then "i8" else if b = 209 then "i16" else if b = 210 then "i32" else if b = 211 then "i64"
  else if b < 217 then "fixext" else if b = 217 then "str8" else if b = 218 then "str16" else if b = 219 then "str32"
  else if b = 220 then "array16" else if b = 221 then "array32" else if b = 222 then "map16"
  else if b = 223 then "map32" else "fixneg"

def writeOut (v : Value) : String :=
  match mpWrite v with
  | some (b :: bs) => "w-" ++ markerClass b ++ " " ++ hexOfBytes (b :: bs)
  | _ => "w-err"

def readOut (tag : String) (bs : List Nat) : String :=
  match mpRead bs with
  | some (v, rest) => tag ++ "-ok " ++ venc v ++ " rest=" ++ toString rest.length
  | none => tag ++ "-err"

def step (_ : Unit) (line : String) : Unit × String :=
  match words line with
  | ["mpw", e] =>
    match vdec e with
    | some v => ((), writeOut v)
    | none => ((), "bad-op")
  | ["mpr", h, tag] =>
    match bytesOfHex h with
    | some bs => ((), readOut tag bs)
    | none => ((), "bad-op")
  | _ => ((), "bad-op")

/-! ## monitor: the laws on the implementation's lines alone -/

/-- The value written in this case and the hex of the bytes the implementation produced. -/
structure Mon where
  last : Option (Value × List Nat) := none

def isStrictPrefix (p l : List Nat) : Bool := p.length < l.length && l.take p.length == p

def Mon.step (m : Mon) (line : String) (out : String) : Mon × Option String :=
  if out == "panic" then (m, some "msgpack-panic") else
  match words line with
  | ["mpw", e] =>
    match vdec e, words out with
    | some v, [_, h] =>
      match bytesOfHex h with
      | some bs => ({ last := some (v, bs) }, none)
      | none => (m, some "malformed")
    | some v, _ => ({ last := none }, if mpOk v then some "msgpack-write-error" else none)
    | none, _ => (m, some "malformed")
  | ["mpr", h, tag] =>
    match m.last, bytesOfHex h with
    | some (v, wr), some bs =>
      if bs == wr then
        (m, if out == tag ++ "-ok " ++ venc (mpNorm v) ++ " rest=0" then none else some "msgpack-value-roundtrip")
      else if isStrictPrefix wr bs then
        (m, if out == tag ++ "-ok " ++ venc (mpNorm v) ++ " rest=" ++ toString (bs.length - wr.length) then none
            else some "msgpack-overread")
      else if isStrictPrefix bs wr then
        (m, if out == tag ++ "-err" then none else some "msgpack-truncated-accepted")
      else (m, none)
    | _, _ => (m, none)
  | _ => (m, some "malformed")

end SwimVerif.MsgPack
