/-
Model of the downlink state machines (C08), branch by branch:

* client:  `swimos_downlink::task::map::{run_io (write arm), on_read, on_event}`,
           `swimos_downlink::task::value::{run_io, on_read}`
* hosted:  `swimos_agent::agent_model::downlink::hosted::map::{HostedMapDownlink::next_event, select_next (EOF arm),
           connect, can_restart, MapDlState::{update,remove,clear,take,drop}}` and the same for `hosted::value`.

Maps are association lists kept sorted by key (`BTreeMap<i32,_>` order; the hosted `HashMap` is only ever observed
through `drop_or_take`, which sorts the keys, and through our canonical rendering).
`ews` = `events_when_not_synced`, `tou` = `terminate_on_unlinked`.
-/
import SwimVerif.Model.Util

namespace SwimVerif.Dl

abbrev AMap := List (Int × Int)

/-- `map.get(&k)` -/
def look (k : Int) : AMap → Option Int
  | [] => none
  | p :: r => if p.1 = k then some p.2 else look k r

/-- `map.insert(k, v)` on a key-sorted list -/
def ins (k v : Int) : AMap → AMap
  | [] => [(k, v)]
  | p :: r => if k < p.1 then (k, v) :: p :: r else if p.1 = k then (k, v) :: r else p :: ins k v r

/-- `map.remove(&k)` -/
def del (k : Int) : AMap → AMap
  | [] => []
  | p :: r => if p.1 = k then del k r else p :: del k r

inductive Msg
  | update (k v : Int) | remove (k : Int) | clear | take (n : Nat) | drop (n : Nat)
  deriving DecidableEq, Repr

/-- What a notification *means* for the replica (the fold of the property statement). -/
def applyMsg (m : AMap) : Msg → AMap
  | .update k v => ins k v m
  | .remove k => del k m
  | .clear => []
  | .take n => m.take n
  | .drop n => m.drop n

/-- A local write (`MapOperation`). -/
inductive WOp
  | update (k v : Int) | remove (k : Int) | clear
  deriving DecidableEq, Repr

def applyW (m : AMap) : WOp → AMap
  | .update k v => ins k v m
  | .remove k => del k m
  | .clear => []

/-- Lifecycle callbacks with their arguments (map and value downlinks). -/
inductive Cb
  | linked | unlinked | failed
  | syncedM (m : AMap)
  | update (k : Int) (old : Option Int) (new : Int) (m : AMap)
  | remove (k : Int) (old : Int) (m : AMap)
  | clear (old : AMap)
  | syncedV (v : Int)
  | syncedU                       -- `on_synced(&())` of an event downlink
  | event (v : Int)
  | set (old : Option Int) (new : Int)
  deriving DecidableEq, Repr

structure Cfg where
  ews : Bool
  tou : Bool
  deriving DecidableEq, Repr

inductive Note
  | linked | synced | unlinked | ev (e : Msg)
  deriving DecidableEq, Repr

inductive VNote
  | linked | synced | unlinked | ev (v : Int)
  deriving DecidableEq, Repr

/-- How a task / channel finished. -/
inductive Fin
  | ok | failed | badFrame | syncedNoValue
  deriving DecidableEq, Repr

/-! ### Client map downlink (`swimos_downlink/src/task/map.rs`) -/

def cbIf (d : Bool) (c : Cb) : List Cb := if d then [c] else []

/-- `for key in to_remove { if let Some(value) = map.remove(&key) { if dispatch { on_remove(key, map, value) } } }`
(client `on_event` take / drop arms; hosted `MapDlState::{take,drop}`) -/
def removeSeq (disp : Bool) : AMap → List Int → AMap × List Cb
  | m, [] => (m, [])
  | m, k :: ks =>
    match look k m with
    | some v => ((removeSeq disp (del k m) ks).1, cbIf disp (.remove k v (del k m)) ++ (removeSeq disp (del k m) ks).2)
    | none => removeSeq disp m ks

def keys (m : AMap) : List Int := m.map (·.1)

/-- `on_event(map, lifecycle, event, dispatch)` -/
def cEvent (m : AMap) (e : Msg) (dispatch : Bool) : AMap × List Cb :=
  match e with
  | .update k v => (ins k v m, cbIf dispatch (.update k (look k m) v (ins k v m)))
  | .remove k =>
    match look k m with
    | some v => (del k m, cbIf dispatch (.remove k v (del k m)))
    | none => (m, [])
  | .clear =>
    -- `let old_map = mem::take(map); if dispatch { lifecycle.on_clear(old_map) }`
    ([], cbIf dispatch (.clear m))
  | .take n =>
    -- `to_remove = map.keys().skip(cnt)`; removed one at a time, `on_remove` only `if dispatch`
    removeSeq dispatch m ((keys m).drop n)
  | .drop n =>
    -- `to_remove = map.keys().take(cnt)`
    removeSeq dispatch m ((keys m).take n)

inductive CSt
  | unlinked | linked (m : AMap) | synced (m : AMap)
  deriving DecidableEq, Repr

structure MClient where
  st : CSt := .unlinked
  fin : Option Fin := none
  deriving DecidableEq, Repr

/-- `on_read(state, lifecycle, notification, config)`; the `Bool` is `Step::Terminate`. -/
def cRead (c : Cfg) (st : CSt) : Note → CSt × List Cb × Bool
  | .linked =>
    match st with
    | .unlinked => (.linked [], [.linked], false)
    | _ => (st, [], false)
  | .synced =>
    match st with
    | .linked m => (.synced m, [.syncedM m], false)
    | _ => (st, [], false)
  | .ev e =>
    match st with
    | .unlinked => (st, [], false)
    | .linked m => (.linked (cEvent m e c.ews).1, (cEvent m e c.ews).2, false)
    | .synced m => (.synced (cEvent m e true).1, (cEvent m e true).2, false)
  | .unlinked =>
    if c.tou then (st, [.unlinked], true) else (.unlinked, [.unlinked], false)

/-- the `IoEvent::Write(Some(message))` arm of `run_io`: the operation is applied to the replica (F6) -/
def cWrite (st : CSt) (w : WOp) : CSt :=
  match st with
  | .unlinked => .unlinked
  | .linked m => .linked (applyW m w)
  | .synced m => .synced (applyW m w)

inductive MOp
  | note (n : Note) | write (w : WOp) | bad | eof | reconnect
  deriving DecidableEq, Repr

def MClient.step (c : Cfg) (s : MClient) : MOp → MClient × List Cb
  | .note n =>
    if s.fin.isSome then (s, []) else
    ({ st := (cRead c s.st n).1, fin := if (cRead c s.st n).2.2 then some .ok else none }, (cRead c s.st n).2.1)
  | .write w => if s.fin.isSome then (s, []) else ({ s with st := cWrite s.st w }, [])
  | .bad => if s.fin.isSome then (s, []) else ({ s with fin := some .badFrame }, [])
  | .eof => if s.fin.isSome then (s, []) else ({ s with fin := some .ok }, [])
  | .reconnect => (s, [])

/-! ### Hosted map downlink (`hosted/map/mod.rs`) -/

inductive Dl
  | unlinked | linked | synced | stopped
  deriving DecidableEq, Repr

def Dl.isLinked : Dl → Bool
  | .linked => true | .synced => true | _ => false

/-- `MapDlState::{update,remove,clear,take,drop}` with `lifecycle = if disp then Some(..) else None` -/
def hEvent (m : AMap) (e : Msg) (disp : Bool) : AMap × List Cb :=
  match e with
  | .update k v => (ins k v m, cbIf disp (.update k (look k m) v (ins k v m)))
  | .remove k =>
    match look k m with
    | some v => (del k m, cbIf disp (.remove k v (del k m)))
    | none => (m, [])
  | .clear => ([], cbIf disp (.clear m))
  | .take n =>
    if n < m.length then removeSeq disp m ((keys m).drop n)   -- `to_drop > 0`; `drop_or_take(.., Take, n)` = keys.skip(n)
    else (m, [])
  | .drop n =>
    if m.length ≤ n then ([], cbIf disp (.clear m))            -- `n >= map.len()`
    else removeSeq disp m ((keys m).take n)

structure MHosted where
  dl : Dl := .unlinked
  map : AMap := []
  fin : Option Fin := none       -- `await_ready` returned `None` / an error: the agent stops polling this channel
  deriving DecidableEq, Repr

def dlAfterUnlinked (c : Cfg) : Dl := if c.tou then .stopped else .unlinked

/-- `next_event` for `Ok(notification)`; `fin` is set when `receiver` became `None` -/
def hNext (c : Cfg) (s : MHosted) : Note → MHosted × List Cb
  | .linked => ({ s with dl := if s.dl = .unlinked then .linked else s.dl }, [.linked])
  | .synced => ({ s with dl := .synced }, [.syncedM s.map])
  | .ev e =>
    ({ s with map := (hEvent s.map e (s.dl = .synced || c.ews)).1 }, (hEvent s.map e (s.dl = .synced || c.ews)).2)
  | .unlinked =>
    ({ dl := dlAfterUnlinked c, map := [], fin := if c.tou then some .ok else none }, [.unlinked])

def MHosted.step (c : Cfg) (s : MHosted) : MOp → MHosted × List Cb
  | .note n => if s.fin.isSome then (s, []) else hNext c s n
  | .write _ => (s, [])                       -- goes to `MapWriteStream` only
  | .bad =>
    -- `Err(_)` arm of `next_event`, then the channel is finished (`ReadFailed`)
    if s.fin.isSome then (s, []) else ({ dl := dlAfterUnlinked c, map := [], fin := some .failed }, [.failed])
  | .eof =>
    -- `Some(None)` arm of `select_next`: a synthetic `Unlinked` if linked; `receiver = None` in both cases
    if s.fin.isSome then (s, []) else
    if s.dl.isLinked then ({ dl := dlAfterUnlinked c, map := [], fin := some .ok }, [.unlinked])
    else ({ s with fin := some .ok }, [])
  | .reconnect =>
    -- `can_restart()` then `connect(..)`: `state.clear(); dl_state.set(Unlinked)`
    if s.fin.isSome && !c.tou then ({ dl := .unlinked, map := [], fin := none }, []) else (s, [])

/-! ### Value downlinks (`swimos_downlink/src/task/value.rs`, `hosted/value/mod.rs`) -/

inductive VSt
  | unlinked | linked (v : Option Int) | synced (v : Int)
  deriving DecidableEq, Repr

structure VClient where
  st : VSt := .unlinked
  fin : Option Fin := none
  deriving DecidableEq, Repr

/-- `on_read`; result: new state, callbacks, and how the task ends (if it does) -/
def vcRead (c : Cfg) (st : VSt) : VNote → VSt × List Cb × Option Fin
  | .linked =>
    match st with
    | .unlinked => (.linked none, [.linked], none)
    | _ => (st, [], none)
  | .synced =>
    match st with
    | .linked (some v) => (.synced v, [.syncedV v], none)
    | _ => (st, [], some .syncedNoValue)
  | .ev b =>
    match st with
    | .linked v => (.linked (some b), if c.ews then [.event b, .set v b] else [], none)
    | .synced v => (.synced b, [.event b, .set (some v) b], none)
    | .unlinked => (st, [], none)
  | .unlinked =>
    if c.tou then (st, [.unlinked], some .ok) else (.unlinked, [.unlinked], none)

inductive VOp
  | note (n : VNote) | write (v : Int) | bad | eof | reconnect
  deriving DecidableEq, Repr

def VClient.step (c : Cfg) (s : VClient) : VOp → VClient × List Cb
  | .note n =>
    if s.fin.isSome then (s, []) else
    ({ st := (vcRead c s.st n).1, fin := (vcRead c s.st n).2.2 }, (vcRead c s.st n).2.1)
  | .write _ => (s, [])
  | .bad => if s.fin.isSome then (s, []) else ({ s with fin := some .badFrame }, [])
  | .eof => if s.fin.isSome then (s, []) else ({ s with fin := some .ok }, [])
  | .reconnect => (s, [])

structure VHosted where
  dl : Dl := .unlinked
  val : Option Int := none
  fin : Option Fin := none
  deriving DecidableEq, Repr

def vhNext (c : Cfg) (s : VHosted) : VNote → VHosted × List Cb
  | .linked => ({ s with dl := if s.dl = .unlinked then .linked else s.dl }, [.linked])
  | .synced =>
    ({ s with dl := .synced }, match s.val with | some v => [.syncedV v] | none => [])
  | .ev b =>
    ({ s with val := some b }, if s.dl = .synced || c.ews then [.event b, .set s.val b] else [])
  | .unlinked =>
    ({ dl := dlAfterUnlinked c, val := none, fin := if c.tou then some .ok else none }, [.unlinked])

def VHosted.step (c : Cfg) (s : VHosted) : VOp → VHosted × List Cb
  | .note n => if s.fin.isSome then (s, []) else vhNext c s n
  | .write _ => (s, [])
  | .bad => if s.fin.isSome then (s, []) else ({ dl := dlAfterUnlinked c, val := none, fin := some .failed }, [.failed])
  | .eof =>
    if s.fin.isSome then (s, []) else
    if s.dl.isLinked then ({ dl := dlAfterUnlinked c, val := none, fin := some .ok }, [.unlinked])
    else ({ s with fin := some .ok }, [])
  | .reconnect =>
    if s.fin.isSome && !c.tou then ({ dl := .unlinked, val := none, fin := none }, []) else (s, [])

/-! ### `run_io` with its `Mode` (client tasks) and the handle side of a hosted channel

Both client tasks run `loop { match mode { Mode::ReadWrite => .., Mode::Read => .. } }`. `MClient.step` / `VClient.step`
above are the `Mode::ReadWrite` arm; `stepRO` below is the `Mode::Read` loop, a *separate piece of code* that calls `on_read`
itself (value: with `events_when_not_synced`, `terminate_on_unlinked` passed positionally). The mode switches when the
stream of local writes ends (the handle — an `mpsc::Sender` — was dropped) and, for the value task only, when a write
fails. A hosted channel has no second loop: its handle owns the stop trigger, so dropping it makes `stop_rx` resolve to
`Err` (`*stop_rx = None`, reads continue through the plain `select_next.await` branch, `can_restart()` becomes false)
and ends the write stream (`WriteStreamTerminated`); `handle.stop()` closes the input like an EOF. -/

/-- `enum Mode { ReadWrite, Read }` -/
inductive Mode
  | readWrite | read
  deriving DecidableEq, Repr

/-- ops of the base alphabet plus the handle side: `dropHandle` = the write handle is dropped, `closeOut` = the reader of
the task's output channel is dropped (client), `stop` = `handle.stop()` (hosted) -/
inductive IoOp (α : Type)
  | op (o : α) | dropHandle | closeOut | stop
  deriving DecidableEq, Repr

/-- map `run_io`, `Mode::Read`:
`while let Some(result) = framed_read.next().await { match on_read(state, &mut lifecycle, result?, config).await {..} } break Ok(())` -/
def MClient.stepRO (c : Cfg) (s : MClient) : MOp → MClient × List Cb
  | .note n =>
    ({ st := (cRead c s.st n).1, fin := if (cRead c s.st n).2.2 then some .ok else none }, (cRead c s.st n).2.1)
  | .bad => ({ s with fin := some .badFrame }, [])      -- `result?`
  | .eof => ({ s with fin := some .ok }, [])             -- the `while let` ends
  | .write _ => (s, [])                                   -- `set_stream` is never polled again
  | .reconnect => (s, [])

structure MClientIO where
  core : MClient := {}
  mode : Mode := .readWrite
  deriving DecidableEq, Repr

def MClientIO.step (c : Cfg) (s : MClientIO) : IoOp MOp → MClientIO × List Cb
  | .op o =>
    if s.core.fin.isSome then (s, []) else
    match s.mode with
    | .readWrite => ({ s with core := (s.core.step c o).1 }, (s.core.step c o).2)
    | .read => ({ s with core := (s.core.stepRO c o).1 }, (s.core.stepRO c o).2)
  | .dropHandle =>
    -- `IoEvent::Write(None) => mode = Mode::Read`
    if s.core.fin.isSome then (s, []) else ({ s with mode := .read }, [])
  | .closeOut => (s, [])     -- the result of `framed.flush()` is discarded, a failed `feed` is only logged
  | .stop => (s, [])

/-- value `run_io`, `Mode::Read`:
`while let Some(result) = framed_read.next().await { match on_read(state, &mut lifecycle, result?, events_when_not_synced, terminate_on_unlinked).await {..} } return Ok(())`;
`on_read`'s parameters are `(.., events_when_not_synced: bool, terminate_on_unlinked: bool)` = the fields of `Cfg` in order -/
def VClient.stepRO (c : Cfg) (s : VClient) : VOp → VClient × List Cb
  | .note n =>
    ({ st := (vcRead { ews := c.ews, tou := c.tou } s.st n).1, fin := (vcRead { ews := c.ews, tou := c.tou } s.st n).2.2 },
      (vcRead { ews := c.ews, tou := c.tou } s.st n).2.1)
  | .bad => ({ s with fin := some .badFrame }, [])
  | .eof => ({ s with fin := some .ok }, [])
  | .write _ => (s, [])
  | .reconnect => (s, [])

structure VClientIO where
  core : VClient := {}
  mode : Mode := .readWrite
  /-- the reader of the output byte channel was dropped: `poll_write` fails with `BrokenPipe`, `poll_flush` of an empty buffer does not -/
  outClosed : Bool := false
  /-- a frame was fed to `framed` after that: every later `framed.flush()` fails -/
  unflushed : Bool := false
  deriving DecidableEq, Repr

def VClientIO.step (c : Cfg) (s : VClientIO) : IoOp VOp → VClientIO × List Cb
  | .op o =>
    if s.core.fin.isSome then (s, []) else
    match s.mode with
    | .readWrite =>
      match o with
      | .write _ =>
        -- `Either::Left((Some(set), Some(Ok(_)) | None)) => write(..)` (`feed` only buffers) / `Either::Left(_) => mode = Mode::Read`
        -- (the flush joined with `set_stream.next()` had failed; the value is dropped)
        if s.outClosed && s.unflushed then ({ s with mode := .read }, []) else ({ s with unflushed := s.outClosed }, [])
      | _ => ({ s with core := (s.core.step c o).1 }, (s.core.step c o).2)
    | .read => ({ s with core := (s.core.stepRO c o).1 }, (s.core.stepRO c o).2)
  | .dropHandle =>
    -- `set_stream.next()` = `None`: `Either::Left(_) => mode = Mode::Read`
    if s.core.fin.isSome then (s, []) else ({ s with mode := .read }, [])
  | .closeOut => if s.core.fin.isSome then (s, []) else ({ s with outClosed := true }, [])
  | .stop => (s, [])

structure MHostedIO where
  core : MHosted := {}
  stopRx : Bool := true        -- `stop_rx.is_some()`
  deriving DecidableEq, Repr

def MHostedIO.step (c : Cfg) (s : MHostedIO) : IoOp MOp → MHostedIO × List Cb
  | .op .reconnect =>
    -- `can_restart() = !terminate_on_unlinked && stop_rx.is_some()`
    if s.stopRx then ({ s with core := (s.core.step c .reconnect).1 }, []) else (s, [])
  | .op o => ({ s with core := (s.core.step c o).1 }, (s.core.step c o).2)
  | .dropHandle =>
    -- `triggered_result` is `Err`: `*stop_rx = None; select_next.await`; the write stream ends (`WriteStreamTerminated`)
    if s.core.fin.isSome then (s, []) else ({ s with stopRx := false }, [])
  | .stop =>
    -- `triggered_result.is_ok()`: `*stop_rx = None; *receiver = None`, a synthetic `Unlinked` if linked
    -- (`!s.stopRx`: the handle was dropped before, there is nothing left to call `stop()` on)
    if s.core.fin.isSome || !s.stopRx then (s, []) else
    if s.core.dl.isLinked then ({ core := { dl := dlAfterUnlinked c, map := [], fin := some .ok }, stopRx := false }, [.unlinked])
    else ({ core := { s.core with fin := some .ok }, stopRx := false }, [])
  | .closeOut => (s, [])

structure VHostedIO where
  core : VHosted := {}
  stopRx : Bool := true
  deriving DecidableEq, Repr

def VHostedIO.step (c : Cfg) (s : VHostedIO) : IoOp VOp → VHostedIO × List Cb
  | .op .reconnect =>
    if s.stopRx then ({ s with core := (s.core.step c .reconnect).1 }, []) else (s, [])
  | .op o => ({ s with core := (s.core.step c o).1 }, (s.core.step c o).2)
  | .dropHandle =>
    if s.core.fin.isSome then (s, []) else ({ s with stopRx := false }, [])
  | .stop =>
    if s.core.fin.isSome || !s.stopRx then (s, []) else
    if s.core.dl.isLinked then ({ core := { dl := dlAfterUnlinked c, val := none, fin := some .ok }, stopRx := false }, [.unlinked])
    else ({ core := { s.core with fin := some .ok }, stopRx := false }, [])
  | .closeOut => (s, [])

/-! ### Hosted event downlink (`hosted/event/mod.rs`)

No replica; it is here because the public downlink *builders* (`HandlerContext::event_downlink_builder`) are exercised for all
three kinds. The channel has the same EOF / failure / stop / dropped-handle / `connect` arms as the hosted value downlink
(without a value to clear), so `VHostedIO` is reused with `val` staying `none`; only `next_event` differs. -/

/-- `HostedEventDownlink::next_event` for `Ok(notification)` -/
def ehNext (c : Cfg) (s : VHosted) : VNote → VHosted × List Cb
  | .linked => ({ s with dl := if s.dl = .unlinked then .linked else s.dl }, [.linked])
  | .synced => ({ s with dl := .synced }, [.syncedU])
  | .ev b => (s, if s.dl = .synced || c.ews then [.event b] else [])
  | .unlinked => ({ dl := dlAfterUnlinked c, val := none, fin := if c.tou then some .ok else none }, [.unlinked])

def EHostedIO.step (c : Cfg) (s : VHostedIO) : IoOp VOp → VHostedIO × List Cb
  | .op (.note n) =>
    if s.core.fin.isSome then (s, []) else ({ s with core := (ehNext c s.core n).1 }, (ehNext c s.core n).2)
  | o => VHostedIO.step c s o

/-! ### Line protocol -/

def showMap (m : AMap) : String :=
  "{" ++ ",".intercalate (m.map fun p => s!"{p.1}:{p.2}") ++ "}"

def showOpt : Option Int → String
  | some v => toString v
  | none => "none"

def Cb.render : Cb → String
  | .linked => "on_linked"
  | .unlinked => "on_unlinked"
  | .failed => "on_failed"
  | .syncedM m => s!"on_synced {showMap m}"
  | .update k old v m => s!"on_update {k} {showOpt old} {v} {showMap m}"
  | .remove k v m => s!"on_remove {k} {v} {showMap m}"
  | .clear m => s!"on_clear {showMap m}"
  | .syncedV v => s!"on_synced {v}"
  | .syncedU => "on_synced"
  | .event v => s!"on_event {v}"
  | .set old v => s!"on_set {showOpt old} {v}"

def Fin.render : Fin → String
  | .ok => "ok" | .failed => "failed" | .badFrame => "bad-frame" | .syncedNoValue => "synced-with-no-value"

/-- callbacks joined by ` | `, plus `end <how>` when the task / channel finished in this step -/
def renderOut (cbs : List Cb) (fin : Option Fin) : String :=
  let parts := cbs.map Cb.render ++ (match fin with | some f => ["end " ++ f.render] | none => [])
  if parts.isEmpty then "-" else " | ".intercalate parts

def parseMOp (ws : List String) : Option MOp :=
  match ws with
  | ["linked"] => some (.note .linked)
  | ["synced"] => some (.note .synced)
  | ["unlinked"] => some (.note .unlinked)
  | ["bad"] => some .bad
  | ["eof"] => some .eof
  | ["reconnect"] => some .reconnect
  | ["upd", k, v] => match k.toInt?, v.toInt? with
    | some k, some v => some (.note (.ev (.update k v)))
    | _, _ => none
  | ["rem", k] => k.toInt?.map fun k => .note (.ev (.remove k))
  | ["clr"] => some (.note (.ev .clear))
  | ["take", n] => n.toNat?.map fun n => .note (.ev (.take n))
  | ["drop", n] => n.toNat?.map fun n => .note (.ev (.drop n))
  | ["wupd", k, v] => match k.toInt?, v.toInt? with
    | some k, some v => some (.write (.update k v))
    | _, _ => none
  | ["wrem", k] => k.toInt?.map fun k => .write (.remove k)
  | ["wclr"] => some (.write .clear)
  | _ => none

def parseVOp (ws : List String) : Option VOp :=
  match ws with
  | ["linked"] => some (.note .linked)
  | ["synced"] => some (.note .synced)
  | ["unlinked"] => some (.note .unlinked)
  | ["bad"] => some .bad
  | ["eof"] => some .eof
  | ["reconnect"] => some .reconnect
  | ["set", v] => v.toInt?.map fun v => .note (.ev v)
  | ["wset", v] => v.toInt?.map fun v => .write v
  | _ => none

inductive Sys
  | mc (c : Cfg) (s : MClientIO)
  | mh (c : Cfg) (s : MHostedIO)
  | vc (c : Cfg) (s : VClientIO)
  | vh (c : Cfg) (s : VHostedIO)
  | eh (c : Cfg) (s : VHostedIO)
  deriving Repr

/-- `drop-handle | close-out | stop`, else the base alphabet -/
def parseIo {α : Type} (base : List String → Option α) (ws : List String) : Option (IoOp α) :=
  match ws with
  | ["drop-handle"] => some .dropHandle
  | ["close-out"] => some .closeOut
  | ["stop"] => some .stop
  | _ => (base ws).map .op

def parseBit : String → Option Bool
  | "0" => some false
  | "1" => some true
  | _ => none

/-- `new <client|hosted> <map|value|event> <ews> <tou> [options]`. The options (`path=..`: through which public builder
path the harness constructs a hosted downlink; `big`: values padded to 5–20 KB on the wire, 512-byte notification channel)
do not concern the model: whatever the construction path and the size of the bodies, the behaviour must be the same. -/
def parseNew (ws : List String) : Option Sys :=
  match ws with
  | "new" :: imp :: kind :: ews :: tou :: _opts =>
    match parseBit ews, parseBit tou with
    | some e, some t =>
      let c : Cfg := { ews := e, tou := t }
      if imp = "client" && kind = "map" then some (.mc c {})
      else if imp = "hosted" && kind = "map" then some (.mh c {})
      else if imp = "client" && kind = "value" then some (.vc c {})
      else if imp = "hosted" && kind = "value" then some (.vh c {})
      else if imp = "hosted" && kind = "event" then some (.eh c {})
      else none
    | _, _ => none
  | _ => none

/-- `gone` once finished; `end ..` in the step that finishes -/
def outOf (finBefore finAfter : Option Fin) (cbs : List Cb) : String :=
  if finBefore.isSome then "gone" else renderOut cbs finAfter

def Sys.line (s : Sys) (ws : List String) : Sys × String :=
  match s with
  | .mc c st =>
    match parseIo parseMOp ws with
    | some (.op .reconnect) => (s, "bad-op")
    | some .stop => (s, "bad-op")
    | some op => (.mc c (st.step c op).1, outOf st.core.fin (st.step c op).1.core.fin (st.step c op).2)
    | none => (s, "bad-op")
  | .vc c st =>
    match parseIo parseVOp ws with
    | some (.op .reconnect) => (s, "bad-op")
    | some .stop => (s, "bad-op")
    | some op => (.vc c (st.step c op).1, outOf st.core.fin (st.step c op).1.core.fin (st.step c op).2)
    | none => (s, "bad-op")
  | .mh c st =>
    match parseIo parseMOp ws with
    | some (.op .reconnect) =>
      if st.core.fin.isSome then
        (.mh c (st.step c (.op .reconnect)).1, if c.tou || !st.stopRx then "refused" else "ok")
      else (s, "bad-op")
    | some .closeOut => (s, "bad-op")
    | some op => (.mh c (st.step c op).1, outOf st.core.fin (st.step c op).1.core.fin (st.step c op).2)
    | none => (s, "bad-op")
  | .vh c st =>
    match parseIo parseVOp ws with
    | some (.op .reconnect) =>
      if st.core.fin.isSome then
        (.vh c (st.step c (.op .reconnect)).1, if c.tou || !st.stopRx then "refused" else "ok")
      else (s, "bad-op")
    | some .closeOut => (s, "bad-op")
    | some op => (.vh c (st.step c op).1, outOf st.core.fin (st.step c op).1.core.fin (st.step c op).2)
    | none => (s, "bad-op")
  | .eh c st =>
    match parseIo parseVOp ws with
    | some (.op .reconnect) =>
      if st.core.fin.isSome then
        (.eh c (EHostedIO.step c st (.op .reconnect)).1, if c.tou || !st.stopRx then "refused" else "ok")
      else (s, "bad-op")
    | some .closeOut => (s, "bad-op")
    | some (.op (.write _)) => (s, "bad-op")       -- an event downlink cannot write
    | some op =>
      (.eh c (EHostedIO.step c st op).1, outOf st.core.fin (EHostedIO.step c st op).1.core.fin (EHostedIO.step c st op).2)
    | none => (s, "bad-op")

def machineStep (s : Option Sys) (line : String) : Option Sys × String :=
  let ws := words line
  if ws.head? = some "new" then
    match parseNew ws with
    | some sys => (some sys, "ok")
    | none => (none, "bad-op")
  else
    match s with
    | some sys => ((sys.line ws).1, (sys.line ws).2)
    | none => (none, "bad-op")

end SwimVerif.Dl
