/-
C17 at the level of its callers, downlink side: the "no consumers" discipline of the read and write task of the
downlink runtime (`runtime/swimos_runtime/src/downlink/mod.rs`: `read_task`, `write_task`, `attach_task`,
`ValueDownlinkRuntime::run`) composed with the two-party coordinator (0 = read, 1 = write).
Scope of the scripts: the remote lane has answered `linked`; consumers attach without the SYNC option; the socket is
always drained.

* write task — while it has no consumer (`registered.is_empty()`, state `Idle`) and has not voted it waits with
  `timeout(empty_timeout, reg_requests.next())`, started when the wait starts (at the beginning, and when the command
  channel of its LAST consumer ends); `Err(_)` ⇒ `vote()`, `voted = true` (then it waits without a timeout); a new
  consumer ⇒ `if voted { rescind() … voted = false }`.
* read task — `task_state = Some(sleep_until(now + empty_timeout))` while it believes it has no consumer; the sleep is
  only polled in the branch `Some(sleep) if !voted`; it fires ⇒ `vote()`, `voted = true`. A new consumer ⇒
  `task_state.set(None)` and `if voted { rescind() … }`. It learns that a consumer has gone only when WRITING to it
  fails: an event is `feed`-ed to every consumer (buffered, cannot fail), the flush that follows runs inside
  `immediate_or_join(get_next, flush)`; when it has removed the last consumer the task is still inside the join,
  waiting for the NEXT event or consumer (`rHeld`); only when that arrives is the timeout created (`make_timeout()`,
  deadline = the time of that next event + `empty_timeout`) and polled from then on.
* `run` — the attachment task ends (and with it both tasks) when the vote receiver completes.
-/
import SwimVerif.Model.TimeoutCoord

namespace SwimVerif.InactDl
open SwimVerif

structure St where
  T : Nat
  now : Nat := 0
  coord : Coord.St := Coord.init 2
  -- read task
  rVoted : Bool := false
  rTimer : Option Nat := none      -- the armed `sleep` (deadline)
  rHeld : Bool := false            -- no consumer left, but the task is still inside `join(get_next, flush)`
  rCons : List Nat := []           -- the consumers it still writes to
  -- write task
  wVoted : Bool := false
  wTimer : Option Nat := none
  wCons : List Nat := []
  -- the environment
  live : List Nat := []
  ever : List Nat := []
  stop : Option Nat := none
  deriving Repr

def init (T : Nat) : St := { T := T, rTimer := some T, wTimer := some T }

inductive Op
  | attach (c : Nat) | dropc (c : Nat) | ev | cmd (c : Nat) | adv (k : Nat)
  deriving DecidableEq, Repr

def READ : Nat := 0
def WRITE : Nat := 1

def voteAs (s : St) (i : Nat) : St := { s with coord := (Coord.stepAct s.coord i .vote).1 }
def rescindAs (s : St) (i : Nat) : St := { s with coord := (Coord.apiRescind s.coord i).1 }
def rescindTold (s : St) (i : Nat) : Bool := (Coord.apiRescind s.coord i).2 == .unanimous

/-- `combined_stop`: the vote receiver is ready -/
def settle (s : St) : St :=
  if s.stop.isSome then s
  else if s.coord.flags = Coord.allMask 2 then { s with stop := some s.now }
  else s

def fireRead (s : St) : St :=
  { voteAs { s with now := max s.now (s.rTimer.getD 0) } READ with rVoted := true, rTimer := none }
def fireWrite (s : St) : St :=
  { voteAs { s with now := max s.now (s.wTimer.getD 0) } WRITE with wVoted := true, wTimer := none }

def rDue (s : St) (target : Nat) : Bool :=
  match s.rTimer with
  | some d => !s.rHeld && !s.rVoted && decide (d ≤ target)
  | none => false
def wDue (s : St) (target : Nat) : Bool :=
  match s.wTimer with
  | some d => !s.wVoted && decide (d ≤ target)
  | none => false

def advLoop : Nat → Nat → St → St
  | 0, target, s => if s.stop.isSome then s else { s with now := max s.now target }
  | fuel + 1, target, s =>
    if s.stop.isSome then s
    else if rDue s target && (!wDue s target || decide (s.rTimer.getD 0 ≤ s.wTimer.getD 0)) then
      advLoop fuel target (settle (fireRead s))
    else if wDue s target then advLoop fuel target (settle (fireWrite s))
    else { s with now := max s.now target }

def rAdd (s : St) (c : Nat) : St := { s with rCons := c :: s.rCons, rTimer := none, rHeld := false }
def wAdd (s : St) (c : Nat) : St := { s with wCons := c :: s.wCons, wTimer := none }

/-- `ReadTaskEvent::NewConsumer`: `task_state.set(None); if voted { rescind() … voted = false }` -/
def readNewConsumer (s : St) (c : Nat) : St :=
  if s.rVoted then
    if rescindTold (rAdd s c) READ then rescindAs (rAdd s c) READ
    else { rescindAs (rAdd s c) READ with rVoted := false }
  else rAdd s c

/-- the write task registers a consumer: `if voted { rescind() … voted = false }` -/
def writeNewConsumer (s : St) (c : Nat) : St :=
  if s.wVoted then
    if rescindTold (wAdd s c) WRITE then rescindAs (wAdd s c) WRITE
    else { rescindAs (wAdd s c) WRITE with wVoted := false }
  else wAdd s c

def alive (s : St) : List Nat := s.rCons.filter (fun c => s.live.contains c)

/-- an event from the remote lane -/
def readEvent (s : St) : St :=
  if s.rHeld then { s with rHeld := false, rTimer := some (s.now + s.T) }   -- the join completes: `make_timeout()`
  else if s.rTimer.isSome || s.rVoted then s                       -- no consumers known: nothing to write
  else if (alive s).isEmpty then { s with rCons := [], rHeld := true }
  -- fed to every consumer, then flushed: the consumers that have gone are found out
  else { s with rCons := alive s }

def addLive (s : St) (c : Nat) : St := { s with live := c :: s.live, ever := c :: s.ever }
def delLive (s : St) (c : Nat) : St :=
  { s with live := s.live.filter (fun x => !(x == c)), wCons := s.wCons.filter (fun x => !(x == c)) }
def wArm (s : St) : St := { s with wTimer := some (s.now + s.T) }

def step0 (s : St) : Op → St × Bool
  | .attach c =>
    if s.ever.contains c then (s, false)
    else (addLive (writeNewConsumer (readNewConsumer s c) c) c, true)
  | .dropc c =>
    if s.live.contains c then
      -- `SelectAll` yields `None` when its last stream ends: back to `Idle` with no consumers, a fresh timeout
      (if (delLive s c).wCons.isEmpty then wArm (delLive s c) else delLive s c, true)
    else (s, false)
  | .ev => (readEvent s, true)
  | .cmd c => (s, s.live.contains c)
  | .adv k => (advLoop (2 * (k + 1) + 2) (s.now + 100 * k) s, true)

def step (s : St) (op : Op) : St × Bool :=
  if s.stop.isSome then (s, false) else (settle (step0 s op).1, (step0 s op).2)

def run (s : St) (ops : List Op) : St := ops.foldl (fun s op => (step s op).1) s

def parseOp (line : String) : Option Op :=
  match words line with
  | ["attach", c] => c.toNat?.map .attach
  | ["dropc", c] => c.toNat?.map .dropc
  | ["ev"] => some .ev
  | ["cmd", c] => c.toNat?.map .cmd
  | ["adv", k] => do let k ← k.toNat?; if k ≤ 100 then pure (.adv k) else none
  | _ => none

def status (s : St) : String :=
  match s.stop with
  | none => "up"
  | some t => s!"down @{t}"

def apiLine (s : Option St) (line : String) : Option St × String :=
  match words line with
  | ["dl", t] =>
    match t.toNat? with
    | some t => if 100 ≤ t ∧ t ≤ 100000 then (some (init t), "ok init@0") else (s, "bad-op")
    | none => (s, "bad-op")
  | _ =>
    match s, parseOp line with
    | some st, some op => let r := step st op; (some r.1, s!"{if r.2 then "ok" else "skipped"} {status r.1}")
    | _, _ => (s, "bad-op")

/-! ### observable-level monitor
* `dl-stopped-with-consumer`: the runtime is down although a consumer is attached;
* `dl-stopped-without-timeout`: down less than `T` after the last moment at which there was a consumer;
* `dl-not-stopped-after-unanimity`: still up although there has been no consumer for more than `T` and both tasks must
  know it (the read task finds out with the first event after the last consumer left and comes round with the next
  event: two events since then, or no consumer since its last vote). -/

structure Mon where
  T : Nat := 0
  now : Nat := 0
  live : List Nat := []
  ever : List Nat := []
  lastPresent : Nat := 0        -- the last instant at which a consumer was attached
  evsSince : Nat := 0           -- events since the last consumer left
  secondEv : Nat := 0           -- the time of the second of them
  hadConsumer : Bool := false   -- … since the read task last had none for certain
  deriving Repr

def Mon.step (m : Mon) (line : String) (out : String) : Mon × Option String :=
  match words line with
  | ["dl", t] => ({ T := t.toNat?.getD 0 }, if (words out).head? = some "ok" then none else some "dl-init-failed")
  | _ =>
    match parseOp line with
    | none => (m, some "unparsable")
    | some op =>
      let ws := words out
      let skipped := ws.head? = some "skipped"
      let m1 : Mon :=
        if skipped then m else
        match op with
        | .attach c => { m with live := c :: m.live, ever := c :: m.ever, lastPresent := m.now, hadConsumer := true, evsSince := 0 }
        | .dropc c =>
          let l := m.live.filter (fun x => !(x == c))
          { m with live := l, lastPresent := m.now, evsSince := 0 }
        | .ev =>
          if m.live.isEmpty then
            { m with evsSince := m.evsSince + 1, secondEv := if m.evsSince = 1 then m.now else m.secondEv }
          else m
        | .cmd _ => m
        | .adv k => { m with now := m.now + 100 * k }
      match ws.drop 1 with
      | ["up"] =>
        let quietSince := if m1.hadConsumer then (if m1.evsSince ≥ 2 then some (max m1.secondEv m1.lastPresent) else none)
                          else some m1.lastPresent
        match quietSince with
        | some q =>
          if m1.live.isEmpty && decide (q + m1.T < m1.now) then (m1, some "dl-not-stopped-after-unanimity") else (m1, none)
        | none => (m1, none)
      | ["down", tm] =>
        match (if tm.startsWith "@" then (tm.drop 1).toString.toNat? else none) with
        | none => (m1, some "unparsable")
        | some t =>
          if !m1.live.isEmpty then (m1, some "dl-stopped-with-consumer")
          else if decide (t < m1.lastPresent + m1.T) then (m1, some "dl-stopped-without-timeout")
          else (m1, none)
      | _ => (m1, some "unexpected-status")

end SwimVerif.InactDl
