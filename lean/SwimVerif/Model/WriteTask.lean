/-
Model of the write side of the agent runtime (`swimos_runtime::agent::task`), shared by C01–C04, C14, C20:

* `Uplinks` (`remotes/uplink/mod.rs`): per remote — lent-out writer, `special_queue`, `write_queue`, one
  `Uplink {queued, send_synced, backpressure}` per lane and kind, the three backpressure kinds
  (`backpressure/mod.rs`), `push_special`, `push`, `replace_and_pop`;
* `perform_write` (`write_fut/mod.rs`): a `WriteTask` is represented by the frames it will send;
* `Links` (`links.rs`) with the per-lane / aggregate `UplinkReporter` link and event counters;
* `WriteTaskState` (`task/mod.rs`): `handle_task_message` (Remote / Link / Unlink / UnknownLane), `handle_event`,
  `replace`, write failure ⇒ `remove_remote`, `remove_lane`, `remove_remote_if_idle`, `unlink_all`.

One `Ev` = one iteration of the `write_task` loop (`WriteTaskEvent`), so "every schedule" = every `List Ev`.
Lanes are identified by the id the registry assigned (= registration order); a lane *name* is a number too
(`name n` ↔ "l<n>"), names that were never registered stand for unknown lanes. Map keys are *key classes*
(Recon-equal spellings share a class; the harness maps spellings to classes).
-/
import SwimVerif.Model.Util
import SwimVerif.Model.AssocList

namespace SwimVerif.WT

abbrev Bytes := List Nat

/-! ### Map operations and the coalescing queue (specification level: replace in place, else append) -/

inductive MapOp
  | upd (k : Nat) (v : Bytes)
  | rem (k : Nat)
  | clear
  deriving DecidableEq, Repr

def MapOp.key? : MapOp → Option Nat
  | .upd k _ => some k
  | .rem k => some k
  | .clear => none

/-- `MapOperationQueue::push` at specification level. -/
def mqReplace (op : MapOp) (k : Nat) : List MapOp → Option (List MapOp)
  | [] => none
  | e :: rest =>
    if e.key? = some k then some (op :: rest)
    else match mqReplace op k rest with
      | some r => some (e :: r)
      | none => none

def mqPush (q : List MapOp) (op : MapOp) : List MapOp :=
  match op.key? with
  | none => [.clear]
  | some k => match mqReplace op k q with
    | some q' => q'
    | none => q ++ [op]

/-! ### Notifications, writes -/

inductive UnlinkMsg | none | closed | notFound   -- "", "\"Link closed.\"", "@laneNotFound"
  deriving DecidableEq, Repr

inductive Body
  | raw (b : Bytes)      -- value / supply event body
  | map (op : MapOp)     -- Recon-encoded map operation
  | empty                -- a body nobody pushed (`b""` left in a buffer)
  deriving DecidableEq, Repr

inductive Note
  | linked
  | synced
  | unlinked (m : UnlinkMsg)
  | event (b : Body)
  deriving DecidableEq, Repr

/-- A scheduled `WriteTask`: the lane *name* set on the sender and the frames `perform_write` will send. -/
structure Write where
  lane : Option Nat        -- `none` = empty name (`unwrap_or_default` of an unknown id)
  notes : List Note
  lid : Option Nat := none -- ghost: the lane id the write is about (not observable; `none` for lane-not-found)
  deriving DecidableEq, Repr

inductive Kind | value | supply | map
  deriving DecidableEq, Repr

/-- `UplinkResponse` -/
inductive Resp
  | synced (k : Kind)
  | value (b : Bytes)
  | supply (b : Bytes)
  | map (op : MapOp)
  deriving DecidableEq, Repr

/-- `SpecialAction` -/
inductive Special
  | linked (lane : Nat)
  | unlinked (lane : Nat) (m : UnlinkMsg)
  | laneNotFound (name : Nat)
  deriving DecidableEq, Repr

/-! ### Uplinks (one remote) -/

/-- `ValueBackpressure` after the `fix:` — `pending` says whether `current` holds an unsent body. -/
structure ValueBp where
  current : Bytes := []
  pending : Bool := false
  deriving DecidableEq, Repr

structure Uplink (β : Type) where
  queued : Bool := false
  sendSynced : Bool := false
  bp : β

structure Uplinks where
  writerHome : Bool := true                          -- `writer.is_some()`
  value : List (Nat × Uplink ValueBp) := []
  supply : List (Nat × Uplink (List Bytes)) := []    -- `SupplyBackpressure`: FIFO of bodies
  map : List (Nat × Uplink (List MapOp)) := []       -- `MapBackpressure`
  writeQueue : List (Kind × Nat) := []
  specialQueue : List Special := []

/-- Lane registry: `names[id] = name`. -/
abbrev Registry := List Nat

def Registry.nameFor (r : Registry) (id : Nat) : Option Nat := r[id]?
def Registry.idFor (r : Registry) (name : Nat) : Option Nat :=
  let i := r.idxOf name
  if i < r.length then some i else none

def specialWrite (reg : Registry) : Special → Write
  | .linked id => ⟨reg.nameFor id, [.linked], some id⟩
  | .unlinked id m => ⟨reg.nameFor id, [.unlinked m], some id⟩
  | .laneNotFound name => ⟨some name, [.unlinked .notFound], none⟩

/-- `Uplinks::push_special` -/
def Uplinks.pushSpecial (u : Uplinks) (a : Special) (reg : Registry) : Uplinks × Option Write :=
  if u.writerHome then ({ u with writerHome := false }, some (specialWrite reg a))
  else
    let u1 := match a with
      | .unlinked id _ =>
        { u with value := alErase u.value id, supply := alErase u.supply id, map := alErase u.map id }
      | _ => u
    ({ u1 with specialQueue := u1.specialQueue ++ [a] }, none)

/-- `write_to_buffer` (writer available: no backpressure involved) -/
def directNotes : Resp → List Note
  | .synced _ => [.synced]
  | .value b => [.event (.raw b)]
  | .supply b => [.event (.raw b)]
  | .map op => [.event (.map op)]

def enqueueIf (q : List (Kind × Nat)) (queued : Bool) (e : Kind × Nat) : List (Kind × Nat) :=
  if queued then q else q ++ [e]

/-- `Uplinks::push` -/
def Uplinks.push (u : Uplinks) (lane : Nat) (ev : Resp) (reg : Registry) : Uplinks × Option Write :=
  if u.writerHome then ({ u with writerHome := false }, some ⟨reg.nameFor lane, directNotes ev, some lane⟩)
  else
    match ev with
    | .value b =>
      let up := (alGet u.value lane).getD { bp := {} }
      ({ u with value := alSet u.value lane { up with queued := true, bp := { current := b, pending := true } },
                writeQueue := enqueueIf u.writeQueue up.queued (.value, lane) }, none)
    | .supply b =>
      let up := (alGet u.supply lane).getD { bp := [] }
      ({ u with supply := alSet u.supply lane { up with queued := true, bp := up.bp ++ [b] },
                writeQueue := enqueueIf u.writeQueue up.queued (.supply, lane) }, none)
    | .map op =>
      let up := (alGet u.map lane).getD { bp := [] }
      ({ u with map := alSet u.map lane { up with queued := true, bp := mqPush up.bp op },
                writeQueue := enqueueIf u.writeQueue up.queued (.map, lane) }, none)
    | .synced .value =>
      let up := (alGet u.value lane).getD { bp := {} }
      ({ u with value := alSet u.value lane { up with queued := true, sendSynced := true },
                writeQueue := enqueueIf u.writeQueue up.queued (.value, lane) }, none)
    | .synced .supply =>
      let up := (alGet u.supply lane).getD { bp := [] }
      ({ u with supply := alSet u.supply lane { up with queued := true, sendSynced := true },
                writeQueue := enqueueIf u.writeQueue up.queued (.supply, lane) }, none)
    | .synced .map =>
      let up := (alGet u.map lane).getD { bp := [] }
      ({ u with map := alSet u.map lane { up with queued := true, sendSynced := true },
                writeQueue := enqueueIf u.writeQueue up.queued (.map, lane) }, none)

/-- The body of the loop of `replace_and_pop` for one `write_queue` entry: `none` = continue the loop. -/
def Uplinks.popEntry (u : Uplinks) (kind : Kind) (lane : Nat) (reg : Registry) : Uplinks × Option Write :=
  match kind with
  | .value =>
    match alGet u.value lane with
    | none => (u, none)
    | some up =>
      let notes : List Note :=
        (if up.bp.pending then [.event (.raw up.bp.current)] else []) ++ (if up.sendSynced then [.synced] else [])
      ({ u with value := alSet u.value lane { queued := false, sendSynced := false, bp := {} } },
       if notes.isEmpty then none else some ⟨reg.nameFor lane, notes, some lane⟩)
  | .supply =>
    match alGet u.supply lane with
    | none => (u, none)
    | some up =>
      let notes : List Note :=
        (match up.bp with | b :: _ => [.event (.raw b)] | [] => []) ++ (if up.sendSynced then [.synced] else [])
      ({ u with supply := alSet u.supply lane { queued := !up.bp.tail.isEmpty, sendSynced := false, bp := up.bp.tail },
                writeQueue := if up.bp.tail.isEmpty then u.writeQueue else u.writeQueue ++ [(.supply, lane)] },
       if notes.isEmpty then none else some ⟨reg.nameFor lane, notes, some lane⟩)
  | .map =>
    match alGet u.map lane with
    | none => (u, none)
    | some up =>
      if up.sendSynced then
        -- `MapSynced(Some(queue))`: the whole queue is drained by the write, then `synced`
        ({ u with map := alSet u.map lane { queued := false, sendSynced := false, bp := [] } },
         some ⟨reg.nameFor lane, up.bp.map (fun op => .event (.map op)) ++ [.synced], some lane⟩)
      else
        match up.bp with
        | [] => ({ u with map := alSet u.map lane { queued := false, sendSynced := false, bp := [] } }, none)
        | op :: rest =>
          ({ u with map := alSet u.map lane { queued := !rest.isEmpty, sendSynced := false, bp := rest },
                    writeQueue := if rest.isEmpty then u.writeQueue else u.writeQueue ++ [(.map, lane)] },
           some ⟨reg.nameFor lane, [.event (.map op)], some lane⟩)

/-- The `loop` of `replace_and_pop` over the write queue (fuel = queue length + 1 suffices: every iteration
that continues consumes an entry without adding one). -/
def Uplinks.popLoop (u : Uplinks) (reg : Registry) : Nat → Uplinks × Option Write
  | 0 => ({ u with writerHome := true }, none)
  | fuel + 1 =>
    match u.writeQueue with
    | [] => ({ u with writerHome := true }, none)
    | (kind, lane) :: rest =>
      let r := Uplinks.popEntry { u with writeQueue := rest } kind lane reg
      match r.2 with
      | some w => (r.1, some w)
      | none => Uplinks.popLoop r.1 reg fuel

/-- `Uplinks::replace_and_pop` -/
def Uplinks.replaceAndPop (u : Uplinks) (reg : Registry) : Uplinks × Option Write :=
  match u.specialQueue with
  | s :: rest => ({ u with specialQueue := rest }, some (specialWrite reg s))
  | [] => Uplinks.popLoop u reg (u.writeQueue.length + 1)

/-! ### Links and reporters -/

structure LaneLinks where
  remotes : List Nat := []
  hasReporter : Bool := false
  deriving Repr

/-- Counters of one `UplinkReporter` as seen by its reader. -/
structure Counters where
  links : Nat := 0
  events : Nat := 0
  deriving Repr, DecidableEq

structure Links where
  forward : List (Nat × LaneLinks) := []
  backwards : List (Nat × List Nat) := []
  total : Nat := 0
  hasAgg : Bool := false
  -- reporter cells (shared `Arc`s: they outlive the entry that holds the handle)
  agg : Counters := {}
  lane : List (Nat × Counters) := []

def Links.setLaneLinks (l : Links) (id : Nat) (n : Nat) : Links :=
  { l with lane := alSet l.lane id { (alGet l.lane id).getD {} with links := n } }

def Links.addLaneEvents (l : Links) (id : Nat) (n : Nat) : Links :=
  let c := (alGet l.lane id).getD {}
  { l with lane := alSet l.lane id { c with events := c.events + n } }

def Links.setAgg (l : Links) : Links :=
  if l.hasAgg then { l with agg := { l.agg with links := l.total } } else l

/-- `Links::register_reporter` -/
def Links.registerReporter (l : Links) (id : Nat) : Links :=
  let e := (alGet l.forward id).getD {}
  -- the reporter handed over is a fresh one (all counters zero)
  { l with forward := alSet l.forward id { e with hasReporter := true },
           lane := alSet l.lane id {} }

/-- Replace the entry of lane `id` (its reporter, if any, is told the new size) and set the running total. -/
def Links.updEntry (l : Links) (id : Nat) (e' : LaneLinks) (t : Nat) : Links :=
  let l0 : Links := { l with forward := alSet l.forward id e', total := t }
  if e'.hasReporter then l0.setLaneLinks id e'.remotes.length else l0

/-- `LaneLinks::insert` on `forward.entry(id).or_default()` -/
def Links.addRemote (l : Links) (id remote : Nat) : Links :=
  if ((alGet l.forward id).getD {}).remotes.contains remote then
    { l with forward := alSet l.forward id ((alGet l.forward id).getD {}) }
  else
    l.updEntry id { (alGet l.forward id).getD {} with
      remotes := ((alGet l.forward id).getD {}).remotes ++ [remote] } (l.total + 1)

/-- `Links::insert` -/
def Links.insert (l : Links) (id remote : Nat) : Links :=
  { (l.addRemote id remote).setAgg with
    backwards := alSet (l.addRemote id remote).setAgg.backwards remote
      (setInsert ((alGet (l.addRemote id remote).setAgg.backwards remote).getD []) id) }

def Links.isLinked (l : Links) (remote id : Nat) : Bool :=
  match alGet l.forward id with
  | some e => e.remotes.contains remote
  | none => false

/-- `LaneLinks::remove` inside an occupied forward entry -/
def Links.removeFromLane (l : Links) (id remote : Nat) : Links :=
  match alGet l.forward id with
  | none => l
  | some e =>
    if e.remotes.contains remote then
      l.updEntry id { e with remotes := setErase e.remotes remote } (l.total - 1)
    else l

/-- first half of `Links::remove`: the forward entry and the counters -/
def Links.removeCore (l : Links) (id remote : Nat) : Links :=
  match alGet l.forward id with
  | some _ => (l.removeFromLane id remote).setAgg
  | none => l

/-- `Links::remove`; the Boolean is `schedule_prune`. -/
def Links.remove (l : Links) (id remote : Nat) : Links × Bool :=
  match alGet (l.removeCore id remote).backwards remote with
  | some lanes =>
    if (setErase lanes id).isEmpty then
      ({ l.removeCore id remote with backwards := alErase (l.removeCore id remote).backwards remote }, true)
    else ({ l.removeCore id remote with
            backwards := alSet (l.removeCore id remote).backwards remote (setErase lanes id) }, false)
  | none => (l.removeCore id remote, false)

def Links.linkedFrom (l : Links) (id : Nat) : List Nat :=
  match alGet l.forward id with
  | some e => e.remotes
  | none => []

/-- `Links::remove_remote` (after the `fix:` the emptied lane entry — and its reporter — is kept). -/
def Links.removeRemote (l : Links) (remote : Nat) : Links :=
  let lanes := (alGet l.backwards remote).getD []
  let l1 := lanes.foldl (fun acc id => acc.removeFromLane id remote) { l with backwards := alErase l.backwards remote }
  l1.setAgg

/-- one step of the `remove_lane` iterator: drop lane `id` from the backwards entry of `remote` -/
def unlinkBack (id : Nat) (acc : Links × List (Nat × Bool)) (remote : Nat) : Links × List (Nat × Bool) :=
  match alGet acc.1.backwards remote with
  | some lanes =>
    if (setErase lanes id).isEmpty then
      ({ acc.1 with backwards := alErase acc.1.backwards remote }, acc.2 ++ [(remote, true)])
    else ({ acc.1 with backwards := alSet acc.1.backwards remote (setErase lanes id) }, acc.2 ++ [(remote, false)])
  | none => (acc.1, acc.2 ++ [(remote, false)])

/-- the forward half of `remove_lane`: the entry (with its reporter) is removed, the reporter told `0` -/
def Links.dropLane (l : Links) (id : Nat) (e : LaneLinks) : Links :=
  (if e.hasReporter then
    Links.setLaneLinks { l with forward := alErase l.forward id, total := l.total - e.remotes.length } id 0
   else { l with forward := alErase l.forward id, total := l.total - e.remotes.length }).setAgg

/-- `Links::remove_lane`, iterator fully consumed: the unlinks to perform `(remote, schedule_prune)`. -/
def Links.removeLane (l : Links) (id : Nat) : Links × List (Nat × Bool) :=
  match alGet l.forward id with
  | none => (l, [])
  | some e => e.remotes.foldl (unlinkBack id) (l.dropLane id e, [])

def clearEntry (p : Nat × LaneLinks) : Nat × LaneLinks := (p.1, { p.2 with remotes := [] })

/-- every reporter of a lane in `ps` is told `0` (`take_remotes`) -/
def zeroFold (ps : List (Nat × LaneLinks)) (acc : Links) : Links :=
  ps.foldl (fun (acc : Links) (p : Nat × LaneLinks) => if p.2.hasReporter then acc.setLaneLinks p.1 0 else acc) acc

def Links.pairs (l : Links) : List (Nat × Nat) :=
  l.forward.flatMap (fun (p : Nat × LaneLinks) => p.2.remotes.map (fun r => (p.1, r)))

def Links.removeAllBase (l : Links) : Links :=
  if l.hasAgg then
    { l with backwards := [], total := l.total - l.pairs.length, forward := l.forward.map clearEntry,
             agg := { l.agg with links := 0 } }
  else
    { l with backwards := [], total := l.total - l.pairs.length, forward := l.forward.map clearEntry }

/-- `Links::remove_all_links`, iterator fully consumed: all `(lane, remote)` pairs. -/
def Links.removeAllLinks (l : Links) : Links × List (Nat × Nat) :=
  (zeroFold l.forward l.removeAllBase, l.pairs)

/-- `count_events(n)` on the lane's reporter (if any) and on the aggregate reporter -/
def Links.addEvents (l : Links) (id : Nat) (hasRep : Bool) (n : Nat) : Links :=
  { (if hasRep then l.addLaneEvents id n else l) with
    agg := { (if hasRep then l.addLaneEvents id n else l).agg with
             events := (if hasRep then l.addLaneEvents id n else l).agg.events + n } }

/-- `Links::count_single` -/
def Links.countSingle (l : Links) (id : Nat) : Links :=
  match l.hasAgg, alGet l.forward id with
  | true, some e => l.addEvents id e.hasReporter 1
  | _, _ => l

/-- `Links::count_broadcast` -/
def Links.countBroadcast (l : Links) (id : Nat) : Links :=
  match l.hasAgg, alGet l.forward id with
  | true, some e => l.addEvents id e.hasReporter e.remotes.length
  | _, _ => l

/-! ### The write task state -/

inductive Reason | duplicate | channelClosed | timedOut | stopped
  deriving DecidableEq, Repr

structure Remote where
  up : Uplinks := {}
  inflight : Option Write := none       -- the write lent to `pending_writes`
  deriving Inhabited

structure St where
  reg : Registry := []
  links : Links := {}
  remotes : List (Nat × Remote) := []
  /-- writes whose remote was removed/replaced while they were in flight (their completion is ignored) -/
  orphans : List (Nat × Write) := []
  deriving Inhabited

/-- One iteration of the `write_task` loop. -/
inductive Ev
  | lane (name : Nat) (reporter : Bool)        -- `register_lane`
  | attach (r : Nat)                           -- `WriteTaskMessage::Remote`
  | link (r : Nat) (name : Nat)                -- `RwCoordinationMessage::Link`
  | unlink (r : Nat) (name : Nat)              -- `RwCoordinationMessage::Unlink`
  | unknown (r : Nat) (name : Nat)             -- `RwCoordinationMessage::UnknownLane`
  | event (lane : Nat) (target : Option Nat) (resp : Resp)   -- `WriteTaskEvent::Event`
  | done (r : Nat) (ok : Bool)                 -- `WriteTaskEvent::WriteDone`
  | laneFailed (lane : Nat)                    -- `WriteTaskEvent::LaneFailed`
  | prune (r : Nat)                            -- `WriteTaskEvent::PruneRemote`
  | stop                                       -- `unlink_all` of the shutdown epilogue
  | snapshot                                   -- reader side of the reporters (consumes event counts)
  deriving Repr

/-- What one step makes observable. -/
structure Out where
  frames : List (Option Nat × Note) := []    -- delivered to the remote of a `done` (lane name, notification)
  sched : List Nat := []                     -- remotes for which a write was scheduled
  closed : List (Nat × Reason) := []         -- completion promises resolved
  snap : Option (Counters × List (Nat × Counters)) := none

def St.remote? (s : St) (r : Nat) : Option Remote := alGet s.remotes r

/-- Record a write returned for remote `r` as in flight. -/
def St.sched (s : St) (r : Nat) (u : Uplinks) (w : Option Write) (inflight : Option Write) : St :=
  { s with remotes := alSet s.remotes r { up := u, inflight := (match w with | some x => some x | none => inflight) } }

/-- `RemoteTracker::push_special` -/
def St.pushSpecial (s : St) (r : Nat) (a : Special) : St × List Nat :=
  match s.remote? r with
  | none => (s, [])
  | some rem =>
    let res := rem.up.pushSpecial a s.reg
    (s.sched r res.1 res.2 rem.inflight, if res.2.isSome then [r] else [])

/-- `RemoteTracker::push_write` -/
def St.pushWrite (s : St) (r : Nat) (lane : Nat) (ev : Resp) : St × List Nat :=
  match s.remote? r with
  | none => (s, [])
  | some rem =>
    let res := rem.up.push lane ev s.reg
    (s.sched r res.1 res.2 rem.inflight, if res.2.isSome then [r] else [])

def St.removeRemote (s : St) (r : Nat) (why : Reason) : St × List (Nat × Reason) :=
  let s1 := { s with links := s.links.removeRemote r }
  match s1.remote? r with
  | none => (s1, [])
  | some rem =>
    ({ s1 with remotes := alErase s1.remotes r,
               orphans := (match rem.inflight with | some w => s1.orphans ++ [(r, w)] | none => s1.orphans) },
     [(r, why)])

/-- Completion of a write whose remote has been removed meanwhile: the frames still reach the (old) channel,
`replace` finds no remote. -/
def stepOrphan (s : St) (r : Nat) (ok : Bool) : St × Out :=
  match s.orphans.find? (fun p => p.1 = r) with
  | none => (s, {})
  | some (_, w) =>
    ({ s with orphans := s.orphans.eraseP (fun p => p.1 = r) },
     { frames := if ok then w.notes.map (fun n => (w.lane, n)) else [] })

def step (s : St) : Ev → St × Out
  | .lane name rep =>
    let id := s.reg.length
    let s1 := { s with reg := s.reg ++ [name] }
    (if rep then { s1 with links := s1.links.registerReporter id } else s1, {})
  | .attach r =>
    match s.remote? r with
    | some old =>
      ({ s with remotes := alSet s.remotes r {},
                orphans := (match old.inflight with | some w => s.orphans ++ [(r, w)] | none => s.orphans) },
       { closed := [(r, .duplicate)] })
    | none => ({ s with remotes := alSet s.remotes r {} }, {})
  | .link r name =>
    match s.reg.idFor name, s.remote? r with
    | some id, some _ =>
      let s1 := { s with links := s.links.insert id r }
      let res := s1.pushSpecial r (.linked id)
      (res.1, { sched := res.2 })
    | _, _ => (s, {})
  | .unlink r name =>
    match s.reg.idFor name with
    | some id =>
      if s.links.isLinked r id then
        let lr := s.links.remove id r
        let s1 := { s with links := lr.1 }
        let res := s1.pushSpecial r (.unlinked id .closed)
        (res.1, { sched := res.2 })
      else (s, {})
    | none => (s, {})
  | .unknown r name =>
    let res := s.pushSpecial r (.laneNotFound name)
    (res.1, { sched := res.2 })
  | .event lane target resp =>
    match target with
    | some r =>
      -- (after the `fix:`) a response for a remote that has gone away is discarded
      if (s.remote? r).isNone then (s, {}) else
      let s0 := { s with links := s.links.countSingle lane }
      if s0.links.isLinked r lane then
        let res := s0.pushWrite r lane resp
        (res.1, { sched := res.2 })
      else
        let s1 := { s0 with links := s0.links.insert lane r }
        let r1 := s1.pushSpecial r (.linked lane)
        let r2 := r1.1.pushWrite r lane resp
        (r2.1, { sched := r1.2 ++ r2.2 })
    | none =>
      let targets := s.links.linkedFrom lane
      if targets.isEmpty then (s, {})
      else
        let s0 := { s with links := s.links.countBroadcast lane }
        let res := targets.foldl (fun (acc : St × List Nat) r =>
          let x := acc.1.pushWrite r lane resp; (x.1, acc.2 ++ x.2)) (s0, [])
        (res.1, { sched := res.2 })
  | .done r ok =>
    match s.remote? r with
    | none => stepOrphan s r ok
    | some rem =>
      match rem.inflight with
      | none => stepOrphan s r ok
      | some w =>
        if ok then
          let res := rem.up.replaceAndPop s.reg
          ({ s with remotes := alSet s.remotes r { up := res.1, inflight := res.2 } },
           { frames := w.notes.map (fun n => (w.lane, n)), sched := if res.2.isSome then [r] else [] })
        else
          let s1 := { s with remotes := alSet s.remotes r { rem with inflight := none } }
          let res := s1.removeRemote r .channelClosed
          (res.1, { closed := res.2 })
  | .laneFailed lane =>
    let lr := s.links.removeLane lane
    let s1 := { s with links := lr.1 }
    let res := lr.2.foldl (fun (acc : St × List Nat) (p : Nat × Bool) =>
      let x := acc.1.pushSpecial p.1 (.unlinked lane .none); (x.1, acc.2 ++ x.2)) (s1, [])
    (res.1, { sched := res.2 })
  | .prune r =>
    match alGet s.links.backwards r with
    | some _ => (s, {})
    | none => let res := s.removeRemote r .timedOut; (res.1, { closed := res.2 })
  | .stop =>
    let lr := s.links.removeAllLinks
    let s1 := { s with links := lr.1 }
    let res := lr.2.foldl (fun (acc : St × List Nat) (p : Nat × Nat) =>
      let x := acc.1.pushSpecial p.2 (.unlinked p.1 .none); (x.1, acc.2 ++ x.2)) (s1, [])
    (res.1, { sched := res.2 })
  | .snapshot =>
    let l := s.links
    ({ s with links := { l with agg := { l.agg with events := 0 },
                                lane := l.lane.map (fun (p : Nat × Counters) => (p.1, { p.2 with events := 0 })) } },
     { snap := some (l.agg, l.lane) })

def run (s : St) (evs : List Ev) : St := evs.foldl (fun s e => (step s e).1) s

/-- All outputs of a run, in order. -/
def trace : St → List Ev → List Out
  | _, [] => []
  | s, e :: rest => (step s e).2 :: trace (step s e).1 rest

end SwimVerif.WT
