/-
Model of the event-handler machinery of `swimos_agent` (C06).

* `H`      : a first-order handler language; every constructor is the *runtime state* of one real handler type of
             `event_handler/mod.rs` (`FollowedBy::{First,Second}`, `AndThen::{First,Second}`,
             `Sequentially::{Init,Running}`, `Either`, `Discard<Option<_>>`, `SideEffect`, `ValueLaneSet`, …) or of a
             lane handler (`ValueLaneGet/Set`, `MapLaneUpdate/Remove/Clear/Get`), closures being defunctionalised.
* `step`   : the SMALL-STEP `HandlerAction::step` of each of them, returning the new handler state, the new agent
             state and `Continue/Complete {modified_item} | Fail` exactly as the code does.
* `runLoop`: `agent_model::run_handler` — the loop over `step` with the recursion on `TRIGGER_HANDLER` and the
             collection on `DIRTY`; the recursive call is abstracted as `trig`, instantiated by `trigD` (the
             lifecycle `item_event`: `on_event` then `on_set prev new` for value lanes, `on_update | on_remove |
             on_clear` for map lanes, the previous value taken out of the single `previous` slot by
             `read_with_prev`).
* `eval`   : a big-step reference semantics (trigger ⇒ run the consequence to completion ⇒ resume).
* `Agent`  : the part of the agent main loop that decides which top-level handler runs when (`on_start`, commands,
             suspended futures, `on_stop`) and what a failure does.
-/
import SwimVerif.Model.Util
import SwimVerif.Model.AssocList
import SwimVerif.Generated.HandlerFlags

namespace SwimVerif.Handlers

/-! ### Observable trace entries (recorded by `context.effect` closures in the harness) -/

inductive Top | start | stop | cmd | susp
  deriving DecidableEq, Repr

/-- The closures given to `transform_entry` by the harness (defunctionalised): every combination of
"entry present / absent" and "closure returns Some / None" is reachable. -/
inductive Xf
  | inc (d : Int)      -- `|v| Some(v.copied().unwrap_or(0) + d)` : insert or replace
  | del                -- `|_| None`                              : remove or no change
  | bump (d : Int)     -- `|v| v.map(|x| x + d)`                  : replace or no change
  | flip (n : Int)     -- `|v| if v.is_some() { None } else { Some(n) }` : remove or insert
  deriving DecidableEq, Repr

def Xf.app : Xf → Option Int → Option Int
  | .inc d, v => some (v.getD 0 + d)
  | .del, _ => none
  | .bump d, v => v.map (· + d)
  | .flip _, some _ => none
  | .flip n, none => some n

inductive Ev
  | eff (i : Nat)
  | got (l : Nat) (v : Int)
  | gotE (m k : Nat) (v : Option Int)
  | gotW (m k : Nat) (v : Option Int)   -- read through `with_entry`
  | wset (l : Nat) (n : Int)            -- intent records written just before a modifying primitive
  | wupd (m k : Nat) (n : Int)
  | wrem (m k : Nat)
  | wclr (m : Nat)
  | wxf (m k : Nat) (f : Xf)            -- intent record of a `transform_entry`
  | wfail | wstop | wsusp
  | enEvent (l : Nat) (new : Int) | exEvent (l : Nat)
  | enSet (l : Nat) (prev : Option Int) (new : Int) | exSet (l : Nat)
  | enUpd (m k : Nat) (prev : Option Int) (new : Int) | exUpd (m : Nat)
  | enRem (m k : Nat) (prev : Int) | exRem (m : Nat)
  | enClr (m : Nat) (before : List (Nat × Int)) | exClr (m : Nat)
  | enTop (t : Top) | exTop (t : Top)
  deriving DecidableEq, Repr

inductive Err
  | effect      -- `EventHandlerError::EffectError` (from `Fail`)
  | stop        -- `EventHandlerError::StopInstructed`
  | afterDone   -- `EventHandlerError::SteppedAfterComplete`
  | depth       -- model only: the lifecycle recursion is deeper than the bound (the real code overflows its stack)
  | fuel        -- model only: loop fuel exhausted (unreachable: see `Proofs/Handlers.lean`)
  | panic       -- `&map[&k]` on a missing key in `map_handler`
  deriving DecidableEq, Repr

inductive Outcome | ok | err (e : Err)
  deriving DecidableEq, Repr

/-- `Modification { item_id, flags }` -/
structure Mod where
  item : Nat
  dirty : Bool
  trigger : Bool
  deriving DecidableEq, Repr

/-- `Modification::of` -/
def Mod.of (id : Nat) : Mod := { item := id, dirty := true, trigger := true }

/-- The `Modification` reported by `ValueLaneSet` / `MapLaneUpdate` / `MapLaneRemove` / `MapLaneClear::step`
(flags regenerated from the sources: `Generated/HandlerFlags.lean`). -/
def Mod.valueSet (id : Nat) : Mod :=
  { item := id, dirty := Generated.valueSetDirty, trigger := Generated.valueSetTrigger }
def Mod.mapUpdate (id : Nat) : Mod :=
  { item := id, dirty := Generated.mapUpdateDirty, trigger := Generated.mapUpdateTrigger }
def Mod.mapRemove (id : Nat) : Mod :=
  { item := id, dirty := Generated.mapRemoveDirty, trigger := Generated.mapRemoveTrigger }
def Mod.mapClear (id : Nat) : Mod :=
  { item := id, dirty := Generated.mapClearDirty, trigger := Generated.mapClearTrigger }
/-- `MapLaneTransformEntry::step` when the result is not `NoChange`. -/
def Mod.mapTransform (id : Nat) : Mod :=
  { item := id, dirty := Generated.mapTransformDirty, trigger := Generated.mapTransformTrigger }

/-- `StepResult` (completion values are consumed by the defunctionalised closures). -/
inductive Out
  | cont (m : Option Mod)
  | complete (m : Option Mod)
  | fail (e : Err)
  deriving DecidableEq, Repr

/-! ### Handlers -/

inductive H
  | emit (e : Ev)                    -- `SideEffect(Some(f))`
  | getLog (l : Nat)                 -- `AndThen::First { ValueLaneGet, |v| effect(record v) }`
  | copy (s d : Nat) (k : Int)       -- `AndThen::First { ValueLaneGet(s), |v| effect(intent).followed_by(set d (v+k)) }`
  | set (l : Nat) (n : Int)          -- `ValueLaneSet { value: Some(n) }`
  | mupd (m k : Nat) (n : Int)       -- `MapLaneUpdate`
  | mrem (m k : Nat)                 -- `MapLaneRemove`
  | mclr (m : Nat)                   -- `MapLaneClear`
  | mgetLog (m k : Nat)              -- `AndThen::First { MapLaneGet, |v| effect(record v) }`
  | mxf (m k : Nat) (f : Xf)         -- `MapLaneTransformEntry { key_and_f: Some((k, f)) }`
  | mwithLog (m k : Nat)             -- `AndThen::First { MapLaneWithEntry(k, |v| v.copied()), |v| effect(record v) }`
  | remMulti (m : Nat) (keys : List Nat)
      -- `MapLaneDropOrTake { state: Removing(MapLaneRemoveMultiple { keys: Some(keys), current: None }) }`; the `Init`
      -- state computes `keys` from the map and performs this handler's first step in the same `step` (`dropTakeH`)
  | fby (a b : H)                    -- `FollowedBy::First { first, next }`
  | athen (a b : H)                  -- `AndThen::First { first, |()| b }`
  | snd (b : H)                      -- `FollowedBy::Second(b)` / `AndThen::Second(b)`
  | seqNil                           -- `Sequentially::Init(it)`, `it` exhausted
  | seqCons (h : H) (t : H)          -- `Sequentially::Init(it)`, `it` yields `h` and then what `t` yields
  | seqRun (h : H) (t : H)           -- `Sequentially::Running(it, h)`
  | left (a : H) | right (a : H)     -- `Either::Left / Right`
  | optNone                          -- `Discard(None)`
  | optSome (a : H)                  -- `Discard(Some(a))`
  | fail                             -- `Fail { error: Some(e) }`
  | stop                             -- `Discard(Stop)`
  | suspend (a : H)                  -- `Suspend { future: Some(async { top-level bracket of a }) }`
  | done                             -- the consumed state of any of them
  deriving DecidableEq, Repr

/-- `Sequentially::new(vec![effect(enter), body, effect(exit)])`: how the harness lifecycle wraps every handler. -/
def bracket (en : Ev) (body : H) (ex : Ev) : H :=
  .seqCons (.emit en) (.seqCons body (.seqCons (.emit ex) .seqNil))

/-! ### Agent state -/

def nv : Nat := 3      -- value lanes v0..v2, item ids 0..2
def nm : Nat := 2      -- map lanes m0..m1, item ids 3..4
def vid (l : Nat) : Nat := l
def mid (m : Nat) : Nat := nv + m

/-- `stores::value::Inner` -/
structure VLane where
  content : Int := 0
  previous : Option Int := none
  deriving DecidableEq, Repr

/-- `MapLaneEvent` -/
inductive MEv
  | update (k : Nat) (old : Option Int)
  | remove (k : Nat) (old : Int)
  | clear (before : List (Nat × Int))
  deriving DecidableEq, Repr

/-- `MapStoreInner` (the event queue belongs to C02) -/
structure MLane where
  content : List (Nat × Int) := []
  previous : Option MEv := none
  deriving DecidableEq, Repr

structure St where
  vals : List VLane
  maps : List MLane
  trace : List Ev := []      -- newest first
  susp : List H := []        -- futures handed to `spawn_suspend`, oldest first
  dirty : List Nat := []     -- the `IdCollector`
  deriving Repr

def St.init : St := { vals := List.replicate nv {}, maps := List.replicate nm {} }

def St.log (st : St) (e : Ev) : St := { st with trace := e :: st.trace }

def St.readV (st : St) (l : Nat) : Int :=
  match st.vals[l]? with
  | some v => v.content
  | none => 0

def St.readM (st : St) (m : Nat) : List (Nat × Int) :=
  match st.maps[m]? with
  | some x => x.content
  | none => []

/-- `ValueStore::set`: `previous = Some(replace(content, value))`. -/
def St.setV (st : St) (l : Nat) (n : Int) : St :=
  match st.vals[l]? with
  | some v => { st with vals := st.vals.set l { content := n, previous := some v.content } }
  | none => st

/-- `MapStoreInner::update` -/
def St.updM (st : St) (m k : Nat) (n : Int) : St :=
  match st.maps[m]? with
  | some x => { st with maps := st.maps.set m { content := alSet x.content k n,
                                                previous := some (.update k (alGet x.content k)) } }
  | none => st

/-- `MapStoreInner::remove`: `previous` is written only when the key was present. -/
def St.remM (st : St) (m k : Nat) : St :=
  match st.maps[m]? with
  | some x =>
    match alGet x.content k with
    | some old => { st with maps := st.maps.set m { content := alErase x.content k, previous := some (.remove k old) } }
    | none => st
  | none => st

/-- `MapStoreInner::clear` -/
def St.clrM (st : St) (m : Nat) : St :=
  match st.maps[m]? with
  | some x => { st with maps := st.maps.set m { content := [], previous := some (.clear x.content) } }
  | none => st

/-- `MapStoreInner::transform_entry`, its four arms: entry present and the closure returns a value (replace,
`previous = Update(k, Some(old))`), present and `None` (remove, `previous = Remove(k, old)`), absent and a value
(insert, `previous = Update(k, None)`), absent and `None` (`NoChange`: nothing touched). `content.remove` followed by
`content.insert` of the same key is the `insert` of `update`; the `Bool` is `result != NoChange`. -/
def St.xfM (st : St) (m k : Nat) (f : Xf) : St × Bool :=
  match f.app (alGet (st.readM m) k) with
  | some v2 => (st.updM m k v2, true)
  | none =>
    match alGet (st.readM m) k with
    | some _ => (st.remM m k, true)
    | none => (st, false)

/-- Insertion sort of the keys (`keys_with_recon.sort_by` of `drop_or_take`: `Value` ordering, numeric on integers). -/
def insNat (x : Nat) : List Nat → List Nat
  | [] => [x]
  | y :: ys => if x ≤ y then x :: y :: ys else y :: insNat x ys

def sortNat (l : List Nat) : List Nat := l.foldr insNat []

/-- `map_storage::drop_or_take`: the keys a `Drop(n)` (the first `n` in key order) / `Take(n)` (all but the first
`n`) command removes, in the order in which they are removed. -/
def dropTakeKeys (content : List (Nat × Int)) (drop : Bool) (n : Nat) : List Nat :=
  if drop then (sortNat (content.map (·.1))).take n else (sortNat (content.map (·.1))).drop n

def St.spawn (st : St) (h : H) : St := { st with susp := st.susp ++ [h] }

def St.addDirty (st : St) (id : Nat) : St := { st with dirty := setInsert st.dirty id }

/-! ### `HandlerAction::step` -/

/-- The three arms (`Continue`, `Fail`, `Complete`) shared by the wrapping combinators: `W` rebuilds the combinator
around the stepped inner handler; `nx = some h` turns the inner `Complete` into `Continue` and moves to `h`
(`FollowedBy`/`AndThen` first stage, `Sequentially` with more to run), `nx = none` passes `Complete` through. -/
def wrapStep (W : H → H) (nx : Option H) (r : H × St × Out) : H × St × Out :=
  match r with
  | (a', st', .cont m) => (W a', st', .cont m)
  | (_, st', .fail e) => (.done, st', .fail e)
  | (_, st', .complete m) =>
    match nx with
    | some h => (h, st', .cont m)
    | none => (.done, st', .complete m)

/-- What `Sequentially::Running(it, h)` does when `h` completes: `it.next()`. -/
def seqNext (t : H) : Option H :=
  match t with
  | .seqCons h2 t2 => some (.seqRun h2 t2)
  | _ => none

def step (st : St) : H → H × St × Out
  | .emit e => (.done, st.log e, .complete none)
  | .getLog l => (.snd (.emit (.got l (st.readV l))), st, .cont none)
  | .copy s d k =>
    (.snd (.fby (.emit (.wset d (st.readV s + k))) (.set d (st.readV s + k))), st, .cont none)
  | .set l n => (.done, st.setV l n, .complete (some (Mod.valueSet (vid l))))
  | .mupd m k n => (.done, st.updM m k n, .complete (some (Mod.mapUpdate (mid m))))
  | .mrem m k => (.done, st.remM m k, .complete (some (Mod.mapRemove (mid m))))
  | .mclr m => (.done, st.clrM m, .complete (some (Mod.mapClear (mid m))))
  | .mgetLog m k => (.snd (.emit (.gotE m k (alGet (st.readM m) k))), st, .cont none)
  | .mxf m k f =>
    (.done, (st.xfM m k f).1, .complete (if (st.xfM m k f).2 then some (Mod.mapTransform (mid m)) else none))
  | .mwithLog m k => (.snd (.emit (.gotW m k (alGet (st.readM m) k))), st, .cont none)
  -- `MapLaneRemoveMultiple::step`: `pop_front`, one `MapLaneRemove::step` (always completes), `Continue`
  | .remMulti m (k :: rest) => (.remMulti m rest, st.remM m k, .cont (some (Mod.mapRemove (mid m))))
  | .remMulti _ [] => (.done, st, .complete none)
  | .fby a b => wrapStep (fun x => .fby x b) (some (.snd b)) (step st a)
  | .athen a b => wrapStep (fun x => .athen x b) (some (.snd b)) (step st a)
  | .snd b => wrapStep .snd none (step st b)
  | .seqNil => (.done, st, .complete none)
  | .seqCons h t => wrapStep (fun x => .seqRun x t) (seqNext t) (step st h)   -- `Init` falls through to `Running`
  | .seqRun h t => wrapStep (fun x => .seqRun x t) (seqNext t) (step st h)
  | .left a => wrapStep .left none (step st a)
  | .right a => wrapStep .right none (step st a)
  | .optNone => (.optNone, st, .complete none)
  | .optSome a => wrapStep .optSome none (step st a)
  | .fail => (.done, st, .fail .effect)
  | .stop => (.stop, st, .fail .stop)
  | .suspend a => (.done, st.spawn a, .complete none)
  | .done => (.done, st, .fail .afterDone)

/-- Number of `step`s a handler can take at most (every `Continue` strictly decreases it). -/
def size : H → Nat
  | .emit _ => 1
  | .getLog _ => 3
  | .copy _ _ _ => 7
  | .set _ _ => 1
  | .mupd _ _ _ => 1
  | .mrem _ _ => 1
  | .mclr _ => 1
  | .mgetLog _ _ => 3
  | .mxf _ _ _ => 1
  | .mwithLog _ _ => 3
  | .remMulti _ keys => keys.length + 1
  | .fby a b => size a + size b + 2
  | .athen a b => size a + size b + 2
  | .snd b => size b + 1
  | .seqNil => 1
  | .seqCons h t => size h + size t + 1
  | .seqRun h t => size h + size t
  | .left a => size a + 1
  | .right a => size a + 1
  | .optNone => 1
  | .optSome a => size a + 1
  | .fail => 1
  | .stop => 1
  | .suspend _ => 1
  | .done => 0

/-! ### `run_handler` -/

/-- Runs the lifecycle handlers of an item to completion (the recursive `run_handler` call). -/
abbrev Trig := Nat → St → St × Outcome

/-- The body of `if let Some((modification, lane)) = modified_item …` in `run_handler`. -/
def afterMod (trig : Trig) (m : Option Mod) (st : St) : St × Outcome :=
  match m with
  | none => (st, .ok)
  | some md =>
    if md.trigger then trig md.item (if md.dirty then st.addDirty md.item else st)
    else (if md.dirty then st.addDirty md.item else st, .ok)

/-- The `loop { match handler.step(..) { … } }` of `run_handler`. -/
def runLoop (trig : Trig) : Nat → H → St → St × Outcome
  | 0, _, st => (st, .err .fuel)
  | n + 1, h, st =>
    match step st h with
    | (h', st', .cont m) =>
      match afterMod trig m st' with
      | (st'', .ok) => runLoop trig n h' st''
      | (st'', .err e) => (st'', .err e)
    | (_, st', .fail e) => (st', .err e)
    | (_, st', .complete m) => afterMod trig m st'

def run (trig : Trig) (h : H) (st : St) : St × Outcome := runLoop trig (size h + 1) h st

/-! ### Lifecycle (`item_event`) -/

structure Prog where
  onStart : H
  onStop : H
  onEvent : List H
  onSet : List H
  onUpd : List H
  onRem : List H
  onClr : List H
  deriving Repr

def getH (l : List H) (i : Nat) : H := l.getD i .seqNil

/-- `ValueLikeBranch::item_event` / `MapLikeBranch::item_event`: consumes the `previous` slot (`read_with_prev`) and
builds the lifecycle handler. `none`: no handler (`None` for a map lane without a pending event, unknown item). -/
def consequence (P : Prog) (id : Nat) (st : St) : St × Option (Except Err H) :=
  if id < nv then
    match st.vals[id]? with
    | some v =>
      ({ st with vals := st.vals.set id { v with previous := none } },
       some (.ok (.fby (bracket (.enEvent id v.content) (getH P.onEvent id) (.exEvent id))
                      (bracket (.enSet id v.previous v.content) (getH P.onSet id) (.exSet id)))))
    | none => (st, none)
  else if nv + nm ≤ id then (st, none)      -- `items.get(&item_id)` is `None`: not an item with lifecycle handlers
  else
    match st.maps[id - nv]? with
    | some x =>
      match x.previous with
      | none => (st, none)
      | some ev =>
        ({ st with maps := st.maps.set (id - nv) { x with previous := none } },
         some (match ev with
          | .update k old =>
            match alGet x.content k with
            | some new => .ok (bracket (.enUpd (id - nv) k old new) (getH P.onUpd (id - nv)) (.exUpd (id - nv)))
            | none => .error .panic
          | .remove k old => .ok (bracket (.enRem (id - nv) k old) (getH P.onRem (id - nv)) (.exRem (id - nv)))
          | .clear before => .ok (bracket (.enClr (id - nv) before) (getH P.onClr (id - nv)) (.exClr (id - nv)))))
    | none => (st, none)

/-- `run_handler` with the recursion depth bounded by `d`. -/
def trigD (P : Prog) : Nat → Trig
  | 0 => fun id st =>
    match consequence P id st with
    | (st', none) => (st', .ok)
    | (st', some _) => (st', .err .depth)
  | d + 1 => fun id st =>
    match consequence P id st with
    | (st', none) => (st', .ok)
    | (st', some (.error e)) => (st', .err e)
    | (st', some (.ok h)) => run (trigD P d) h st'

/-! ### Big-step reference -/

def seqThen (r : St × Outcome) (k : St → St × Outcome) : St × Outcome :=
  match r with
  | (st, .ok) => k st
  | (st, .err e) => (st, .err e)

/-- Reference meaning of a take/drop: the removals one after the other in the order of `keys`, each followed by the
lane's handlers run to completion (so each sees the map without the keys removed before it). -/
def evalRem (trig : Trig) (m : Nat) : List Nat → St → St × Outcome
  | [], st => (st, .ok)
  | k :: rest, st => seqThen (trig (mid m) ((st.remM m k).addDirty (mid m))) (evalRem trig m rest)

def eval (trig : Trig) : H → St → St × Outcome
  | .emit e, st => (st.log e, .ok)
  | .getLog l, st => ((st.log (.got l (st.readV l))), .ok)
  | .copy s d k, st => trig (vid d) (((st.log (.wset d (st.readV s + k))).setV d (st.readV s + k)).addDirty (vid d))
  | .set l n, st => trig (vid l) ((st.setV l n).addDirty (vid l))
  | .mupd m k n, st => trig (mid m) ((st.updM m k n).addDirty (mid m))
  | .mrem m k, st => trig (mid m) ((st.remM m k).addDirty (mid m))
  | .mclr m, st => trig (mid m) ((st.clrM m).addDirty (mid m))
  | .mgetLog m k, st => (st.log (.gotE m k (alGet (st.readM m) k)), .ok)
  | .mxf m k f, st =>
    if (st.xfM m k f).2 then trig (mid m) ((st.xfM m k f).1.addDirty (mid m)) else ((st.xfM m k f).1, .ok)
  | .mwithLog m k, st => (st.log (.gotW m k (alGet (st.readM m) k)), .ok)
  | .remMulti m keys, st => evalRem trig m keys st
  | .fby a b, st => seqThen (eval trig a st) (eval trig b)
  | .athen a b, st => seqThen (eval trig a st) (eval trig b)
  | .snd b, st => eval trig b st
  | .seqNil, st => (st, .ok)
  | .seqCons h t, st => seqThen (eval trig h st) (fun st' => match seqNext t with
      | some _ => eval trig t st'
      | none => (st', .ok))
  | .seqRun h t, st => seqThen (eval trig h st) (fun st' => match seqNext t with
      | some _ => eval trig t st'
      | none => (st', .ok))
  | .left a, st => eval trig a st
  | .right a, st => eval trig a st
  | .optNone, st => (st, .ok)
  | .optSome a, st => eval trig a st
  | .fail, st => (st, .err .effect)
  | .stop, st => (st, .err .stop)
  | .suspend a, st => (st.spawn a, .ok)
  | .done, st => (st, .err .afterDone)

/-- The reference meaning of "the lifecycle handlers of item `id` run to completion". -/
def refD (P : Prog) : Nat → Trig
  | 0 => fun id st =>
    match consequence P id st with
    | (st', none) => (st', .ok)
    | (st', some _) => (st', .err .depth)
  | d + 1 => fun id st =>
    match consequence P id st with
    | (st', none) => (st', .ok)
    | (st', some (.error e)) => (st', .err e)
    | (st', some (.ok h)) => eval (refD P d) h st'

/-! ### The agent task: which top-level handler runs when -/

inductive Phase | none | running | stopped | failed | nostart
  deriving DecidableEq, Repr

/-- Recursion bound used by the executable model (more than the number of items: never reached by an acyclic
lifecycle, see `C06_acyclic_no_depth`). -/
def maxDepth : Nat := 8

structure Agent where
  prog : Prog
  st : St
  phase : Phase
  deriving Repr

/-- `MapLaneDropOrTake` in its `Init` state, about to be run in state `st`: its first `step` computes the keys to
remove from the current map (`drop_or_take`) and performs the first step of the `MapLaneRemoveMultiple` it becomes. -/
def dropTakeH (st : St) (m : Nat) (drop : Bool) (n : Nat) : H := .remMulti m (dropTakeKeys (st.readM m) drop n)

def topRun (P : Prog) (h : H) (st : St) : St × Outcome := run (trigD P maxDepth) h st

/-- `on_stop` is run after the main loop ended with `Ok`; `Ok | Err(StopInstructed)` → `Ok`. -/
def shutdown (a : Agent) (st : St) : Agent :=
  match topRun a.prog (bracket (.enTop .stop) a.prog.onStop (.exTop .stop)) st with
  | (st', .ok) => { a with st := st', phase := .stopped }
  | (st', .err .stop) => { a with st := st', phase := .stopped }
  | (st', .err _) => { a with st := st', phase := .failed }

/-- `exec_handler!` on the results of suspended futures, oldest first, until none is left. -/
def drain : Nat → Agent → Agent
  | 0, a => a
  | n + 1, a =>
    match a.st.susp with
    | [] => a
    | h :: rest =>
      match topRun a.prog (bracket (.enTop .susp) h (.exTop .susp)) { a.st with susp := rest } with
      | (st', .ok) => drain n { a with st := st' }
      | (st', .err .stop) => shutdown a st'
      | (st', .err _) => { a with st := st', phase := .failed }

def drainFuel : Nat := 4096

/-- A `LaneRequest::Command`: `Err(StopInstructed)` stops, `RuntimeError | SteppedAfterComplete` fail the agent, any
other error is logged ("rejected by the item") and the agent carries on. -/
def command (a : Agent) (h : H) : Agent :=
  match topRun a.prog h a.st with
  | (st', .ok) => drain drainFuel { a with st := st' }
  | (st', .err .stop) => shutdown a st'
  | (st', .err .effect) => drain drainFuel { a with st := st' }
  | (st', .err _) => { a with st := st', phase := .failed }

/-- `initialize_agent`: `on_start` (with the `Discard` collector), then the main loop starts. -/
def start (P : Prog) : Agent :=
  match topRun P (bracket (.enTop .start) P.onStart (.exTop .start)) St.init with
  | (st', .ok) => drain drainFuel { prog := P, st := { st' with dirty := [] }, phase := .running }
  | (st', .err _) => { prog := P, st := st', phase := .nostart }

end SwimVerif.Handlers
