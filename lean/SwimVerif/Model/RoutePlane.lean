/-
C18, plane level: `PlaneBuilder::build` with its error report, `PlaneModel::check_meta_collisions`, the acceptance
test of `ServerBuilder::build` (`plane.build()?; if introspection.is_some() { routes.check_meta_collisions()?; }`),
the route table of a running server (`plane.routes.into_iter().collect::<Routes>()`, then `register_introspection`
appends the meta-agent routes in the order read from the source, `Generated/MetaRoutes.lean`) and
`Routes::find_route` on it; line protocol and observable-level monitor of machine `c18p`.

A table `T` is `.` or `hex,hex,...`: the pattern texts in `add_route` order. Ops (stateless):
  build T        -> ok | overlap <hex,..> | badpat                          (`PlaneBuilder::build`)
  meta T         -> ok | overlap .. | coll <meta hex,..> <route hex,..> | badpat   (`build` then `check_meta_collisions`)
  srv I T        -> the same through `ServerBuilder::build` (I = 1: `enable_introspection`)
  find I T U     -> overlap .. | coll .. | badpat | baduri
                    | hit <row> <k=v,..|.> all <row:hex,..|.> of <rows> | none all <..> of <rows>
`all` lists every row of the server's table whose pattern matches the URI (`unapply_route_uri`), with its text.
-/
import SwimVerif.Model.RouteMon
import SwimVerif.Generated.MetaRoutes

namespace SwimVerif.Route

/-! ### the meta-agent patterns (`swimos_introspection::{mesh_pattern, node_pattern, lane_pattern}`) -/

/-- `RoutePattern::parse_str(X_PATTERN).expect(..)`: the three texts are constants and do parse
(`metaMesh_parsed` … in `Proofs/RoutePlaneMeta.lean`), so the `expect` never fires; the default is never used. -/
def patOfText (s : Bytes) : Pat := (parsePattern s).toOption.getD ⟨none, false, []⟩

def metaMesh : Pat := patOfText Generated.meshPatternText
def metaNode : Pat := patOfText Generated.nodePatternText
def metaLane : Pat := patOfText Generated.lanePatternText

/-- The rows `register_introspection` appends (`registration.register(mesh_pattern(), ..)`, …), in source order. -/
def metaRowTexts : List Bytes := Generated.metaRegistered
def metaRows : List Pat := metaRowTexts.map patOfText

/-! ### `PlaneBuilder::build` with its report -/

/-- The `ambiguous: HashSet<usize>` after the double loop `for (i, p) .. for (j, q) in skip(i + 1)`, as a membership
mask over the table: row `i` is in the set iff it is ambiguous with a later row (as left argument) or with an
earlier one (as right argument). -/
def ambMask : List Pat → List Bool
  | [] => []
  | p :: rest => rest.any (areAmbiguous p) :: List.zipWith (fun q m => areAmbiguous p q || m) rest (ambMask rest)

/-- Indices (from `i`) of the `true` entries: `routes.into_iter().enumerate().filter_map(..)`. -/
def maskIdx (i : Nat) : List Bool → List Nat
  | [] => []
  | b :: rest => if b then i :: maskIdx (i + 1) rest else maskIdx (i + 1) rest

/-- `PlaneBuilder::build`: `[]` = `Ok(PlaneModel)`, otherwise the rows of `AmbiguousRoutes::Overlapping`. -/
def buildBad (ps : List Pat) : List Nat := maskIdx 0 (ambMask ps)

/-! ### `PlaneModel::check_meta_collisions` -/

structure MetaAcc where
  meshCollision : Bool := false
  nodeCollision : Bool := false
  laneCollision : Bool := false
  routes : List Nat := []
  deriving Repr, DecidableEq

/-- The `for (pattern, _) in &self.routes` loop; `i` = index of the row. -/
def metaLoop (a : MetaAcc) (i : Nat) : List Pat → MetaAcc
  | [] => a
  | p :: rest =>
    let withMesh := areAmbiguous metaMesh p
    let withNode := areAmbiguous metaNode p
    let withLane := areAmbiguous metaLane p
    metaLoop
      { meshCollision := a.meshCollision || withMesh
        nodeCollision := a.nodeCollision || withNode
        laneCollision := a.laneCollision || withLane
        routes := if withMesh || withNode || withLane then a.routes ++ [i] else a.routes }
      (i + 1) rest

/-- `none` = `Ok(())`; `some (meta, routes)` = `AmbiguousRoutes::MetaCollision` (meta: mesh? node? lane?; the mesh
pattern is checked since `fix:` F12d). -/
def checkMeta (ps : List Pat) : Option (List Bytes × List Nat) :=
  let a := metaLoop {} 0 ps
  if a.routes.isEmpty then none
  else
    some ((if a.meshCollision then [Generated.meshPatternText] else []) ++
          (if a.nodeCollision then [Generated.nodePatternText] else []) ++
          (if a.laneCollision then [Generated.lanePatternText] else []), a.routes)

/-- `ServerBuilder::build` as far as the routes are concerned. -/
def acceptPlane (intro : Bool) (ps : List Pat) : Bool :=
  (buildBad ps).isEmpty && (!intro || (checkMeta ps).isNone)

/-- The route table of the running server. -/
def serverRows (intro : Bool) (ps : List Pat) : List Pat := if intro then ps ++ metaRows else ps

/-- Rows of a table that match `(scheme, path)`, with their index (from `i`). -/
def matchingRows (i : Nat) (sch : Option Bytes) (path : Bytes) : List Pat → List Nat
  | [] => []
  | p :: rest =>
    if (p.unapplyUri sch path).isSome then i :: matchingRows (i + 1) sch path rest
    else matchingRows (i + 1) sch path rest

/-! ### line protocol -/

def tableArg (s : String) : Option (List Bytes) :=
  if s == "." then some [] else (s.splitOn ",").mapM strArg

/-- `texts.iter().map(RoutePattern::parse_str)`: `none` if one of them is rejected. -/
def parseTable : List Bytes → Option (List Pat)
  | [] => some []
  | s :: rest =>
    match parsePattern s, parseTable rest with
    | .ok p, some ps => some (p :: ps)
    | _, _ => none

def renderRows (texts : List Bytes) (idx : List Nat) : String :=
  renderList (idx.map fun i => texts.getD i [])

/-- The verdict of `build` (+ `check_meta_collisions` when `intro`): `none` = accepted. -/
def verdictLine (intro : Bool) (texts : List Bytes) (ps : List Pat) : Option String :=
  if !(buildBad ps).isEmpty then some ("overlap " ++ renderRows texts (buildBad ps))
  else if intro then
    match checkMeta ps with
    | some (ms, rs) => some ("coll " ++ renderList ms ++ " " ++ renderRows texts rs)
    | none => none
  else none

def flagArg (s : String) : Option Bool := if s == "1" then some true else if s == "0" then some false else none

def renderAll (texts : List Bytes) (idx : List Nat) : String :=
  if idx.isEmpty then "." else
  ",".intercalate (idx.map fun i => toString i ++ ":" ++ hexOfBytes (texts.getD i []))

def findLine (intro : Bool) (texts : List Bytes) (ps : List Pat) (u : Bytes) : String :=
  match verdictLine intro texts ps with
  | some v => v
  | none =>
    match parseUri u with
    | none => "baduri"
    | some uri =>
      let rows := serverRows intro ps
      let rowTexts := if intro then texts ++ metaRowTexts else texts
      let all := renderAll rowTexts (matchingRows 0 uri.scheme uri.path rows)
      match findRoute rows uri.scheme uri.path with
      | some (i, kv) => s!"hit {i} {renderKV kv} all {all} of {rows.length}"
      | none => s!"none all {all} of {rows.length}"

def planeLine (line : String) : String :=
  match words line with
  | ["build", t] => match tableArg t with
    | some texts => match parseTable texts with
      | some ps => (verdictLine false texts ps).getD "ok"
      | none => "badpat"
    | none => "bad-op"
  | ["meta", t] => match tableArg t with
    | some texts => match parseTable texts with
      | some ps => (verdictLine true texts ps).getD "ok"
      | none => "badpat"
    | none => "bad-op"
  | ["srv", i, t] => match flagArg i, tableArg t with
    | some intro, some texts => match parseTable texts with
      | some ps => (verdictLine intro texts ps).getD "ok"
      | none => "badpat"
    | _, _ => "bad-op"
  | ["find", i, t, u] => match flagArg i, tableArg t, strArg u with
    | some intro, some texts, some ub => match parseTable texts with
      | some ps => findLine intro texts ps ub
      | none => "badpat"
    | _, _, _ => "bad-op"
  | _ => "bad-op"

/-! ### Monitor (implementation trace alone)

A server that accepted its routes resolves every URI to at most one agent definition: in every `find` answer of an
accepted plane `all` has at most one row, and the row `find_route` returns is that row. The verdicts on one table
agree (`build` = `srv 0`, `meta` = `srv 1`, `find` refuses exactly what they refuse; introspection only adds
`coll`). -/

structure PlaneMon where
  verdicts : List (String × String) := []     -- ("<I> <T>", verdict) seen in this case
  deriving Repr

/-- `i:hex` entries of `all`. -/
def allRows (s : String) : Option (List Nat) :=
  if s == "." then some [] else
  (s.splitOn ",").mapM fun e => match e.splitOn ":" with
    | [i, _] => i.toNat?
    | _ => none

def tableLen (t : String) : Nat := if t == "." then 0 else (t.splitOn ",").length

def tableMembers (t : String) (xs : String) : Bool :=
  xs != "." && (xs.splitOn ",").all fun x => (t.splitOn ",").contains x

/-- Shape of a refusal: `overlap` names at least two rows of the table, `coll` at least one row and one meta
route. `none` = fine. -/
def reportProblem (t : String) (ow : List String) : Option String :=
  match ow with
  | ["overlap", rs] => if tableMembers t rs && 2 ≤ (rs.splitOn ",").length then none else some "plane-bad-report"
  | ["coll", ms, rs] => if tableMembers t rs && ms != "." then none else some "plane-bad-report"
  | _ => some "unexpected-result"

/-- The verdict part of an answer: `ok` for an accepted plane. -/
def verdictOf (ow : List String) : String :=
  match ow with
  | "overlap" :: _ => " ".intercalate ow
  | "coll" :: _ => " ".intercalate ow
  | _ => "ok"

/-- Consistency of the verdict for `(intro, T)` with what was seen in this case. -/
def verdictProblem (m : PlaneMon) (intro : Bool) (t : String) (v : String) : Option String :=
  let same := m.verdicts.lookup (boolBit intro ++ " " ++ t)
  let other := m.verdicts.lookup (boolBit (!intro) ++ " " ++ t)
  let isOverlap := fun (s : String) => s.startsWith "overlap"
  let isColl := fun (s : String) => s.startsWith "coll"
  match same with
  | some v0 => if v0 == v then none else some "plane-verdict-differs"
  | none =>
    match other with
    | none => none
    | some w =>
      -- `overlap` does not depend on introspection; `coll` only exists with it
      if isOverlap v || isOverlap w then (if v == w then none else some "plane-verdict-differs")
      else if intro then (if isColl w then some "plane-verdict-differs" else none)
      else if isColl v then some "plane-verdict-differs" else none

def PlaneMon.note (m : PlaneMon) (intro : Bool) (t : String) (v : String) : PlaneMon :=
  { m with verdicts := (boolBit intro ++ " " ++ t, v) :: m.verdicts }

def verdictStep (m : PlaneMon) (intro : Bool) (t : String) (out : String) : PlaneMon × Option String :=
  let ow := words out
  if out == "badpat" then (m, none)
  else if out == "ok" then (m.note intro t "ok", verdictProblem m intro t "ok")
  else
    match reportProblem t ow with
    | some r => (m, some r)
    | none =>
      if !intro && ow.head? == some "coll" then (m, some "plane-meta-check-without-introspection")
      else (m.note intro t (verdictOf ow), verdictProblem m intro t (verdictOf ow))

/-- More than one matching row in an accepted plane: which kind of rows (`n` = number of user routes). -/
def overlapReason (n : Nat) (rows : List Nat) : String :=
  match rows with
  | a :: b :: _ =>
    if a < n && b < n then "plane-user-routes-overlap"
    else if a < n || b < n then "plane-user-meta-overlap"
    else "plane-meta-routes-overlap"
  | _ => "plane-user-routes-overlap"

def findAnswer (m : PlaneMon) (intro : Bool) (t : String) (hit : Option (Nat × String)) (all : String)
    (total : String) : PlaneMon × Option String :=
  let m1 := m.note intro t "ok"
  match allRows all, total.toNat? with
  | some rows, some _ =>
    if (verdictProblem m intro t "ok").isSome then (m1, verdictProblem m intro t "ok")
    else if 2 ≤ rows.length then (m1, some (overlapReason (tableLen t) rows))
    else
      match hit, rows with
      | none, [] => (m1, none)
      | some (i, kv), [r] =>
        if i != r then (m1, some "plane-find-not-the-match")
        else if anyEmptyValue kv then (m1, some "param-bound-empty")
        else (m1, none)
      | _, _ => (m1, some "plane-find-not-the-match")
  | _, _ => (m, some "unexpected-result")

def PlaneMon.step (m : PlaneMon) (line : String) (out : String) : PlaneMon × Option String :=
  let ow := words out
  match words line with
  | ["build", t] => verdictStep m false t out
  | ["meta", t] => verdictStep m true t out
  | ["srv", i, t] =>
    match flagArg i with
    | some intro => verdictStep m intro t out
    | none => (m, some "unparsable")
  | ["find", i, t, _] =>
    match flagArg i with
    | none => (m, some "unparsable")
    | some intro =>
      if out == "baduri" then (m, none) else
      match ow with
      | ["hit", i, kv, "all", all, "of", total] =>
        match i.toNat? with
        | some row => findAnswer m intro t (some (row, kv)) all total
        | none => (m, some "unexpected-result")
      | ["none", "all", all, "of", total] => findAnswer m intro t none all total
      | _ => verdictStep m intro t out
  | _ => (m, some "unparsable")

end SwimVerif.Route
