/-
Model of `swimos_byte_channel` (C12): `channel/mod.rs::Conduit` with both halves, and the thread-local
task budget of `coop/mod.rs` composed in front of every poll (the `coop` feature is on by default).

Every poll runs under the channel mutex, so each is one atomic `step`.  A poll reports its result and
which of the two tasks' wakers fired during it.  Ghost fields (`written`, `readout`, `waitR`, `waitW`)
do not influence behaviour; they carry the history the theorems talk about.
-/
import SwimVerif.Model.Util
import SwimVerif.Generated.CoopConsts

namespace SwimVerif.Conduit

inductive Side | R | W
  deriving DecidableEq, Repr

structure St where
  data : List Nat          -- `Conduit.data`, oldest first
  cap : Nat                -- `Conduit.capacity`
  waker : Option Side      -- `Conduit.waker` (whose waker is stored)
  closed : Bool            -- `Conduit.closed`
  budget : Option Nat      -- thread-local `TASK_BUDGET`
  rAlive : Bool            -- reader handle not yet dropped
  wAlive : Bool            -- writer handle not yet dropped
  -- ghost
  written : List Nat       -- every byte accepted by `poll_write`, in order
  readout : List Nat       -- every byte returned by `poll_read`, in order
  waitR : Bool             -- reader's last poll was `Pending` from the conduit and it was not woken since
  waitW : Bool             -- same for the writer
  deriving Repr

def init (cap : Nat) : St :=
  { data := [], cap := cap, waker := none, closed := false, budget := none,
    rAlive := true, wAlive := true, written := [], readout := [], waitR := false, waitW := false }

inductive Op
  | read (k : Nat)             -- `poll_read` into a buffer with `k` bytes remaining
  | write (bs : List Nat)      -- `poll_write`
  | flush
  | shutdown
  | dropR
  | dropW
  | setBudget (n : Nat)        -- `RunWithBudget::with_budget(n, ..)` polled once (n ≥ 1)
  deriving Repr

inductive Res
  | bytes (bs : List Nat)      -- `Ready(Ok(()))` having filled `bs`
  | count (n : Nat)            -- `Ready(Ok(n))`
  | unit                       -- `Ready(Ok(()))` / drop / budget op
  | pending
  | err                        -- `Ready(Err(BrokenPipe))`
  | na                         -- op on a dropped handle (never generated)
  deriving Repr, DecidableEq

structure Out where
  res : Res
  wokeR : Bool
  wokeW : Bool
  deriving Repr, DecidableEq

def usizeMax : Nat := 18446744073709551615

/-- `Conduit::wake`: take the stored waker and fire it. -/
def wake (s : St) : St × Bool × Bool :=
  match s.waker with
  | none => (s, false, false)
  | some .R => ({ s with waker := none, waitR := false }, true, false)
  | some .W => ({ s with waker := none, waitW := false }, false, true)

/-- `coop::consume_budget` on the budget cell; `true` = `Ready`, `false` = `Pending` (after a self-wake). -/
def budgetStep : Option Nat → Option Nat × Bool
  | some b => if b - 1 = 0 then (none, false) else (some (b - 1), true)
  | none => (some Generated.defaultStartBudget, true)

def consumeBudget (s : St) : St := { s with budget := (budgetStep s.budget).1 }

/-- `coop::track_progress` on a `Pending` result. -/
def trackBudget : Option Nat → Option Nat
  | some b => some (min (b + 1) usizeMax)
  | none => none

def trackPending (s : St) : St := { s with budget := trackBudget s.budget }

def selfWake (side : Side) (res : Res) : Out :=
  match side with
  | .R => ⟨res, true, false⟩
  | .W => ⟨res, false, true⟩

def wakeOut (s : St) (res : Res) : St × Out := ((wake s).1, ⟨res, (wake s).2.1, (wake s).2.2⟩)

def pollRead (s0 : St) (k : Nat) : St × Out :=
  let s := consumeBudget { s0 with waitR := false }
  if (budgetStep s0.budget).2 = false then (s, selfWake .R .pending) else
  if s.data = [] then
    if s.closed then (s, ⟨.bytes [], false, false⟩)
    else (trackPending { s with waker := some .R, waitR := true }, ⟨.pending, false, false⟩)
  else if 0 < min s.data.length k then
    wakeOut { s with data := s.data.drop (min s.data.length k),
                     readout := s.readout ++ s.data.take (min s.data.length k) }
      (.bytes (s.data.take (min s.data.length k)))
  else (s, ⟨.bytes [], false, false⟩)

def pollWrite (s0 : St) (bs : List Nat) : St × Out :=
  let s := consumeBudget { s0 with waitW := false }
  if (budgetStep s0.budget).2 = false then (s, selfWake .W .pending) else
  if s.closed then (s, ⟨.err, false, false⟩)
  else if bs = [] then (s, ⟨.count 0, false, false⟩)
  else if s.cap - s.data.length = 0 then
    (trackPending { s with waker := some .W, waitW := true }, ⟨.pending, false, false⟩)
  else
    wakeOut { s with data := s.data ++ bs.take (min bs.length (s.cap - s.data.length)),
                     written := s.written ++ bs.take (min bs.length (s.cap - s.data.length)) }
      (.count (min bs.length (s.cap - s.data.length)))

def pollFlush (s0 : St) : St × Out :=
  let s := consumeBudget { s0 with waitW := false }
  if (budgetStep s0.budget).2 = false then (s, selfWake .W .pending) else (s, ⟨.unit, false, false⟩)

/-- `Conduit::close_channel` -/
def closeOut (s : St) (res : Res) : St × Out := wakeOut { s with closed := true } res

def pollShutdown (s0 : St) : St × Out :=
  let s := consumeBudget { s0 with waitW := false }
  if (budgetStep s0.budget).2 = false then (s, selfWake .W .pending) else closeOut s .unit

def naOut : Out := ⟨.na, false, false⟩

def step (s : St) : Op → St × Out
  | .read k => if s.rAlive then pollRead s k else (s, naOut)
  | .write bs => if s.wAlive then pollWrite s bs else (s, naOut)
  | .flush => if s.wAlive then pollFlush s else (s, naOut)
  | .shutdown => if s.wAlive then pollShutdown s else (s, naOut)
  | .dropR => if s.rAlive then closeOut { s with rAlive := false, waitR := false } .unit else (s, naOut)
  | .dropW => if s.wAlive then closeOut { s with wAlive := false, waitW := false } .unit else (s, naOut)
  | .setBudget n => ({ s with budget := some n }, ⟨.unit, false, false⟩)

def run (s : St) (ops : List Op) : St := ops.foldl (fun s op => (step s op).1) s

/-! ### Line protocol -/

def parseOp (line : String) : Option Op :=
  match words line with
  | ["read", k] => k.toNat?.map .read
  | ["write", h] => (bytesOfHex h).map .write
  | ["flush"] => some .flush
  | ["shutdown"] => some .shutdown
  | ["dropr"] => some .dropR
  | ["dropw"] => some .dropW
  | ["budget", n] => n.toNat?.map .setBudget
  | _ => none

def Res.render : Res → String
  | .bytes bs => s!"bytes {hexOfBytes bs}"
  | .count n => s!"count {n}"
  | .unit => "unit"
  | .pending => "pending"
  | .err => "err"
  | .na => "na"

def Out.render (o : Out) : String := s!"{o.res.render} wr={boolBit o.wokeR} ww={boolBit o.wokeW}"

end SwimVerif.Conduit
