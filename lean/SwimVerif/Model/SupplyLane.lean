/-
Agent side of a supply lane (C14): `SupplyLane` / `SupplyLaneInner` (`server/swimos_agent/src/lanes/supply/mod.rs`).

* `push` — `event_queue.push_back(event)`;
* `sync` — `sync_queue.push_back(id)`;
* `write_to_buffer` — ONE frame per call: the oldest sync request is answered with a bare `synced` (a supply lane has
  no state: no value accompanies it), otherwise the oldest queued item is written as an event, otherwise nothing;
  the result is `DataStillAvailable` while either queue is non-empty afterwards, else `Done` (never `NoData`).

The model is generic in the item type (`α`); the line protocol instantiates it with numbers, the composition with the
runtime's uplink model (`Proofs/SupplyCompose.lean`) with byte strings.
-/
import SwimVerif.Model.Util

namespace SwimVerif.Sup

inductive Frame (α : Type)
  | synced (r : Nat)
  | event (a : α)
  deriving DecidableEq, Repr

inductive WriteResult | done | dataStillAvailable
  deriving DecidableEq, Repr

/-- `SupplyLaneInner` -/
structure Lane (α : Type) where
  syncQ : List Nat := []      -- `sync_queue`
  eventQ : List α := []       -- `event_queue`
  deriving Repr

/-- `SupplyLane::push` -/
def Lane.push {α} (l : Lane α) (a : α) : Lane α := { l with eventQ := l.eventQ ++ [a] }

/-- `SupplyLane::sync` -/
def Lane.sync {α} (l : Lane α) (r : Nat) : Lane α := { l with syncQ := l.syncQ ++ [r] }

/-- the `if !event_queue.is_empty() || !sync_queue.is_empty()` at the end of `write_to_buffer` -/
def Lane.result {α} (l : Lane α) : WriteResult :=
  if !l.eventQ.isEmpty || !l.syncQ.isEmpty then .dataStillAvailable else .done

/-- `LaneItem::write_to_buffer` -/
def Lane.write {α} (l : Lane α) : Lane α × Option (Frame α) × WriteResult :=
  match l.syncQ with
  | r :: rest =>
    let l' : Lane α := { l with syncQ := rest }
    (l', some (.synced r), l'.result)
  | [] =>
    match l.eventQ with
    | a :: rest =>
      let l' : Lane α := { l with eventQ := rest }
      (l', some (.event a), l'.result)
    | [] => (l, none, l.result)

/-! ### The lane with ghost histories, as an op machine -/

inductive Op (α : Type)
  | push (a : α)
  | sync (r : Nat)
  | write
  deriving Repr

structure St (α : Type) where
  lane : Lane α := {}
  -- ghost
  pushed : List α := []          -- every item pushed, in order
  requested : List Nat := []     -- every sync request, in order
  written : List (Frame α) := [] -- every frame written, in order
  lastResult : Option WriteResult := none
  deriving Repr

def step {α} (s : St α) : Op α → St α
  | .push a => { s with lane := s.lane.push a, pushed := s.pushed ++ [a] }
  | .sync r => { s with lane := s.lane.sync r, requested := s.requested ++ [r] }
  | .write =>
    let x := s.lane.write
    { s with lane := x.1, written := s.written ++ x.2.1.toList, lastResult := some x.2.2 }

def run {α} (s : St α) (ops : List (Op α)) : St α := ops.foldl step s

/-- event items among frames -/
def events {α} : List (Frame α) → List α
  | [] => []
  | .event a :: rest => a :: events rest
  | .synced _ :: rest => events rest

/-- sync answers among frames -/
def synceds {α} : List (Frame α) → List Nat
  | [] => []
  | .event _ :: rest => synceds rest
  | .synced r :: rest => r :: synceds rest

/-! ### Line protocol: `new` | `push <n>` | `sync <r>` | `write`; output of `write` = `<done|more> <frame|->` -/

def Frame.render : Frame Nat → String
  | .event v => s!"ev:{v}"
  | .synced r => s!"synced:{r}"

def WriteResult.render : WriteResult → String
  | .done => "done" | .dataStillAvailable => "more"

def stepLine (s : St Nat) (line : String) : St Nat × String :=
  match words line with
  | ["new"] => ({}, "ok")
  | ["push", v] => match v.toNat? with
    | some v => (step s (.push v), "ok")
    | none => (s, "bad-op")
  | ["sync", r] => match r.toNat? with
    | some r => (step s (.sync r), "ok")
    | none => (s, "bad-op")
  | ["write"] =>
    let x := s.lane.write
    (step s .write, s!"{x.2.2.render} {(x.2.1.map Frame.render).getD "-"}")
  | _ => (s, "bad-op")

/-- Observable-level monitor. It keeps what the lane owes (sync requests and items, oldest first) and decides on the
trace alone: a write emits exactly one frame when something is owed — the oldest sync request as a bare `synced`
first, else the OLDEST item — and nothing otherwise; the result says `more` exactly when something is still owed. So
every item pushed is written exactly once, in push order, and none is merged, dropped or duplicated. -/
structure Mon where
  owedSync : List Nat := []
  owedItems : List Nat := []
  deriving Repr

def Mon.step (m : Mon) (line : String) (out : String) : Mon × Option String :=
  match words line with
  | ["new"] => ({}, none)
  | ["push", v] => match v.toNat? with
    | some v => ({ m with owedItems := m.owedItems ++ [v] }, none)
    | none => (m, some "unparsable")
  | ["sync", r] => match r.toNat? with
    | some r => ({ m with owedSync := m.owedSync ++ [r] }, none)
    | none => (m, some "unparsable")
  | ["write"] =>
    match words out with
    | [res, f] =>
      let after (m' : Mon) : Mon × Option String :=
        let more := !m'.owedItems.isEmpty || !m'.owedSync.isEmpty
        if more && res ≠ "more" then (m', some "supply-write-result-strands-queued-items")
        else if !more && res ≠ "done" then (m', some "supply-write-result-wrong")
        else (m', none)
      match m.owedSync with
      | r :: rest =>
        if f = s!"synced:{r}" then after { m with owedSync := rest }
        else (m, some "supply-sync-answer-wrong")
      | [] =>
        match m.owedItems with
        | a :: rest =>
          if f = s!"ev:{a}" then after { m with owedItems := rest }
          else if f = "-" then (m, some "supply-item-not-written")
          else (m, some "supply-item-dropped-duplicated-or-reordered")
        | [] => if f = "-" then after m else (m, some "supply-frame-from-nothing")
    | _ => (m, some "unparsable")
  | _ => (m, some "unparsable")

end SwimVerif.Sup
