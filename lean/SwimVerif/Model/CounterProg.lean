/-
The statement language the C20 translator (`tools/extractors/c20.py`) emits for `saturating_add` and `snapshot_value`
of `runtime/swimos_runtime/src/agent/reporting/mod.rs`, with its semantics over the atomic steps of
`Model/Counters.lean`.  `compare_exchange_weak` may fail spuriously: the failures are an oracle (`List Bool`).
The run is without interference from other threads (the interleavings are the subject of
`C20_counter_interleaving_conserved`, over exactly the steps this program is shown to perform).
-/
import SwimVerif.Model.Counters

namespace SwimVerif.CounterProg
open SwimVerif.Ctr

inductive KCond
  | casWeakZeroOk      -- `n.compare_exchange_weak(count, 0, Relaxed, Relaxed).is_ok()`   (one atomic access)
  deriving Repr, DecidableEq

inductive KStmt
  | skip
  | seq (a b : KStmt)
  | ite (c : KCond) (t e : KStmt)
  | loop (b : KStmt)
  | loadCount          -- `let count = n.load(Relaxed)`                                    (one atomic access)
  | breakCount         -- `break count`
  | fetchUpdateSatAdd  -- `n.fetch_update(Relaxed, Relaxed, |n| Some(n.saturating_add(m)))` (one atomic read-modify-write)
  deriving Repr

structure KM where
  s : St
  oracle : List Bool := []     -- spurious failures of the successive `compare_exchange_weak` calls
  m : Nat := 0                 -- the argument of `saturating_add`
  count : Nat := 0
  ret : Option Nat := none
  trace : List Ev := []

def loopN : Nat → (KM → KM) → KM → KM
  | 0, _, x => x
  | n + 1, f, x => let x' := f x; if x'.ret.isSome then x' else loopN n f x'

def execK (fuel : Nat) : KStmt → KM → KM
  | .skip, x => x
  | .seq a b, x => let x' := execK fuel a x; if x'.ret.isSome then x' else execK fuel b x'
  | .ite .casWeakZeroOk t e, x =>
      let sp := x.oracle.headD false
      let ok := decide (x.s.loaded = some x.s.n ∧ sp = false)
      let x' := { x with s := step x.s (.cas sp), oracle := x.oracle.tail, trace := x.trace ++ [.cas sp] }
      if ok then execK fuel t x' else execK fuel e x'
  | .loop b, x => loopN fuel (fun y => execK fuel b y) x
  | .loadCount, x => { x with count := x.s.n, s := step x.s .load, trace := x.trace ++ [.load] }
  | .breakCount, x => { x with ret := some x.count }
  | .fetchUpdateSatAdd, x => { x with s := step x.s (.add x.m), trace := x.trace ++ [.add x.m] }

end SwimVerif.CounterProg
