/-
C09, the incremental path: `RecognizerDecoder::{decode, decode_eof}` (`recon_parser/async_parser/mod.rs`) and
`WithLenRecognizerDecoder` (`encoding.rs`) over the pushdown automaton `IncrementalReconParser`.

The streaming / complete nom tokens, the automaton states, `FinalSegmentParser` and `ValueMaterializer` are those
transcribed for C15 in `Model/ReconEq.lean` (`lexPrimM`, `stepAfterAttr`, `stepNotAfterItem`, …, `finalStep`, `MSt`);
only `parse_init` is taken here as the code now has it (streaming tokens at the top level, commit bed382e) — `istep`.

Granularity = what the chunks engine observes: a buffer goes in, a value / "need more" / an error comes out, and the
decoder says how much of the buffer it consumed.
* `decodeInner` — the loop of `decode_inner` on the available text;
* `Raw.decode`, `Raw.decodeEof` — the tokio `Decoder` methods of `RecognizerDecoder` on character buffers
  (`decodeB` / `decodeEofB`: on byte buffers, through `read_utf8`: longest valid prefix, an incomplete tail stays);
* `WL` — `WithLenRecognizerDecoder` with `consume_bounded` (bytes);
* `parseOne` — the one-shot `parse_recognize::<Value>` as `ParseIterator` drives the same automaton.
-/
import SwimVerif.Model.ReconEq

namespace SwimVerif.ReconInc
open SwimVerif.Recon
open SwimVerif.ReconEq

/-! ## the automaton as the code has it now -/

/-- `parse_init` (input after `multispace0`, non-empty): streaming tokens. -/
def stepInitS (below : List PS) (inp : List Char) : Step :=
  match lexPrimM true inp with
  | .ok e rest => .ok [e] false [] rest
  | .inc => .inc
  | .err =>
    match attrStep false .init below inp with
    | .err =>
      (match inp with
       | '{' :: rest => .ok [.startBody] false (.body .rb .startOrNl :: below) rest
       | _ => .err)
    | r => r

/-- `<IncrementalReconParser as Parser>::parse`. -/
def istep (stack : List PS) (inp : List Char) : Step :=
  match stack with
  | [] => .fin
  | top :: below =>
    match skipSpaces inp with
    | [] => .inc                      -- streaming `space0`
    | x :: i1 =>
      match top with
      | .init =>
        (match skipMulti (x :: i1) with
         | [] => .inc
         | y :: i2 => stepInitS below (y :: i2))
      | .afterAttr => stepAfterAttr below (x :: i1)
      | .body k .startOrNl =>
        (match skipMulti (x :: i1) with
         | [] => .inc
         | y :: i2 => stepNotAfterItem k false top below (y :: i2))
      | .body k .afterSep =>
        (match skipMulti (x :: i1) with
         | [] => .inc
         | y :: i2 => stepNotAfterItem k true top below (y :: i2))
      | .body k .afterValue => stepAfterItem k true below (x :: i1)
      | .body k .afterSlot => stepAfterItem k false below (x :: i1)
      | .body k .slot => stepSlotValue k top below (x :: i1)

/-! ## one-shot: `ParseIterator` + `parse_recognize_with` -/

/-- Feed the events of one parser call to the recognizer; `some r` = it answered (`some v` a value, `none` an error). -/
def feedAll : MSt → List Event → MSt × Option (Option Value)
  | m, [] => (m, none)
  | m, e :: es =>
    match m.feed e with
    | (m', none) => feedAll m' es
    | r => r

/-- Outcome of a decoder call: a value, "need more input" (`Ok(None)`), an error, a panic. -/
inductive Out where
  | value (v : Value)
  | none
  | err
  | panic
  /-- the model ran out of fuel (an artefact of the model, never observed) -/
  | fuel
  deriving DecidableEq

/-- Progress measure of the automaton: every successful call consumes input or pops a frame (a call that pushes
frames consumes at least as many characters). -/
def mu (stack : List PS) (cur : List Char) : Nat := 3 * cur.length + stack.length

/-- `parse_recognize_with` over `ParseIterator`: at `Incomplete` the final-segment parser takes over (only from the
stacks `[Init]` / `[AfterAttr]`, otherwise a syntax error); when the iterator ends, `try_flush`.
(`fuel` = a call that made no progress: the loop would not terminate; never observed.) -/
def oneFrom (stack : List PS) (m : MSt) (inp : List Char) : Out :=
  match istep stack inp with
  | .fin => (match m.flush with | some v => .value v | none => .err)
  | .ok evs _ stack' rest =>
    if mu stack' rest < mu stack inp then
      (match feedAll m evs with
       | (m', none) => oneFrom stack' m' rest
       | (_, some (some v)) => .value v
       | (_, some none) => .err)
    else .fuel
  | .inc =>
    (match finalStep stack inp with
     | .ok evs _ _ _ =>
       (match feedAll m evs with
        | (m', none) => (match m'.flush with | some v => .value v | none => .err)
        | (_, some (some v)) => .value v
        | (_, some none) => .err)
     | .panic => .panic
     | _ => .err)
  | .err => .err
  | .panic => .panic
termination_by mu stack inp

/-- `parse_recognize::<Value>(text, false)`. -/
def parseOne (inp : List Char) : Out := oneFrom [.init] {} inp

/-! ## `RecognizerDecoder` -/

/-- `decode_inner` on the available text: parser stack, recognizer, what is left unconsumed, outcome. -/
def decodeInner (stack : List PS) (m : MSt) (cur : List Char) : List PS × MSt × List Char × Out :=
  match istep stack cur with
  | .ok evs _ stack' rest =>
    if mu stack' rest < mu stack cur then
      (match feedAll m evs with
       | (m', none) => decodeInner stack' m' rest
       | (m', some (some v)) => (stack', m', rest, .value v)
       | (m', some none) => (stack', m', rest, .err))
    else (stack, m, cur, .fuel)
  | .fin => (match m.flush with | some v => (stack, m, cur, .value v) | none => (stack, m, cur, .err))
  | .inc => (stack, m, cur, .none)
  | .err => (stack, m, cur, .err)
  | .panic => (stack, m, cur, .panic)
termination_by mu stack cur

/-- The decoder between calls: parser stack and recognizer (the `LocationTracker` only serves error messages). -/
structure Raw where
  stack : List PS := [.init]
  m : MSt := {}

/-- The decoder after a `decode` call that ended in an error: `if !matches!(result, Ok(None)) { self.reset() }` — fresh.
(Read from the source: with the condition `matches!(result, Ok(Some(_)))` the state in which the error struck would
survive into the next document.) -/
def Raw.afterErr (st : List PS) (m : MSt) : Raw :=
  if SwimVerif.Generated.Recon.decodeResetsOnError then {} else { stack := st, m := m }

/-- `decode` on the text available in the buffer: new decoder, what stays in the buffer, outcome.  Anything but
"need more" resets the decoder; an error leaves the buffer as it was. -/
def Raw.decode (d : Raw) (avail : List Char) : Raw × List Char × Out :=
  match decodeInner d.stack d.m avail with
  | (st, m, rest, .none) => ({ stack := st, m := m }, rest, .none)
  | (_, _, rest, .value v) => ({}, rest, .value v)
  | (st, m, _, o) => (Raw.afterErr st m, avail, o)

/-- `final_parser()`: only a parser whose whole stack is `[Init]` or `[AfterAttr]` has a final-segment parser. -/
def hasFinal (stack : List PS) : Bool :=
  match stack with
  | [.init] => true
  | [.afterAttr] => true
  | _ => false

/-- `decode_eof` on the text available in the buffer (`bufEmpty` = the byte buffer was empty). -/
def Raw.decodeEof (d : Raw) (avail : List Char) (bufEmpty : Bool) : List Char × Out :=
  match decodeInner d.stack d.m avail with
  | (_, _, rest, .value v) => (rest, .value v)
  | (st, m, rem, .none) =>
    -- `final_parser_and_reset` + `feed_final`
    let fin : MSt × List Char × Option Out :=
      if hasFinal st then
        (match finalStep st rem with
         | .ok evs allMore _ rem2 =>
           (match feedAll m evs with
            | (m', some (some v)) => (m', rem2, some (.value v))
            | (m', some none) => (m', avail, some .err)
            | (m', none) =>
              if allMore then
                -- `TerminateWithAttr` ends with `ParseEvents::End`: `try_flush` inside `feed_final`
                (match m'.flush with
                 | some v => (m', rem2, some (.value v))
                 | none => (m', avail, some .err))
              else (m', rem2, none))
         | .inc => (m, rem, none)
         | .panic => (m, avail, some .panic)
         | _ => (m, avail, some .err))
      else (m, avail, none)
    (match fin with
     | (_, r, some o) => (r, o)
     | (m', r, none) =>
       (match m'.flush with
        | some v => (r, .value v)
        | none => if bufEmpty then (r, .none) else (r, .err)))
  | (_, _, _, o) => (avail, o)

/-- The bare decoder driven as `FramedRead` does at character granularity: `decode` after every chunk, `decode_eof`
at the end of the input.  First result. -/
def rawRun : Raw → List Char → List (List Char) → Out
  | d, buf, [] => (d.decodeEof buf buf.isEmpty).2
  | d, buf, c :: cs =>
    match d.decode (buf ++ c) with
    | (d', rest, .none) => rawRun d' rest cs
    | (_, _, o) => o

/-! ## bytes: `read_utf8` -/

def utf8Len (c : Char) : Nat :=
  if c.toNat < 0x80 then 1 else if c.toNat < 0x800 then 2 else if c.toNat < 0x10000 then 3 else 4

def utf8LenL (cs : List Char) : Nat := (cs.map utf8Len).sum

/-- Is `t` (non-empty, at most 3 bytes) the beginning of a UTF-8 sequence that is merely cut short
(`Utf8Error::error_len() == None`)? -/
def incompleteTail (t : List Nat) : Bool :=
  match t with
  | [a] => 0xC2 ≤ a && a ≤ 0xF4
  | [a, b] =>
    (0xE0 ≤ a && a ≤ 0xF4) &&
    (if a = 0xE0 then 0xA0 ≤ b && b ≤ 0xBF
     else if a = 0xED then 0x80 ≤ b && b ≤ 0x9F
     else if a = 0xF0 then 0x90 ≤ b && b ≤ 0xBF
     else if a = 0xF4 then 0x80 ≤ b && b ≤ 0x8F
     else 0x80 ≤ b && b ≤ 0xBF)
  | [a, b, c] =>
    (0xF0 ≤ a && a ≤ 0xF4) &&
    (if a = 0xF0 then 0x90 ≤ b && b ≤ 0xBF
     else if a = 0xF4 then 0x80 ≤ b && b ≤ 0x8F
     else 0x80 ≤ b && b ≤ 0xBF) && (0x80 ≤ c && c ≤ 0xBF)
  | _ => false

/-- `read_utf8`: the text of the longest valid prefix when the rest is only an incomplete sequence; `none` = `BadUtf8`. -/
def utf8Drop (bs : List Nat) (k : Nat) : Option (List Char) :=
  if k ≤ bs.length ∧ incompleteTail (bs.drop (bs.length - k)) then charsOfBytes (bs.take (bs.length - k)) else none

def readUtf8 (bs : List Nat) : Option (List Char) :=
  match charsOfBytes bs with
  | some cs => some cs
  | none =>
    match utf8Drop bs 1 with
    | some cs => some cs
    | none =>
      match utf8Drop bs 2 with
      | some cs => some cs
      | none => utf8Drop bs 3

/-- `decode` on a byte buffer: decoder, remaining buffer, outcome. -/
def Raw.decodeB (d : Raw) (buf : List Nat) : Raw × List Nat × Out :=
  match readUtf8 buf with
  | none => ({}, buf, .err)
  | some avail =>
    match d.decode avail with
    | (d', rest, o) => (d', buf.drop (utf8LenL avail - utf8LenL rest), o)

/-- `decode_eof` on a byte buffer: decoder, remaining buffer, outcome.  `decode_eof` ends with `self.reset()` — but
`read_utf8(..)?` at its head returns before that when the buffer is not UTF-8 (`eofBadUtf8Resets = false`, finding
C09-N5): then the decoder stays as it was. -/
def Raw.decodeEofB (d : Raw) (buf : List Nat) : Raw × List Nat × Out :=
  match readUtf8 buf with
  | none => ((if SwimVerif.Generated.Recon.eofBadUtf8Resets then {} else d), buf, .err)
  | some avail =>
    match d.decodeEof avail buf.isEmpty with
    | (rest, o) => ({}, buf.drop (utf8LenL avail - utf8LenL rest), o)

/-- The bare decoder on byte chunks (as the harness drives it). -/
def rawRunB : Raw → List Nat → List (List Nat) → Out
  | d, buf, [] => (d.decodeEofB buf).2.2
  | d, buf, c :: cs =>
    match d.decodeB (buf ++ c) with
    | (d', rest, .none) => rawRunB d' rest cs
    | (_, _, o) => o

/-! ## `WithLenRecognizerDecoder` -/

/-- `WithLenRecognizerDecoderState` (the header is 8 bytes, big endian). -/
inductive WLState where
  | header
  | body (remaining : Nat)
  | afterBody (remaining : Nat) (value : Out)
  | discarding (remaining : Nat) (error : Out)

structure WL where
  inner : Raw := {}
  state : WLState := .header

def beNat (bs : List Nat) : Nat := bs.foldl (fun acc b => acc * 256 + b) 0

/-- `swimos_encoding::consume_bounded`: give the inner decoder at most `remaining` bytes of `src` (`decode_eof` when
these are all the message still has, else `decode`), and put back what it did not take.  Result: inner decoder, buffer,
bytes consumed, outcome. -/
def consumeBounded (inner : Raw) (remaining : Nat) (src : List Nat) : Raw × List Nat × Nat × Out :=
  let toSplit := min remaining src.length
  let part := src.take toSplit
  let tail := src.drop toSplit
  let r : Raw × List Nat × Out :=
    if remaining ≤ part.length then inner.decodeEofB part else inner.decodeB part
  let consumed := part.length - r.2.1.length
  (r.1, (if remaining = consumed then tail else r.2.1 ++ tail), consumed, r.2.2)

/-- One call of `decode` on the buffer `src`: new decoder, new buffer, result (`none` = `Ok(None)`).  The loop of the
real method is unrolled through `fuel` (each iteration changes the state). -/
def WL.decode : Nat → WL → List Nat → WL × List Nat × Out
  | 0, w, src => (w, src, .none)
  | fuel + 1, w, src =>
    match w.state with
    | .header =>
      if src.length < 8 then (w, src, .none)
      else WL.decode fuel { w with state := .body (beNat (src.take 8)) } (src.drop 8)
    | .body remaining =>
      (match consumeBounded w.inner remaining src with
       | (inner', src', consumed, .value v) =>
         WL.decode fuel { inner := inner', state := .afterBody (remaining - consumed) (.value v) } src'
       | (inner', src', consumed, .none) => ({ inner := inner', state := .body (remaining - consumed) }, src', .none)
       | (inner', src', consumed, e) =>
         if remaining - consumed ≤ src'.length then
           ({ inner := inner', state := .header }, src'.drop (remaining - consumed), e)
         else WL.decode fuel { inner := inner', state := .discarding (remaining - consumed - src'.length) e } [])
    | .afterBody remaining v =>
      if remaining ≤ src.length then ({ w with state := .header }, src.drop remaining, v)
      else ({ w with state := .afterBody (remaining - src.length) v }, [], .none)
    | .discarding remaining e =>
      if remaining ≤ src.length then ({ w with state := .header }, src.drop remaining, e)
      else ({ w with state := .discarding (remaining - src.length) e }, [], .none)

/-- The length-delimited decoder on byte chunks: `decode` after every chunk until it answers. First result. -/
def wlRun : WL → List Nat → List (List Nat) → Out
  | _, _, [] => .none
  | w, buf, c :: cs =>
    match WL.decode 6 w (buf ++ c) with
    | (w', rest, .none) => wlRun w' rest cs
    | (_, _, o) => o

/-! ## several documents through ONE decoder instance -/

/-- One document through the bare decoder, character level (`decode` after every chunk, `decode_eof` at the end of the
document — which always resets): the decoder afterwards and the document's result.  `(rawDoc d buf cs).2 = rawRun d buf cs`. -/
def rawDoc : Raw → List Char → List (List Char) → Raw × Out
  | d, buf, [] => ({}, (d.decodeEof buf buf.isEmpty).2)
  | d, buf, c :: cs =>
    match d.decode (buf ++ c) with
    | (d', rest, .none) => rawDoc d' rest cs
    | (d', _, o) => (d', o)

/-- Documents one after the other through the same bare decoder, each with a buffer of its own (what is left of a
document after its result is dropped by the framing layer); no explicit `reset()` in between. -/
def rawSeq : Raw → List (List (List Char)) → List Out
  | _, [] => []
  | d, doc :: docs => (rawDoc d [] doc).2 :: rawSeq (rawDoc d [] doc).1 docs

/-- The same on bytes. -/
def rawDocB : Raw → List Nat → List (List Nat) → Raw × Out
  | d, buf, [] => ((d.decodeEofB buf).1, (d.decodeEofB buf).2.2)
  | d, buf, c :: cs =>
    match d.decodeB (buf ++ c) with
    | (d', rest, .none) => rawDocB d' rest cs
    | (d', _, o) => (d', o)

def rawSeqB : Raw → List (List (List Nat)) → List Out
  | _, [] => []
  | d, doc :: docs => (rawDocB d [] doc).2 :: rawSeqB (rawDocB d [] doc).1 docs

/-- `FramedRead` on one buffer: call `decode` until it says `None`; every result (`n` bounds the number of results). -/
def wlLoop : Nat → WL → List Nat → List Out → WL × List Nat × List Out
  | 0, w, buf, acc => (w, buf, acc ++ [.fuel])
  | n + 1, w, buf, acc =>
    match WL.decode 6 w buf with
    | (w', rest, .none) => (w', rest, acc)
    | (w', rest, o) => wlLoop n w' rest (acc ++ [o])

/-- Frames back to back through one length-delimited decoder, delivered in chunks: every result, in order. -/
def wlSeq : WL → List Nat → List (List Nat) → List Out
  | _, _, [] => []
  | w, buf, c :: cs =>
    match wlLoop ((buf ++ c).length / 8 + 2) w (buf ++ c) [] with
    | (w', rest, outs) => outs ++ wlSeq w' rest cs

end SwimVerif.ReconInc
