/-
C16: the model machine (what the Lean model answers to the op lines of harness `sv-c16`) and the monitor that
decides the property's laws on the implementation's observable outputs alone.
-/
import SwimVerif.Model.FormIO

namespace SwimVerif.Form

/-- Model state of a case: the schema announced by its `sch` line. -/
structure St where
  ty : Option Ty := none

/-- `as_value` then `try_from_value` gives the instance back, in the model. -/
def roundTrips (t : Ty) (x : Inst) : Bool :=
  match fromValue t (toValue t x) with
  | some y => y.render == x.render
  | none => false

def step (s : St) (line : String) : St × String :=
  match words line with
  | ["sch", _, d] =>
    match parseSchema d with
    | some t => ({ ty := some t }, if deriveOK t then "ok" else "rejected-by-derive")
    | none => (s, "bad-schema")
  | ["av", _, i] =>
    match s.ty, parseInstance i with
    | some t, some x => (s, (toValue t x).render)
    | _, _ => (s, "bad-op")
  | ["fv", _, v] =>
    match s.ty, parseValue v with
    | some t, some v => (s, match fromValue t v with
      | some x => "ok " ++ x.render
      | none => "err")
    | _, _ => (s, "bad-op")
  | ["rt", _, i] =>
    match s.ty, parseInstance i with
    | some t, some x => (s, if roundTrips t x then "ok" else "mismatch")
    | _, _ => (s, "bad-op")
  | _ => (s, "-")

/-! ### Monitor

Per case it remembers what the implementation wrote (`av`: instance ↦ value, `mp`: instance ↦ MessagePack bytes) and
requires that reading exactly that back gives the instance; that the two ways of reading a Recon text agree; that no
call panics. Reasons:
  model-roundtrip     `try_from_value(as_value(x))` is not `x`
  rt-mismatch         the harness-side comparison of the `Form` conversions (incl. `into_value/try_convert`) failed
  value-roundtrip     a type with generic `Value` fields: one of model / Recon (both reading paths, three printers) /
                      reused recogniser / MessagePack (typed and generic reader) does not give the instance back
  msgpack-write       `MsgPackInterpreter` refused the value
  msgpack-roundtrip   `read_from_msg_pack` of the written bytes is not `x`
  paths-accept        one of `parse_recognize::<T>` / `parse_recognize::<Value>`+`try_from_value` accepts, the other not
  paths-value         both accept with different results
  reset-not-fresh     documents read one after the other by ONE decoder / recogniser instance (reset in between)
                      do not give what fresh reads of the same texts give
  panic
-/
structure Mon where
  av : List (String × String) := []
  mp : List (String × String) := []

/-- Outcome of a reading path with `noparse` (the text is not Recon at all) counted as a rejection. -/
def normPath (s : String) : String := if s == "noparse" then "err" else s

def Mon.step (m : Mon) (line : String) (out : String) : Mon × Option String :=
  if (words out).contains "panic" || (out.splitOn "=panic").length > 1 then (m, some "panic") else
  match words line with
  | ["sch", _, _] => (m, if out == "ok" then none else some "schema-rejected")
  | ["av", _, i] => ({ m with av := (out, i) :: m.av }, none)
  | ["fv", _, v] =>
    match m.av.lookup v with
    | some i => (m, if out == "ok " ++ i then none else some "model-roundtrip")
    | none => (m, none)
  | ["rt", _, _] => (m, if out == "ok" then none else some "rt-mismatch")
  -- types with generic `Value` fields: the harness ran every conversion path on the instance and compared each result
  -- with the instance (`ok`), else `mismatch:<paths> c=<label>`
  | ["vrt", _, _] => (m, if out == "ok" then none else some "value-roundtrip")
  | ["pr", _, _, _] => (m, none)
  | ["txt", _, _] =>
    match words out with
    | a :: b :: _ =>
      let a := normPath (a.drop 2).toString
      let b := normPath (b.drop 2).toString
      if a == b then (m, none)
      else if a.startsWith "ok" && b.startsWith "ok" then (m, some "paths-value")
      else (m, some "paths-accept")
    | _ => (m, some "unparsable")
  | ["seq", _, _] =>
    -- `R=` results of one decoder instance reading the documents in sequence, `F=` fresh reads of the same texts
    match words out with
    | [a, b] => (m, if (a.drop 2).toString == (b.drop 2).toString then none else some "reset-not-fresh")
    | _ => (m, some "unparsable")
  | ["mp", _, i] =>
    if out.startsWith "err" then (m, some "msgpack-write") else ({ m with mp := (out, i) :: m.mp }, none)
  | ["mr", _, h] =>
    match m.mp.lookup h with
    | some i => (m, if out == "ok " ++ i then none else some "msgpack-roundtrip")
    | none => (m, none)
  | _ => (m, some "unparsable")

end SwimVerif.Form
