/-
C06 (extension): the WRITE FLUSH of the agent task and its effect on handler execution.

At the end of every iteration of the loop of `AgentTask::run_agent` (`agent_model/mod.rs`) the items collected in
`dirty_items` are visited: an item whose `ItemWriter` is at home (`item_writers`) gets `write_event` called
(`write_to_buffer` of the lane) and, unless the result is `NoData`, the writer goes away inside a
`do_write(tx, requires_event)` future (`pending_writes`); the item stays dirty when the result is
`DataStillAvailable` or when its writer is away. When the write completes (the runtime has taken the bytes) the loop
receives `TaskEvent::WriteComplete { writer, result }`: **only if `result == Ok(true)`** (`requires_event`) it asks
`lifecycle.item_event(item_model, lifecycle_item_ids[id])` for a handler and runs it with `exec_handler!`; the writer
returns to `item_writers` and the flush runs again.

* `WriteResult`, `Wr.write` : `write_to_buffer` of `ValueLane`, `MapLane`, `CommandLane`, `DemandMapLane`, branch by
  branch over the part of the lane state that decides the result (`ValueStore.dirty` + length of `sync_queue`; length
  of the map lane's operation queue — its contents are C02's; `CommandLane.dirty` + `prev_command.is_some()`;
  `DemandMapLaneInner.pending.is_some()` + `!is_empty()`).
* `flushArm`  : the four arms of the `match` (regenerated from the sources: `Generated/FlushTable.lean`).
* `WSide.flushOne / flush / complete` : the flush and the `WriteComplete` arm; `dispatch` is
  `lifecycle.item_event` + `exec_handler!` (instantiated with `trigD P maxDepth` by the executable model).
* `WSide.run` : any interleaving of flushes, write completions and write-side changes made by handlers.
* `ItemSpec`, `lifecycleItemIds`, `externalItemIds`, `lcBranch` : the name tables of `initialize_agent`
  (`external_item_ids : external name → id`, `lifecycle_item_ids : id → field name`) and the lookup of the
  lifecycle's `item_event` by label.
* `AgentIO`, `apiLineIO` : the executable model of the ops of `sv-c06` including `agentd`, `vsync`, `msync`, `rd`.
-/
import SwimVerif.Model.HandlersIO
import SwimVerif.Generated.FlushTable

namespace SwimVerif.Handlers

/-! ### `write_to_buffer` -/

/-- `agent_model::WriteResult` -/
inductive WriteResult | noData | done | dataStillAvailable | requiresEvent
  deriving DecidableEq, Repr

def WriteResult.name : WriteResult → String
  | .noData => "NoData"
  | .done => "Done"
  | .dataStillAvailable => "DataStillAvailable"
  | .requiresEvent => "RequiresEvent"

/-- The part of an item's state that decides what `write_to_buffer` returns. -/
inductive Wr
  | value (dirty : Bool) (syncs : Nat)          -- `ValueStore.dirty`, `ValueLane.sync_queue.len()`
  | map (queue : Nat)                           -- number of operations `pop_operation` will still yield
  | command (dirty : Bool) (hasPrev : Bool)     -- `CommandLane.dirty`, `prev_command.is_some()`
  | demandMap (pending : Bool) (more : Bool)    -- `pending.is_some()`, `!DemandMapLaneInner::is_empty()`
  deriving DecidableEq, Repr

/-- Item kinds whose lifecycle event is driven by handler `Modification`s only (value, map, command lanes). -/
def Wr.plain : Wr → Bool
  | .demandMap .. => false
  | _ => true

/-- `LaneItem::write_to_buffer`. -/
def Wr.write : Wr → Wr × WriteResult
  -- `ValueLane`: a queued sync request is answered first (`SyncEvent` + `Synced`); the dirty flag is left alone
  | .value d (s + 1) => (.value d s, if d || s != 0 then .dataStillAvailable else .done)
  -- … otherwise `store.consume`
  | .value true 0 => (.value false 0, .done)
  | .value false 0 => (.value false 0, .noData)
  -- `MapLane`: `pop_operation`, then `queue().is_empty()`
  | .map (q + 1) => (.map q, if q = 0 then .done else .dataStillAvailable)
  | .map 0 => (.map 0, .noData)
  -- `CommandLane`
  | .command true true => (.command false true, .done)
  | .command d p => (.command d p, .noData)
  -- `DemandMapLane`: `guard.pop()` takes the `pending` slot; more keys need the event handler to run again
  | .demandMap true more => (.demandMap false more, if more then .requiresEvent else .done)
  | .demandMap false more => (.demandMap false more, .noData)

/-! ### the flush -/

/-- One arm of `match item_model.write_event(..)`: is a write started, with which `requires_event`, does the item stay
in `dirty_items`. -/
structure FlushArm where
  push : Bool
  event : Bool
  retain : Bool
  deriving DecidableEq, Repr

/-- The arms of the match (`None` — no such lane — falls into the `_` arm like `NoData`). -/
def flushArm : Option WriteResult → FlushArm
  | some .done => ⟨Generated.flushDonePush, Generated.flushDoneEvent, Generated.flushDoneRetain⟩
  | some .requiresEvent =>
    ⟨Generated.flushRequiresEventPush, Generated.flushRequiresEventEvent, Generated.flushRequiresEventRetain⟩
  | some .dataStillAvailable =>
    ⟨Generated.flushDataStillAvailablePush, Generated.flushDataStillAvailableEvent,
     Generated.flushDataStillAvailableRetain⟩
  | _ => ⟨Generated.flushNoDataPush, Generated.flushNoDataEvent, Generated.flushNoDataRetain⟩

/-- An item and its `ItemWriter`: `away = some requires_event` while the writer is inside a `do_write` future. -/
structure Item where
  wr : Wr
  away : Option Bool := none
  deriving DecidableEq, Repr

structure WSide where
  items : List Item      -- by item id
  deriving Repr

def WSide.setItem (io : WSide) (id : Nat) (it : Item) : WSide := { io with items := io.items.set id it }

/-- The body of `dirty_items.retain(|id| …)` for one id; the `Bool` is the closure's result (stay dirty). -/
def WSide.flushOne (io : WSide) (id : Nat) : WSide × Bool :=
  match io.items[id]? with
  | none => (io, Generated.flushWriterAwayRetain)           -- `item_writers.remove(id)` is `None`
  | some it =>
    match it.away with
    | some _ => (io, Generated.flushWriterAwayRetain)       -- the writer is away
    | none =>
      let arm := flushArm (some it.wr.write.2)
      (io.setItem id { wr := it.wr.write.1, away := if arm.push then some arm.event else none }, arm.retain)

def WSide.flush (io : WSide) : List Nat → WSide × List Nat
  | [] => (io, [])
  | id :: rest =>
    let r := io.flushOne id
    let r2 := r.1.flush rest
    (r2.1, if r.2 then id :: r2.2 else r2.2)

/-- `TaskEvent::WriteComplete { writer, result: Ok(requires_event) }` for item `id` (nothing happens when no write of
the item is in flight): the lifecycle event of the item is dispatched only when `requires_event`. -/
def WSide.complete (dispatch : Trig) (io : WSide) (id : Nat) (st : St) : WSide × St × Outcome :=
  match io.items[id]? with
  | some it =>
    match it.away with
    | some ev =>
      let io' := io.setItem id { it with away := none }
      if ev then (io', dispatch id st) else (io', st, .ok)
    | none => (io, st, .ok)
  | none => (io, st, .ok)

/-- What can happen to the write side between two handler chains. -/
inductive IOEv
  | flush (dirty : List Nat)       -- the flush at the end of a loop iteration, `dirty_items` = `dirty`
  | complete (id : Nat)            -- the runtime has read: the write of item `id` completes
  | touch (id : Nat) (wr : Wr)     -- handlers changed the write side of item `id` (set, sync, update, …) to `wr`
  deriving Repr

/-- `touch` never turns an item into a demand-map lane. -/
def IOEv.plain : IOEv → Bool
  | .touch _ wr => wr.plain
  | _ => true

def WSide.stepEv (dispatch : Trig) (io : WSide) (st : St) : IOEv → WSide × St × Outcome
  | .flush d => ((io.flush d).1, st, .ok)
  | .complete id => io.complete dispatch id st
  | .touch id wr =>
    match io.items[id]? with
    | some it => (io.setItem id { it with wr := wr }, st, .ok)
    | none => (io, st, .ok)

/-- Any interleaving; stops at the first failing dispatched handler (`exec_handler!` leaves the loop). -/
def WSide.run (dispatch : Trig) (io : WSide) (st : St) : List IOEv → WSide × St × Outcome
  | [] => (io, st, .ok)
  | e :: rest =>
    match io.stepEv dispatch st e with
    | (io', st', .ok) => io'.run dispatch st' rest
    | r => r

/-! ### name tables of `initialize_agent` -/

/-- `ItemSpec` of `AgentSpec::item_specs()`: the map's key is the external name, `lifecycle_name` the field name. -/
structure ItemSpec where
  id : Nat
  ext : String
  field : String
  deriving DecidableEq, Repr

/-- `external_item_ids : HashMap<Text, u64>` (external name → id), used for requests and writes. -/
def externalItemIds (specs : List ItemSpec) : List (String × Nat) := specs.map fun s => (s.ext, s.id)

/-- `lifecycle_item_ids : HashMap<u64, Text>` (id → `spec.lifecycle_name`), used by `run_handler` and `WriteComplete`. -/
def lifecycleItemIds (specs : List ItemSpec) : List (Nat × String) := specs.map fun s => (s.id, s.field)

/-- `HashMap::get` on a list of entries. -/
def assoc {κ ν : Type} [DecidableEq κ] : List (κ × ν) → κ → Option ν
  | [], _ => none
  | (k, v) :: rest, x => if k = x then some v else assoc rest x

def lookupStr (t : List (String × Nat)) (x : String) : Option Nat := assoc t x

def lookupId (t : List (Nat × String)) (x : Nat) : Option String := assoc t x

/-- The derived lifecycle's `item_event(agent, name)`: the branch labelled `name` (labels are field names). -/
def lcBranch (specs : List ItemSpec) (label : String) : Option Nat :=
  assoc (specs.map fun s => (s.field, s.id)) label

/-- A request addressed to the external name `ext`: the id it reaches and, for a change made by its handler, the
lifecycle branch that `run_handler` finds through `lifecycle_item_ids`. -/
def resolve (specs : List ItemSpec) (ext : String) : Option (Nat × Option Nat) :=
  match lookupStr (externalItemIds specs) ext with
  | none => none
  | some id => some (id, (lookupId (lifecycleItemIds specs) id).bind (lcBranch specs))

/-- The lanes of the harness agent `Ag`. -/
def agSpecs : List ItemSpec :=
  [⟨0, "v0", "v0"⟩, ⟨1, "valOne", "val_one"⟩, ⟨2, "vTwo", "v2"⟩, ⟨3, "mapZero", "map_zero"⟩, ⟨4, "mapOne", "m1"⟩,
   ⟨5, "cmd", "cmd"⟩]

/-! ### executable model of the ops that involve the write side -/

structure AgentIO where
  agent : Agent
  io : WSide
  deriving Repr

def cmdId : Nat := nv + nm

def WSide.init : WSide :=
  { items := (List.replicate nv { wr := .value false 0 }) ++ (List.replicate nm { wr := .map 0 })
      ++ [{ wr := .command false false }] }

/-- The write-side change of an item a handler chain reported as dirty (`ValueStore::set` raises the flag; a map
operation is queued — one per chain here, the exact queue is C02's; the command lane remembers the command). -/
def Wr.modified : Wr → Wr
  | .value _ s => .value true s
  | .map q => .map (q + 1)
  | .command _ _ => .command true true
  | w => w

/-- `lane.sync(id)`. -/
def Wr.synced : Wr → Wr
  | .value d s => .value d (s + 1)
  | .map q => .map (q + 1)
  | w => w

def WSide.touch (io : WSide) (f : Wr → Wr) (id : Nat) : WSide :=
  match io.items[id]? with
  | some it => io.setItem id { it with wr := f it.wr }
  | none => io

/-- End of a loop iteration: the items collected by the handler chain have new data, then the flush. -/
def AgentIO.endOfIteration (x : AgentIO) : AgentIO :=
  let dirty := x.agent.st.dirty
  let r := (dirty.foldl (fun io id => io.touch Wr.modified id) x.io).flush dirty
  { agent := { x.agent with st := { x.agent.st with dirty := r.2 } }, io := r.1 }

def AgentIO.start (P : Prog) : AgentIO :=
  -- `on_start` runs with the `Discard` collector: the stores it set are dirty, `dirty_items` is empty
  let set := (topRun P (bracket (.enTop .start) P.onStart (.exTop .start)) St.init).1.dirty
  AgentIO.endOfIteration { agent := Handlers.start P, io := set.foldl (fun io id => io.touch Wr.modified id) WSide.init }

/-- A request of the runtime side. -/
inductive LReq
  | handler (h : H) (viaCmd : Bool)
  | dropTake (m : Nat) (drop : Bool) (n : Nat)     -- `@drop(n)` / `@take(n)` sent to a map lane
  | sync (id : Nat) (dirty trigger : Bool)
  deriving Repr

def laneReq (parts : List String) : Option LReq :=
  match parts with
  | ["vsync", l] => do
    let l ← l.toNat?
    if l < nv then some (.sync (vid l) Generated.valueSyncDirty Generated.valueSyncTrigger) else none
  | ["msync", m] => do
    let m ← m.toNat?
    if m < nm then some (.sync (mid m) Generated.mapSyncDirty Generated.mapSyncTrigger) else none
  | ["mdrop", m, n] => do
    let m ← m.toNat?
    let n ← n.toNat?
    if m < nm ∧ n < 100 then some (.dropTake m true n) else none
  | ["mtake", m, n] => do
    let m ← m.toNat?
    let n ← n.toNat?
    if m < nm ∧ n < 100 then some (.dropTake m false n) else none
  | "cmd" :: _ => (laneRequest parts).map fun h => .handler h true
  | _ => (laneRequest parts).map fun h => .handler h false

/-- What the agent task does with the result of `exec_handler!`. -/
def execResult (a : Agent) (r : St × Outcome) : Agent :=
  match r with
  | (st', .ok) => drain drainFuel { a with st := st' }
  | (st', .err .stop) => shutdown a st'
  | (st', .err _) => { a with st := st', phase := .failed }

def AgentIO.request (x : AgentIO) : LReq → AgentIO
  | .handler h viaCmd =>
    let a := command x.agent h
    -- the command lane itself is modified by `DoCommand`
    let a := if viaCmd then { a with st := a.st.addDirty cmdId } else a
    AgentIO.endOfIteration { x with agent := a }
  | .dropTake m drop n =>
    -- `MapLaneDropOrTake::Init` looks at the map when the command is executed
    AgentIO.endOfIteration { x with agent := command x.agent (dropTakeH x.agent.st m drop n) }
  | .sync id dirty trigger =>
    -- `exec_handler!(item_model.on_sync(..))`: `ValueLaneSync` / `MapLaneSync` complete with their `Modification`
    let io := x.io.touch Wr.synced id
    let a := execResult x.agent
      (afterMod (trigD x.agent.prog maxDepth) (some { item := id, dirty := dirty, trigger := trigger }) x.agent.st)
    AgentIO.endOfIteration { agent := a, io := io }

/-- The runtime reads the output of item `id`: a write in flight completes (`WriteComplete`), then the flush. -/
def AgentIO.readOne (x : AgentIO) (id : Nat) : AgentIO :=
  if x.agent.phase = .running then
    match x.io.complete (trigD x.agent.prog maxDepth) id x.agent.st with
    | (io', r) => AgentIO.endOfIteration { agent := execResult x.agent r, io := io' }
  else x

def AgentIO.readRounds (x : AgentIO) (ids : List Nat) : Nat → AgentIO
  | 0 => x
  | k + 1 => AgentIO.readRounds (ids.foldl AgentIO.readOne x) ids k

def laneIds (lane : String) : Option (List Nat) :=
  if lane = "all" then some (List.range (nv + nm + 1))
  else if lane = "cmd" then some [cmdId]
  else match lane.toList with
    | ['v', c] => (pDigit [c]).bind fun r => if r.1 < nv then some [vid r.1] else none
    | ['m', c] => (pDigit [c]).bind fun r => if r.1 < nm then some [mid r.1] else none
    | _ => none

def AgentIO.clearTrace (x : AgentIO) : AgentIO := { x with agent := Handlers.clearTrace x.agent }

def burstRunIO (x : AgentIO) : List LReq → AgentIO
  | [] => x
  | r :: rest => if x.agent.phase = .running then burstRunIO (x.request r) rest else x

def apiLineIO (s : Option AgentIO) (line : String) : Option AgentIO × String :=
  match words line with
  | "agent" :: ps =>
    match parseProgs ps with
    | some P => let x := AgentIO.start P; (some x, x.agent.report)
    | none => (s, "bad-op")
  | "agentd" :: cap :: ps =>
    match parseProgs ps, cap.toNat? with
    | some P, some c =>
      if 1 ≤ c ∧ c ≤ 1048576 then let x := AgentIO.start P; (some x, x.agent.report) else (s, "bad-op")
    | _, _ => (s, "bad-op")
  | ["stop"] =>
    match s with
    | some x =>
      if x.agent.phase = .running then
        let a' := shutdown (Handlers.clearTrace x.agent) (Handlers.clearTrace x.agent).st
        (some { x with agent := a' }, a'.report)
      else (s, "dead")
    | none => (s, "bad-op")
  | ["rd", lane, k] =>
    match s, laneIds lane, k.toNat? with
    | some x, some ids, some k =>
      if k ≤ 1000 then
        if x.agent.phase = .running then
          let x' := x.clearTrace.readRounds ids k
          (some x', x'.agent.report)
        else (s, "dead")
      else (s, "bad-op")
    | _, _, _ => (s, "bad-op")
  | "burst" :: items =>
    match s, items.mapM (fun it => laneReq (it.splitOn ":")) with
    | some x, some rs =>
      if x.agent.phase = .running then
        let x' := burstRunIO x.clearTrace rs
        (some x', x'.agent.report)
      else (s, "dead")
    | _, _ => (s, "bad-op")
  | parts =>
    match s, laneReq parts with
    | some x, some r =>
      if x.agent.phase = .running then
        let x' := x.clearTrace.request r
        (some x', x'.agent.report)
      else (s, "dead")
    | _, _ => (s, "bad-op")

end SwimVerif.Handlers
