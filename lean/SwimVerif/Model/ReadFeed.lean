/-
The read task of the agent runtime feeding command envelopes to lanes (C14):
`runtime/swimos_runtime/src/agent/task/mod.rs` `read_task` (the `Envelope` branch, `needs_flush`, `flush_lane`) and
`agent/task/sender/mod.rs` `LaneSender` (`feed_frame`, `start_sync`, `flush`) for value-like lanes (command lanes are
`UplinkKind::Value`).

A `LaneSender` is a `FramedWrite` over the lane's byte channel: `feed` encodes a request into its buffer (`buf`),
`flush` moves the buffer into the channel (`chan`), where the agent reads it (`take`). The read task is a sequential
loop; the schedule is *which remote's next envelope `SelectAll` yields* (`pick r`), *whether the loop finds nothing
immediately ready* so that the joined loop-top `flush_lane` runs (`idle`) and *when the agent reads a lane* (`take`).
Remotes write envelopes into their own byte channels (`send`; FIFO per remote — that is C12/C10).

The discipline: an envelope for lane `l` first flushes the lane recorded in `needs_flush` if that is another lane,
then a command is fed to `l`'s sender, flushed at once (`let _ = lane_tx.flush().await`) and `needs_flush = Some(l)`.
`Cfg.eager = false` is the same loop WITHOUT the immediate flush: the theorems hold for both, i.e. they rest on the
`needs_flush` discipline alone (the driver runs `eager = true`, the code).

Not modelled (assumed away, see NOTES-C14x): lane endpoints that fail (`LaneSendError::Io`, lane removed), lanes
registered after the start, the stop vote, map-like lanes (`extract_header`, `BadEnvelope`).
-/
import SwimVerif.Model.Util

namespace SwimVerif.RF

/-- `Operation` of a request envelope -/
inductive Env
  | link
  | sync
  | unlink
  | command (b : Nat)
  deriving DecidableEq, Repr

/-- `LaneRequest` as the lane receives it. The remote a command came from is NOT on the wire: `r` is a ghost tag. -/
inductive Req
  | command (r : Nat) (b : Nat)
  | sync (r : Nat)
  deriving DecidableEq, Repr

structure Sender where
  buf : List Req := []      -- encoded into the `FramedWrite` buffer, not yet in the channel
  chan : List Req := []     -- in the lane's byte channel, not yet read by the agent
  deriving Repr

/-- `LaneSender::flush` -/
def Sender.flush (x : Sender) : Sender := { buf := [], chan := x.chan ++ x.buf }

/-- `FramedWrite::feed` -/
def Sender.feed (x : Sender) (q : Req) : Sender := { x with buf := x.buf ++ [q] }

def upd {β : Type} (f : Nat → β) (k : Nat) (v : β) : Nat → β := fun k' => if k' = k then v else f k'

structure Cfg where
  known : List Nat          -- `name_mapping`: the lanes registered (here: before the first envelope)
  eager : Bool := true      -- the `lane_tx.flush().await` right after a successful `feed_frame`

/-- an envelope in a remote's channel: target lane and operation -/
abbrev Msg := Nat × Env

structure St where
  inbox : Nat → List Msg := fun _ => []     -- per remote: written by the remote, not yet read by the read task
  sender : Nat → Sender := fun _ => {}      -- `lanes`
  needsFlush : Option Nat := none           -- `needs_flush`
  -- ghost
  sent : List (Nat × Msg) := []             -- every envelope sent `(remote, lane, op)`, in global order
  picked : List (Nat × Msg) := []           -- every envelope the read task has processed, in processing order
  delivered : List (Nat × Req) := []        -- `(lane, request)` read by the agent, in order
  coord : List (Nat × Msg) := []            -- `RwCoordinationMessage`s sent to the write task (Link / Unlink / UnknownLane)

inductive Op
  | send (r : Nat) (l : Nat) (e : Env)   -- remote `r` writes an envelope for lane `l`
  | pick (r : Nat)                       -- `remotes.next()` yields `r`'s next envelope: one `Envelope` iteration
  | idle                                 -- nothing immediately ready: the joined `flush_lane` completes
  | take (l : Nat)                       -- the agent reads one request from lane `l`'s channel
  deriving Repr

/-- `flush_lane(&mut lanes, &mut needs_flush)` -/
def flushLane (s : St) : St :=
  match s.needsFlush with
  | none => s
  | some i => { s with needsFlush := none, sender := upd s.sender i (s.sender i).flush }

/-- `if matches!(&needs_flush, Some(i) if i != id) { flush_lane(..).await }` -/
def switchTo (s : St) (l : Nat) : St :=
  match s.needsFlush with
  | none => s
  | some i => if i = l then s else flushLane s

/-- the `ReadTaskEvent::Envelope` branch for an envelope of remote `r` for lane `l` -/
def handle (c : Cfg) (s : St) (r : Nat) (l : Nat) (e : Env) : St :=
  if c.known.contains l then
    let s1 := switchTo s l
    match e with
    | .link => { s1 with coord := s1.coord ++ [(r, l, e)] }
    | .unlink => { s1 with coord := s1.coord ++ [(r, l, e)] }
    | .sync =>
      -- `start_sync`: `sender.send(Sync(origin))` = feed + flush
      { s1 with sender := upd s1.sender l ((s1.sender l).feed (.sync r)).flush }
    | .command b =>
      -- `feed_frame` (value-like: `sender.feed`), then `flush`, then `needs_flush = Some(id)`
      let fed := (s1.sender l).feed (.command r b)
      { s1 with sender := upd s1.sender l (if c.eager then fed.flush else fed), needsFlush := some l }
  else
    -- non-existent lane: `flush_lane`; a command is dropped silently, anything else reports `UnknownLane`
    let s1 := flushLane s
    match e with
    | .command _ => s1
    | _ => { s1 with coord := s1.coord ++ [(r, l, e)] }

def step (c : Cfg) (s : St) : Op → St
  | .send r l e => { s with inbox := upd s.inbox r (s.inbox r ++ [(l, e)]), sent := s.sent ++ [(r, l, e)] }
  | .pick r =>
    match s.inbox r with
    | [] => s
    | m :: rest =>
      handle c { s with inbox := upd s.inbox r rest, picked := s.picked ++ [(r, m)] } r m.1 m.2
  | .idle => flushLane s
  | .take l =>
    match (s.sender l).chan with
    | [] => s
    | q :: rest =>
      { s with sender := upd s.sender l { (s.sender l) with chan := rest }, delivered := s.delivered ++ [(l, q)] }

def run (c : Cfg) (s : St) (ops : List Op) : St := ops.foldl (step c) s

/-! ### Views -/

/-- the request a lane gets for an envelope (none for link / unlink) -/
def reqOf (r : Nat) : Env → Option Req
  | .command b => some (.command r b)
  | .sync => some (.sync r)
  | _ => none

/-- requests among envelopes `(remote, lane, op)` addressed to lane `l` -/
def reqsFor (l : Nat) (ms : List (Nat × Msg)) : List Req :=
  ms.filterMap (fun p => if p.2.1 = l then reqOf p.1 p.2.2 else none)

/-- requests among `(lane, op)` envelopes of remote `r` addressed to lane `l` -/
def reqsOfInbox (r l : Nat) (ms : List Msg) : List Req :=
  ms.filterMap (fun m => if m.1 = l then reqOf r m.2 else none)

/-- the part of a request stream that comes from remote `r` -/
def fromRemote (r : Nat) (qs : List Req) : List Req :=
  qs.filter (fun q => match q with | .command r' _ => r' = r | .sync r' => r' = r)

def deliveredTo (l : Nat) (d : List (Nat × Req)) : List Req := (d.filter (·.1 = l)).map (·.2)

/-- everything lane `l` has been given or is about to be given, oldest first:
read by the agent, then in the channel, then in the sender's buffer -/
def St.laneStream (s : St) (l : Nat) : List Req :=
  deliveredTo l s.delivered ++ (s.sender l).chan ++ (s.sender l).buf

/-! ### Line protocol
`new <nlanes>` (lanes `0 … n-1` exist) | `send <r> <l> cmd <b>` | `send <r> <l> link|sync|unlink` (the harness lets
the runtime settle after a `send`: the envelope is picked and the loop goes idle) | `take <l> <n>` (read up to `n`
requests that are available on lane `l`; output `got <requests>`) | `drain` (settle, then read everything from every
lane; output `all <lane>:<request>,…`).
A line starting with `!send` (no settling: several remotes race) is only judged by the monitor. -/

structure Sys where
  cfg : Cfg := { known := [] }
  st : St := {}

def Req.render : Req → String
  | .command _ b => s!"cmd:{b}"
  | .sync r => s!"sync:{r}"

def parseEnv : List String → Option Env
  | ["cmd", b] => b.toNat?.map .command
  | ["link"] => some .link
  | ["sync"] => some .sync
  | ["unlink"] => some .unlink
  | _ => none

def takeN (c : Cfg) : Nat → Nat → St → List Req → St × List Req
  | 0, _, s, acc => (s, acc)
  | n + 1, l, s, acc =>
    match (s.sender l).chan with
    | [] => (s, acc)
    | q :: _ => takeN c n l (step c s (.take l)) (acc ++ [q])

def renderReqs (qs : List String) : String := if qs.isEmpty then "-" else ",".intercalate qs

def stepLine (y : Sys) (line : String) : Sys × String :=
  match words line with
  | "new" :: n :: _ => match n.toNat? with
    | some n => ({ cfg := { known := List.range n }, st := {} }, "ok")
    | none => (y, "bad-op")
  | "send" :: r :: l :: rest => match r.toNat?, l.toNat?, parseEnv rest with
    | some r, some l, some e =>
      ({ y with st := run y.cfg y.st [.send r l e, .pick r, .idle] }, "ok")
    | _, _, _ => (y, "bad-op")
  | ["take", l, n] => match l.toNat?, n.toNat? with
    | some l, some n =>
      let x := takeN y.cfg n l y.st []
      ({ y with st := x.1 }, "got " ++ renderReqs (x.2.map Req.render))
    | _, _ => (y, "bad-op")
  | ["drain"] =>
    let x := y.cfg.known.foldl (fun (acc : St × List String) l =>
      let t := takeN y.cfg ((acc.1.sender l).chan.length) l acc.1 []
      (t.1, acc.2 ++ t.2.map (fun q => s!"{l}:{q.render}"))) (y.st, [])
    ({ y with st := x.1 }, "all " ++ renderReqs x.2)
  | _ => (y, "bad-op")

/-! ### Observable-level monitor
Bodies are unique per case, so a forwarded command identifies its envelope. Per `(remote, lane)` the monitor keeps the
requests sent and not yet seen at the lane, oldest first. A request read from lane `l` must be the OLDEST outstanding
request of its remote for `l` (exactly once, per-remote order, right lane, nothing merged or invented); after a
`drain` nothing may be outstanding for an existing lane (nothing stranded in a sender's buffer). -/

structure Mon where
  nlanes : Nat := 0
  outstanding : List (Nat × Nat × String) := []   -- (remote, lane, rendered request), in send order
  deriving Repr

/-- remove the first outstanding entry of `(r, l)` if it is `q`; `none` if the oldest entry of `(r, l)` differs -/
def popOldest (r l : Nat) (q : String) : List (Nat × Nat × String) → Option (List (Nat × Nat × String))
  | [] => none
  | e :: rest =>
    if e.1 = r ∧ e.2.1 = l then (if e.2.2 = q then some rest else none)
    else (popOldest r l q rest).map (e :: ·)

/-- who sent request `q` (any lane)? -/
def ownerOf (q : String) : List (Nat × Nat × String) → Option (Nat × Nat)
  | [] => none
  | e :: rest => if e.2.2 = q then some (e.1, e.2.1) else ownerOf q rest

/-- who sent request `q` for lane `l`? (a `sync:<r>` may be outstanding on several lanes) -/
def ownerOn (q : String) (l : Nat) : List (Nat × Nat × String) → Option Nat
  | [] => none
  | e :: rest => if e.2.2 = q ∧ e.2.1 = l then some e.1 else ownerOn q l rest

def Mon.see (m : Mon) (l : Nat) (q : String) : Mon × Option String :=
  match ownerOn q l m.outstanding with
  | some r =>
    match popOldest r l q m.outstanding with
    | some o => ({ m with outstanding := o }, none)
    | none => (m, some "command-dropped-or-reordered-for-a-remote")
  | none =>
    match ownerOf q m.outstanding with
    | none => (m, some "command-forwarded-twice-or-invented")
    | some _ => (m, some "command-forwarded-to-wrong-lane")

def Mon.seeAll (m : Mon) : List (Nat × String) → Mon × Option String
  | [] => (m, none)
  | (l, q) :: rest =>
    match m.see l q with
    | (m', none) => m'.seeAll rest
    | (m', some e) => (m', some e)

def Mon.step (m : Mon) (line : String) (out : String) : Mon × Option String :=
  let ws := words line
  let ws := match ws with
    | "!send" :: rest => "send" :: rest
    | _ => ws
  match ws with
  | "new" :: n :: _ => ({ nlanes := n.toNat?.getD 0 }, none)
  | "send" :: r :: l :: rest => match r.toNat?, l.toNat?, parseEnv rest with
    | some r, some l, some e =>
      if l < m.nlanes then
        match reqOf r e with
        | some q => ({ m with outstanding := m.outstanding ++ [(r, l, q.render)] }, none)
        | none => (m, none)
      else (m, none)
    | _, _, _ => (m, some "unparsable")
  | ["take", l, _] => match l.toNat?, words out with
    | some l, ["got", out] =>
      if out = "-" then (m, none)
      else m.seeAll ((out.splitOn ",").map (fun q => (l, q)))
    | _, _ => (m, some "unparsable")
  | ["drain"] =>
    let out := ((words out).drop 1).headD "?"
    let items := if out = "-" then some [] else
      (out.splitOn ",").mapM (fun x => match x.splitOn ":" with
        | l :: rest => l.toNat?.map (fun l => (l, ":".intercalate rest))
        | _ => none)
    match items with
    | none => (m, some "unparsable")
    | some items =>
      match m.seeAll items with
      | (m', some e) => (m', some e)
      | (m', none) =>
        if m'.outstanding.isEmpty then (m', none) else (m', some "command-stranded-at-quiescence")
  | _ => (m, some "unparsable")

end SwimVerif.RF
