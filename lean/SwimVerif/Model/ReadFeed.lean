/-
The read task of the agent runtime feeding command envelopes to lanes (C14):
`runtime/swimos_runtime/src/agent/task/mod.rs` `read_task` (the `Envelope` branch, `needs_flush`, `flush_lane`) and
`agent/task/sender/mod.rs` `LaneSender` (`feed_frame`, `start_sync`, `flush`) for value-like lanes (command lanes are
`UplinkKind::Value`).

A `LaneSender` is a `FramedWrite` over the lane's byte channel: `feed` encodes a request into its buffer (`buf`),
`flush` moves the buffer into the channel (`chan`), where the agent reads it (`take`). The read task is a sequential
loop; the schedule is *which remote's next envelope `SelectAll` yields* (`pick r`), *whether the loop finds nothing
immediately ready* so that the joined loop-top `flush_lane` runs (`idle`) and *when the agent reads a lane* (`take`).
Remotes write envelopes into their own byte channels (`send`; FIFO per remote — that is C12/C10).

The discipline: an envelope for lane `l` first flushes the lane recorded in `needs_flush` if that is another lane,
then a command is fed to `l`'s sender, flushed at once (`let _ = lane_tx.flush().await`) and `needs_flush = Some(l)`.
`Cfg.eager = false` is the same loop WITHOUT the immediate flush: the theorems hold for both, i.e. they rest on the
`needs_flush` discipline alone (the driver runs `eager = true`, the code).

Map-like lanes (`Cfg.mapLanes`): `feed_frame` first runs `extract_header`; a body that is not a map operation
(`Cfg.invalid`) is REJECTED (`LaneSendError::Extraction` → `BadEnvelope` to the write task, nothing reaches the lane,
`needs_flush` untouched); an accepted one is `sender.send` = feed + flush.

Command counters (C20): for a command envelope of an existing lane the read task first bumps the AGGREGATE reporter
(`aggregate_reporter.count_commands(1)` in `read_task`), then `feed_frame` bumps the LANE's reporter — before the
body is inspected or anything is written, so rejected commands are counted by both. Commands for unknown lanes and
link / sync / unlink envelopes are counted by neither. A snapshot (`UplinkReportReader::snapshot`) takes a counter's
value and resets it (`snapLane`, `snapAgg`).

Not modelled (assumed away, see NOTES-C14x): lane endpoints that fail (`LaneSendError::Io`, lane removed), lanes
registered after the start, the stop vote.
-/
import SwimVerif.Model.Util

namespace SwimVerif.RF

/-- `Operation` of a request envelope -/
inductive Env
  | link
  | sync
  | unlink
  | command (b : Nat)
  deriving DecidableEq, Repr

/-- `LaneRequest` as the lane receives it. The remote a command came from is NOT on the wire: `r` is a ghost tag. -/
inductive Req
  | command (r : Nat) (b : Nat)
  | sync (r : Nat)
  deriving DecidableEq, Repr

structure Sender where
  buf : List Req := []      -- encoded into the `FramedWrite` buffer, not yet in the channel
  chan : List Req := []     -- in the lane's byte channel, not yet read by the agent
  deriving Repr

/-- `LaneSender::flush` -/
def Sender.flush (x : Sender) : Sender := { buf := [], chan := x.chan ++ x.buf }

/-- `FramedWrite::feed` -/
def Sender.feed (x : Sender) (q : Req) : Sender := { x with buf := x.buf ++ [q] }

def upd {β : Type} (f : Nat → β) (k : Nat) (v : β) : Nat → β := fun k' => if k' = k then v else f k'

structure Cfg where
  known : List Nat          -- `name_mapping`: the lanes registered (here: before the first envelope)
  eager : Bool := true      -- the `lane_tx.flush().await` right after a successful `feed_frame`
  mapLanes : List Nat := [] -- the lanes with `UplinkKind::Map` (their sender inspects the body)
  invalid : Nat → Bool := fun _ => false   -- bodies for which `extract_header` fails

/-- does lane `l`'s sender reject the envelope (`LaneSendError::Extraction`)? -/
def Cfg.rejects (c : Cfg) (l : Nat) : Env → Bool
  | .command b => c.mapLanes.contains l && c.invalid b
  | _ => false

/-- an envelope in a remote's channel: target lane and operation -/
abbrev Msg := Nat × Env

structure St where
  inbox : Nat → List Msg := fun _ => []     -- per remote: written by the remote, not yet read by the read task
  sender : Nat → Sender := fun _ => {}      -- `lanes`
  needsFlush : Option Nat := none           -- `needs_flush`
  -- ghost
  sent : List (Nat × Msg) := []             -- every envelope sent `(remote, lane, op)`, in global order
  picked : List (Nat × Msg) := []           -- every envelope the read task has processed, in processing order
  delivered : List (Nat × Req) := []        -- `(lane, request)` read by the agent, in order
  coord : List (Nat × Msg) := []            -- `RwCoordinationMessage`s sent to the write task (Link / Unlink / UnknownLane / BadEnvelope)
  -- command counters (`UplinkCounters.command_count` of each lane's reporter and of the aggregate reporter)
  laneCount : Nat → Nat := fun _ => 0
  aggCount : Nat := 0
  -- ghost: the sum of the snapshots taken so far
  laneSnap : Nat → Nat := fun _ => 0
  aggSnap : Nat := 0

inductive Op
  | send (r : Nat) (l : Nat) (e : Env)   -- remote `r` writes an envelope for lane `l`
  | pick (r : Nat)                       -- `remotes.next()` yields `r`'s next envelope: one `Envelope` iteration
  | idle                                 -- nothing immediately ready: the joined `flush_lane` completes
  | take (l : Nat)                       -- the agent reads one request from lane `l`'s channel
  | snapLane (l : Nat)                   -- `snapshot()` on lane `l`'s report reader (command counter part)
  | snapAgg                              -- `snapshot()` on the aggregate report reader
  deriving Repr

/-- `flush_lane(&mut lanes, &mut needs_flush)` -/
def flushLane (s : St) : St :=
  match s.needsFlush with
  | none => s
  | some i => { s with needsFlush := none, sender := upd s.sender i (s.sender i).flush }

/-- `if matches!(&needs_flush, Some(i) if i != id) { flush_lane(..).await }` -/
def switchTo (s : St) (l : Nat) : St :=
  match s.needsFlush with
  | none => s
  | some i => if i = l then s else flushLane s

/-- `aggregate_reporter.count_commands(1)` (read task) then `reporter.count_commands(1)` (`feed_frame`) -/
def countCommand (s : St) (l : Nat) : St :=
  { s with aggCount := s.aggCount + 1, laneCount := upd s.laneCount l (s.laneCount l + 1) }

/-- `Operation::Command(body)` for an existing lane (after the lane switch): both counters first, then `feed_frame` -/
def handleCommand (c : Cfg) (s1 : St) (r l b : Nat) : St :=
  let s2 := countCommand s1 l
  if c.rejects l (.command b) then
    -- `LaneSendError::Extraction`: `BadEnvelope` to the write task, nothing for the lane, `needs_flush` untouched
    { s2 with coord := s2.coord ++ [(r, l, .command b)] }
  else
    -- value-like: `sender.feed`; map-like: `sender.send` (= feed + flush); then `flush`, `needs_flush = Some(id)`
    let fed := (s2.sender l).feed (.command r b)
    { s2 with sender := upd s2.sender l (if c.eager || c.mapLanes.contains l then fed.flush else fed),
              needsFlush := some l }

/-- the `ReadTaskEvent::Envelope` branch for an envelope of remote `r` for lane `l` -/
def handle (c : Cfg) (s : St) (r : Nat) (l : Nat) (e : Env) : St :=
  if c.known.contains l then
    let s1 := switchTo s l
    match e with
    | .link => { s1 with coord := s1.coord ++ [(r, l, e)] }
    | .unlink => { s1 with coord := s1.coord ++ [(r, l, e)] }
    | .sync =>
      -- `start_sync`: `sender.send(Sync(origin))` = feed + flush
      { s1 with sender := upd s1.sender l ((s1.sender l).feed (.sync r)).flush }
    | .command b => handleCommand c s1 r l b
  else
    -- non-existent lane: `flush_lane`; a command is dropped silently, anything else reports `UnknownLane`
    let s1 := flushLane s
    match e with
    | .command _ => s1
    | _ => { s1 with coord := s1.coord ++ [(r, l, e)] }

def step (c : Cfg) (s : St) : Op → St
  | .send r l e => { s with inbox := upd s.inbox r (s.inbox r ++ [(l, e)]), sent := s.sent ++ [(r, l, e)] }
  | .pick r =>
    match s.inbox r with
    | [] => s
    | m :: rest =>
      handle c { s with inbox := upd s.inbox r rest, picked := s.picked ++ [(r, m)] } r m.1 m.2
  | .idle => flushLane s
  | .take l =>
    match (s.sender l).chan with
    | [] => s
    | q :: rest =>
      { s with sender := upd s.sender l { (s.sender l) with chan := rest }, delivered := s.delivered ++ [(l, q)] }
  | .snapLane l =>
    { s with laneSnap := upd s.laneSnap l (s.laneSnap l + s.laneCount l), laneCount := upd s.laneCount l 0 }
  | .snapAgg => { s with aggSnap := s.aggSnap + s.aggCount, aggCount := 0 }

def run (c : Cfg) (s : St) (ops : List Op) : St := ops.foldl (step c) s

/-! ### Views -/

/-- the request lane `l` gets for an envelope of remote `r` (none for link / unlink and for a rejected command) -/
def reqOf (c : Cfg) (l r : Nat) : Env → Option Req
  | .command b => if c.rejects l (.command b) then none else some (.command r b)
  | .sync => some (.sync r)
  | _ => none

/-- requests among envelopes `(remote, lane, op)` addressed to lane `l` -/
def reqsFor (c : Cfg) (l : Nat) (ms : List (Nat × Msg)) : List Req :=
  ms.filterMap (fun p => if p.2.1 = l then reqOf c l p.1 p.2.2 else none)

/-- requests among `(lane, op)` envelopes of remote `r` addressed to lane `l` -/
def reqsOfInbox (c : Cfg) (r l : Nat) (ms : List Msg) : List Req :=
  ms.filterMap (fun m => if m.1 = l then reqOf c l r m.2 else none)

/-- the part of a request stream that comes from remote `r` -/
def fromRemote (r : Nat) (qs : List Req) : List Req :=
  qs.filter (fun q => match q with | .command r' _ => r' = r | .sync r' => r' = r)

def deliveredTo (l : Nat) (d : List (Nat × Req)) : List Req := (d.filter (·.1 = l)).map (·.2)

/-- everything lane `l` has been given or is about to be given, oldest first:
read by the agent, then in the channel, then in the sender's buffer -/
def St.laneStream (s : St) (l : Nat) : List Req :=
  deliveredTo l s.delivered ++ (s.sender l).chan ++ (s.sender l).buf

/-! ### Line protocol
`new <nlanes>` (lanes `0 … n-1` exist) | `send <r> <l> cmd <b>` | `send <r> <l> link|sync|unlink` (the harness lets
the runtime settle after a `send`: the envelope is picked and the loop goes idle) | `take <l> <n>` (read up to `n`
requests that are available on lane `l`; output `got <requests>`) | `drain` (settle, then read everything from every
lane; output `all <lane>:<request>,…`).
A line starting with `!send` (no settling: several remotes race) is only judged by the monitor.
`new <nlanes> <cap> <k>`: the last `k` lanes are map lanes; a command body `b ≥ 900000` is sent as plain text (not a
map operation: the map lane's sender rejects it), any other body to a map lane as `@update(key:b) b`.
`snap`: snapshot every lane's report reader, then the aggregate's; output `snap <c0>,<c1>,… agg=<a>` (command counts). -/

def invalidBody (b : Nat) : Bool := decide (900000 ≤ b)

def mkCfg (n k : Nat) : Cfg :=
  { known := List.range n, mapLanes := (List.range n).filter (fun l => decide (n ≤ l + k)), invalid := invalidBody }

structure Sys where
  cfg : Cfg := { known := [] }
  st : St := {}

def Req.render : Req → String
  | .command _ b => s!"cmd:{b}"
  | .sync r => s!"sync:{r}"

def parseEnv : List String → Option Env
  | ["cmd", b] => b.toNat?.map .command
  | ["link"] => some .link
  | ["sync"] => some .sync
  | ["unlink"] => some .unlink
  | _ => none

def takeN (c : Cfg) : Nat → Nat → St → List Req → St × List Req
  | 0, _, s, acc => (s, acc)
  | n + 1, l, s, acc =>
    match (s.sender l).chan with
    | [] => (s, acc)
    | q :: _ => takeN c n l (step c s (.take l)) (acc ++ [q])

def renderReqs (qs : List String) : String := if qs.isEmpty then "-" else ",".intercalate qs

def stepLine (y : Sys) (line : String) : Sys × String :=
  match words line with
  | "new" :: n :: rest => match n.toNat? with
    | some n => ({ cfg := mkCfg n (((rest.drop 1).headD "0").toNat?.getD 0), st := {} }, "ok")
    | none => (y, "bad-op")
  | "send" :: r :: l :: rest => match r.toNat?, l.toNat?, parseEnv rest with
    | some r, some l, some e =>
      ({ y with st := run y.cfg y.st [.send r l e, .pick r, .idle] }, "ok")
    | _, _, _ => (y, "bad-op")
  | ["take", l, n] => match l.toNat?, n.toNat? with
    | some l, some n =>
      let x := takeN y.cfg n l y.st []
      ({ y with st := x.1 }, "got " ++ renderReqs (x.2.map Req.render))
    | _, _ => (y, "bad-op")
  | ["drain"] =>
    let x := y.cfg.known.foldl (fun (acc : St × List String) l =>
      let t := takeN y.cfg ((acc.1.sender l).chan.length) l acc.1 []
      (t.1, acc.2 ++ t.2.map (fun q => s!"{l}:{q.render}"))) (y.st, [])
    ({ y with st := x.1 }, "all " ++ renderReqs x.2)
  | ["snap"] =>
    let counts := y.cfg.known.map y.st.laneCount
    let s := run y.cfg y.st (y.cfg.known.map Op.snapLane ++ [.snapAgg])
    ({ y with st := s }, s!"snap {natsToString counts} agg={y.st.aggCount}")
  | _ => (y, "bad-op")

/-! ### Observable-level monitor
Bodies are unique per case, so a forwarded command identifies its envelope. Per `(remote, lane)` the monitor keeps the
requests sent and not yet seen at the lane, oldest first. A request read from lane `l` must be the OLDEST outstanding
request of its remote for `l` (exactly once, per-remote order, right lane, nothing merged or invented); after a
`drain` nothing may be outstanding for an existing lane (nothing stranded in a sender's buffer).

Command counters (C20, reasons `command-count-*`): the monitor counts the command envelopes sent to each existing lane
(accepted or rejected by the lane's sender alike) and sums the snapshots. A counter never reports more than was
received; at a quiescent snapshot (everything sent has been processed: every `send` settled on unbounded lane buffers,
or a `drain` since the last racing `send`) the sum of a lane's snapshots equals the commands received for it, the
aggregate's the commands received for all existing lanes — so lanes and aggregate agree. -/

def bumpAt : Nat → List Nat → List Nat
  | _, [] => []
  | 0, x :: rest => (x + 1) :: rest
  | i + 1, x :: rest => x :: bumpAt i rest

def addLists : List Nat → List Nat → List Nat
  | x :: xs, y :: ys => (x + y) :: addLists xs ys
  | _, _ => []

/-- first index where the lists differ in the given direction -/
def anyGt : List Nat → List Nat → Bool
  | x :: xs, y :: ys => decide (x > y) || anyGt xs ys
  | _, _ => false

structure Mon where
  nlanes : Nat := 0
  nmaps : Nat := 0
  racing : Bool := false          -- lane buffers may fill up: the read task can be blocked after a settled `send`
  unsettled : Bool := false       -- something sent may not have been processed yet
  recvLane : List Nat := []       -- commands sent to each existing lane
  seenLane : List Nat := []       -- sum of the lane's snapshots
  recvAgg : Nat := 0
  seenAgg : Nat := 0
  outstanding : List (Nat × Nat × String) := []   -- (remote, lane, rendered request), in send order

/-- remove the first outstanding entry of `(r, l)` if it is `q`; `none` if the oldest entry of `(r, l)` differs -/
def popOldest (r l : Nat) (q : String) : List (Nat × Nat × String) → Option (List (Nat × Nat × String))
  | [] => none
  | e :: rest =>
    if e.1 = r ∧ e.2.1 = l then (if e.2.2 = q then some rest else none)
    else (popOldest r l q rest).map (e :: ·)

/-- who sent request `q` (any lane)? -/
def ownerOf (q : String) : List (Nat × Nat × String) → Option (Nat × Nat)
  | [] => none
  | e :: rest => if e.2.2 = q then some (e.1, e.2.1) else ownerOf q rest

/-- who sent request `q` for lane `l`? (a `sync:<r>` may be outstanding on several lanes) -/
def ownerOn (q : String) (l : Nat) : List (Nat × Nat × String) → Option Nat
  | [] => none
  | e :: rest => if e.2.2 = q ∧ e.2.1 = l then some e.1 else ownerOn q l rest

def Mon.see (m : Mon) (l : Nat) (q : String) : Mon × Option String :=
  match ownerOn q l m.outstanding with
  | some r =>
    match popOldest r l q m.outstanding with
    | some o => ({ m with outstanding := o }, none)
    | none => (m, some "command-dropped-or-reordered-for-a-remote")
  | none =>
    match ownerOf q m.outstanding with
    | none => (m, some "command-forwarded-twice-or-invented")
    | some _ => (m, some "command-forwarded-to-wrong-lane")

def Mon.seeAll (m : Mon) : List (Nat × String) → Mon × Option String
  | [] => (m, none)
  | (l, q) :: rest =>
    match m.see l q with
    | (m', none) => m'.seeAll rest
    | (m', some e) => (m', some e)

def Mon.step (m : Mon) (line : String) (out : String) : Mon × Option String :=
  let ws := words line
  let ws := match ws with
    | "!send" :: rest => "send" :: rest
    | _ => ws
  match ws with
  | "new" :: n :: rest =>
    let n := n.toNat?.getD 0
    ({ nlanes := n, nmaps := ((rest.drop 1).headD "0").toNat?.getD 0,
       racing := decide (((rest.headD "65536").toNat?.getD 65536) < 65536),
       recvLane := List.replicate n 0, seenLane := List.replicate n 0 }, none)
  | "send" :: r :: l :: rest => match r.toNat?, l.toNat?, parseEnv rest with
    | some r, some l, some e =>
      if l < m.nlanes then
        let m1 := { m with unsettled := m.unsettled || m.racing || (words line).head? == some "!send" }
        let m2 := match e with
          | .command _ => { m1 with recvLane := bumpAt l m1.recvLane, recvAgg := m1.recvAgg + 1 }
          | _ => m1
        match reqOf (mkCfg m.nlanes m.nmaps) l r e with
        | some q => ({ m2 with outstanding := m2.outstanding ++ [(r, l, q.render)] }, none)
        | none => (m2, none)
      else (m, none)
    | _, _, _ => (m, some "unparsable")
  | ["snap"] =>
    match words out with
    | ["snap", cs, agg] =>
      let counts := if cs = "-" then some [] else (cs.splitOn ",").mapM String.toNat?
      match counts, ((agg.drop 4).toString).toNat? with
      | some counts, some a =>
        if counts.length ≠ m.nlanes then (m, some "unparsable") else
        let m' := { m with seenLane := addLists m.seenLane counts, seenAgg := m.seenAgg + a }
        if anyGt m'.seenLane m'.recvLane then (m', some "command-count-lane-exceeds-received")
        else if m'.seenAgg > m'.recvAgg then (m', some "command-count-aggregate-exceeds-received")
        else if m'.unsettled then (m', none)
        else if anyGt m'.recvLane m'.seenLane then (m', some "command-count-lane-lost")
        else if m'.seenAgg < m'.recvAgg then (m', some "command-count-aggregate-lost")
        else (m', none)
      | _, _ => (m, some "unparsable")
    | _ => (m, some "unparsable")
  | ["take", l, _] => match l.toNat?, words out with
    | some l, ["got", out] =>
      if out = "-" then (m, none)
      else m.seeAll ((out.splitOn ",").map (fun q => (l, q)))
    | _, _ => (m, some "unparsable")
  | ["drain"] =>
    let out := ((words out).drop 1).headD "?"
    let items := if out = "-" then some [] else
      (out.splitOn ",").mapM (fun x => match x.splitOn ":" with
        | l :: rest => l.toNat?.map (fun l => (l, ":".intercalate rest))
        | _ => none)
    match items with
    | none => (m, some "unparsable")
    | some items =>
      match m.seeAll items with
      | (m', some e) => (m', some e)
      | (m', none) =>
        if m'.outstanding.isEmpty then ({ m' with unsettled := false }, none)
        else (m', some "command-stranded-at-quiescence")
  | _ => (m, some "unparsable")

end SwimVerif.RF
