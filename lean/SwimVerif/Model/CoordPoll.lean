/-
C17, below the granularity of `Model/TimeoutCoord.lean`: the wake-up handshake between `Voter::vote` and
`Receiver::poll` (`runtime/swimos_runtime/src/timeout_coord/mod.rs`), every memory operation its own atomic step.

* `vote` = `flags.fetch_or(flag)` (step `fetchOr i`), and — only if `before == inverse`, i.e. this very `fetch_or` set
  the last flag — `waker.wake()` as a SEPARATE later step (`wake i`; until then the voter "owes" the wake-up);
* `rescind` = the CAS that clears the flag, which cannot succeed once every flag is set;
* `Receiver::poll` = `flags.load` (`load1`: all set ⇒ `Ready`) ; `waker.register(cx.waker())` (`register`) ;
  `flags.load` again (`load2`: all set ⇒ `Ready`, else `Pending`). With `twoLoads = false` the second load is left out
  (the seeded change r3m1): `register` goes straight to `Pending`.
* `AtomicWaker` is trusted to be linearizable: `register` stores the waker, `wake` takes the stored waker (if any) and
  wakes it. `woken` = the waker stored by the receiver's last `register` has been woken.
An execution is any interleaving (`List Ev`) of these steps; `repoll` = the receiver is polled again (woken or
spuriously).
-/
import SwimVerif.Model.Util

namespace SwimVerif.CoordPoll

inductive RPC | idle | loaded | registered | pending | ready
  deriving DecidableEq, Repr

structure St where
  twoLoads : Bool
  bits : List Bool          -- `Inner.flags`, one flag per party
  owes : List Bool          -- the party's `fetch_or` set the last flag and its `waker.wake()` is still to come
  slot : Bool := false      -- a waker is stored in the `AtomicWaker`
  woken : Bool := false
  rpc : RPC := .idle
  deriving Repr

def init (n : Nat) (twoLoads : Bool) : St :=
  { twoLoads := twoLoads, bits := List.replicate n false, owes := List.replicate n false }

def allSet (s : St) : Bool := s.bits.all id
def anyOwes (s : St) : Bool := s.owes.any id

inductive Ev
  | fetchOr (i : Nat) | wake (i : Nat) | rescind (i : Nat)
  | load1 | register | load2 | repoll
  deriving DecidableEq, Repr

def step (s : St) : Ev → St
  | .fetchOr i =>
    if i < s.bits.length && !(s.bits.getD i false) then
      if (s.bits.set i true).all id then { s with bits := s.bits.set i true, owes := s.owes.set i true }
      else { s with bits := s.bits.set i true }
    else s
  | .wake i =>
    if s.owes.getD i false then
      if s.slot then { s with owes := s.owes.set i false, slot := false, woken := true }
      else { s with owes := s.owes.set i false }
    else s
  | .rescind i =>
    if i < s.bits.length && s.bits.getD i false && !(allSet s) then { s with bits := s.bits.set i false } else s
  | .load1 =>
    if s.rpc = .idle then (if allSet s then { s with rpc := .ready } else { s with rpc := .loaded }) else s
  | .register =>
    if s.rpc = .loaded then
      { s with slot := true, woken := false, rpc := if s.twoLoads then .registered else .pending }
    else s
  | .load2 =>
    if s.rpc = .registered then (if allSet s then { s with rpc := .ready } else { s with rpc := .pending }) else s
  | .repoll => if s.rpc = .pending then { s with rpc := .idle } else s

def run (s : St) (evs : List Ev) : St := evs.foldl step s

end SwimVerif.CoordPoll
