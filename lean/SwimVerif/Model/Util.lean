/-
Shared helpers for the line protocol (hex bytes, tokenising). Import-free so that the driver links.
-/
namespace SwimVerif

def hexDigit (n : Nat) : Char := if n < 10 then Char.ofNat (48 + n) else Char.ofNat (87 + n)

/-- Lower-case hex of a byte list; the empty list is written `-` so that every field is non-empty. -/
def hexOfBytes (bs : List Nat) : String :=
  if bs.isEmpty then "-" else
  String.ofList (bs.flatMap fun b => [hexDigit (b / 16 % 16), hexDigit (b % 16)])

def hexVal (c : Char) : Option Nat :=
  if '0' ≤ c ∧ c ≤ '9' then some (c.toNat - 48)
  else if 'a' ≤ c ∧ c ≤ 'f' then some (c.toNat - 87) else none

def bytesOfHexAux : List Char → Option (List Nat)
  | [] => some []
  | a :: b :: rest => do
      let x ← hexVal a; let y ← hexVal b; let r ← bytesOfHexAux rest
      pure ((x * 16 + y) :: r)
  | _ => none

def bytesOfHex (s : String) : Option (List Nat) :=
  if s == "-" then some [] else bytesOfHexAux s.toList

def words (s : String) : List String :=
  (s.trimAscii.toString.splitOn " ").filter (· ≠ "")

def natsToString (xs : List Nat) : String :=
  if xs.isEmpty then "-" else ",".intercalate (xs.map toString)

def boolBit (b : Bool) : String := if b then "1" else "0"

end SwimVerif
