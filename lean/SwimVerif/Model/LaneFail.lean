/-
C04, clause "when … a lane fails every open link is closed with unlinked": reference model + monitor for the `lanefail`
engine (`harness/core/src/bin/sv-lanefail.rs`), which runs the REAL runtime with a harness-implemented agent whose
lanes/stores break their output channel on scripted steps. What is modelled is the observable behaviour of the glue

  lane output channel → `ResponseReceiver::poll_next` (FramedRead + raw decoders) → `Failed::Lane | Failed::Store`
  → `WriteTaskEvents::select_next` → `WriteTaskEvent::LaneFailed | StoreFailed` → `remove_lane` → `unlinked`

together with what the read task (`read_task`, `LaneSender`) answers to later requests for such a lane. The harness lets
the runtime settle after every step, so for every step the frames each (remote, lane) pair receives are determined;
only the order between different pairs is not (hash-map iteration), hence: monitor, not textual model diff.

Behaviour pinned here (observed on the real code, see NOTES-C04x.md):
* an undecodable frame (bad tag, garbage, bad map operation, truncated frame at end of stream) on a LANE's channel:
  every linked remote gets exactly one `unlinked` (no body) for that lane, nothing else changes;
* the same on a STORE's channel: nothing is sent to anyone (`Failed::Store` only logs);
* a lane channel that ends cleanly (writer dropped) is NOT a failure: links stay registered until unlinked/stop;
* afterwards the lane name is still registered: `link` → `linked` (a link on which nothing will ever arrive),
  `sync`/`command` → forwarded to the lane's input and never answered; once the lane has dropped its input, the first
  `sync` (or map command) removes the lane from the read task (no answer) and later link/sync/unlink → `@laneNotFound`;
  a value/supply command instead leaves the name registered without a sender: every later envelope is ignored.
-/
import SwimVerif.Model.Util

namespace SwimVerif.LaneFail

structure Lane where
  name : String
  /-- 0 value, 1 map, 2 supply -/
  kind : Nat
  /-- plays the protocol and the runtime still reads its output -/
  alive : Bool := true
  /-- the lane still holds the reading end of its input channel -/
  inOpen : Bool := true
  /-- read task: 0 name and sender registered, 1 name registered but sender removed (envelopes ignored),
      2 name removed (lane not found) -/
  handle : Nat := 0
  /-- its output failed or ended on purpose -/
  broken : Bool := false
  cur : Nat := 0
  /-- map lanes: keys (value = key), ascending like the harness's `BTreeMap` -/
  keys : List Nat := []
  deriving Repr

/-- an expected frame: (remote, lane), text after `r<r>:<lane>:`, optional? -/
structure Exp where
  r : Nat
  lane : String
  what : String
  opt : Bool := false
  deriving Repr

structure Mon where
  started : Bool := false
  lanes : List Lane := []
  /-- (name, the runtime still reads it) -/
  stores : List (String × Bool) := []
  /-- open links (remote, lane) -/
  links : List (Nat × String) := []
  /-- pairs closed by a lane failure and not linked again since -/
  closedByFailure : List (Nat × String) := []
  stopped : Bool := false
  deriving Repr

def kindOf (name : String) : Nat :=
  match name.toList.head? with
  | some 'm' => 1
  | some 's' => 2
  | _ => 0

def insertKey (k : Nat) : List Nat → List Nat
  | [] => [k]
  | x :: xs => if k < x then k :: x :: xs else if k = x then x :: xs else x :: insertKey k xs

def Mon.lane? (m : Mon) (name : String) : Option Lane := m.lanes.find? (·.name = name)

def Mon.setLane (m : Mon) (l : Lane) : Mon :=
  { m with lanes := m.lanes.map fun x => if x.name = l.name then l else x }

def Mon.linked (m : Mon) (r : Nat) (lane : String) : Bool := m.links.contains (r, lane)

def Mon.addLink (m : Mon) (r : Nat) (lane : String) : Mon :=
  { m with links := if m.links.contains (r, lane) then m.links else m.links ++ [(r, lane)],
           closedByFailure := m.closedByFailure.filter (· != (r, lane)) }

def Mon.remLink (m : Mon) (r : Nat) (lane : String) : Mon :=
  { m with links := m.links.filter (· != (r, lane)) }

/-- the remotes linked to `lane`, in link order -/
def Mon.remotesOf (m : Mon) (lane : String) : List Nat := (m.links.filter (·.2 = lane)).map (·.1)

def ev (n : Nat) : String := "ev:" ++ toString n

/-- broadcast of one event of `lane` -/
def Mon.broadcast (m : Mon) (lane : String) (n : Nat) (opt : Bool := false) : List Exp :=
  (m.remotesOf lane).map fun r => { r := r, lane := lane, what := ev n, opt := opt }

def Lane.publish (l : Lane) (n : Nat) : Lane :=
  if l.kind = 1 then { l with keys := insertKey n l.keys } else { l with cur := n }

/-- the lane's answer to a sync request of remote `r` -/
def syncFrames (l : Lane) (r : Nat) (linked : Bool) : List Exp :=
  let mk (w : String) : Exp := { r := r, lane := l.name, what := w }
  (if linked then [] else [mk "linked"]) ++
  (if l.kind = 0 then [mk (ev l.cur)] else if l.kind = 1 then l.keys.map (fun k => mk (ev k)) else []) ++
  [mk "synced"]

def nf (r : Nat) (lane : String) : Exp := { r := r, lane := lane, what := "unl:nf" }

/-- byte-level failures: the decoder reports an error -/
def byteLevel (how : String) : Bool := ["tag", "garbage", "inner", "keysz", "trunc"].contains how

def storeHow (how : String) : Bool := ["tag", "garbage", "inner", "trunc", "drop"].contains how

def flagPre (flags : List String) : Option Nat :=
  (flags.find? (·.startsWith "pre=")).bind fun f => (f.drop 4).toString.toNat?

/-- What a step does: the new state, the frames expected during the step, the store operations expected, and whether the
step is a request addressed to a lane whose output was broken before (for the reason given on a mismatch). -/
structure Eff where
  m : Mon
  exp : List Exp := []
  st : List String := []
  later : Bool := false
  isFail : Bool := false
  isStop : Bool := false
  bad : Bool := false

def Mon.apply (m : Mon) (op : List String) : Eff :=
  match op with
  | ["link", rs, lane] =>
    let r := rs.toNat?.getD 0
    match m.lane? lane with
    | none => { m := m, exp := [nf r lane] }
    | some l =>
      let later := l.broken
      if l.handle = 0 then { m := m.addLink r lane, exp := [{ r := r, lane := lane, what := "linked" }], later := later }
      else if l.handle = 1 then { m := m, later := later }
      else { m := m, exp := [nf r lane], later := later }
  | ["sync", rs, lane] =>
    let r := rs.toNat?.getD 0
    match m.lane? lane with
    | none => { m := m, exp := [nf r lane] }
    | some l =>
      let later := l.broken
      if l.handle = 2 then { m := m, exp := [nf r lane], later := later }
      else if l.handle = 1 then { m := m, later := later }
      else if !l.inOpen then { m := m.setLane { l with handle := 2 }, later := later }
      else if l.alive then { m := m.addLink r lane, exp := syncFrames l r (m.linked r lane), later := later }
      else { m := m, later := later }
  | ["cmd", _, lane, ns] =>
    let n := ns.toNat?.getD 0
    match m.lane? lane with
    | none => { m := m }
    | some l =>
      let later := l.broken
      if l.handle != 0 then { m := m, later := later }
      else if !l.inOpen then { m := m.setLane { l with handle := if l.kind = 1 then 2 else 1 }, later := later }
      else if l.alive then { m := m.setLane (l.publish n), exp := m.broadcast lane n, later := later }
      else { m := m, later := later }
  | ["unlink", rs, lane] =>
    let r := rs.toNat?.getD 0
    match m.lane? lane with
    | none => { m := m, exp := [nf r lane] }
    | some l =>
      let later := l.broken
      if l.handle = 2 then { m := m, exp := [nf r lane], later := later }
      else if l.handle = 1 then { m := m, later := later }
      else if m.linked r lane then
        { m := m.remLink r lane, exp := [{ r := r, lane := lane, what := "unl:closed" }], later := later }
      else { m := m, later := later }
  | ["ev", lane, ns] =>
    let n := ns.toNat?.getD 0
    match m.lane? lane with
    | none => { m := m }
    | some l => if l.alive then { m := m.setLane (l.publish n), exp := m.broadcast lane n } else { m := m }
  | ["sev", store, ns] =>
    match m.stores.find? (·.1 = store) with
    | some (_, true) =>
      { m := m, st := [if kindOf store = 1 then s!"{store}:upd:{ns}:{ns}" else s!"{store}:put:{ns}"] }
    | _ => { m := m }
  | "fail" :: lane :: how :: flags =>
    if !(byteLevel how || how = "dropw" || how = "drop") then { m := m, bad := true } else
    match m.lane? lane with
    | none => { m := m, isFail := true }
    | some l =>
      if !l.alive then { m := m, isFail := true } else
      let close := flags.contains "close" || how = "drop"
      let pre := flagPre flags
      let l1 := match pre with | some n => l.publish n | none => l
      let l2 := { l1 with alive := false, broken := true, inOpen := !close }
      if byteLevel how then
        let rs := m.remotesOf lane
        let pres := match pre with | some n => m.broadcast lane n true | none => []
        { m := { (m.setLane l2) with links := m.links.filter (·.2 != lane),
                                      closedByFailure := m.closedByFailure ++ rs.map (fun r => (r, lane)) },
          exp := pres ++ rs.map (fun r => { r := r, lane := lane, what := "unl:none" }),
          isFail := true }
      else
        -- clean end of the stream: not a failure, the links stay
        { m := m.setLane l2, exp := (match pre with | some n => m.broadcast lane n | none => []), isFail := true }
  | ["sfail", store, how] =>
    if !storeHow how then { m := m, bad := true } else
    { m := { m with stores := m.stores.map fun s => if s.1 = store then (s.1, false) else s }, isFail := true }
  | ["wait"] => { m := m }
  | ["stop"] =>
    { m := { m with links := [], stopped := true },
      exp := m.links.map (fun p => { r := p.1, lane := p.2, what := "unl:none" }), isStop := true }
  | _ => { m := m, bad := true }

/-! matching the frames observed during a step against the expectations -/

/-- `r<r>:<lane>:<what…>` -/
def parseFrame (s : String) : Option (Nat × String × String) :=
  match s.splitOn ":" with
  | rs :: lane :: rest =>
    if rs.startsWith "r" ∧ !rest.isEmpty then
      match (rs.drop 1).toString.toNat? with
      | some r => some (r, lane, ":".intercalate rest)
      | none => none
    else none
  | _ => none

/-- Consume the observed frame: the first expectation of its pair must be it (optional ones may be skipped).
`none` = not expected. -/
def consume (r : Nat) (lane what : String) : List Exp → Option (List Exp)
  | [] => none
  | e :: rest =>
    if e.r = r ∧ e.lane = lane then
      if e.what = what then some rest
      else if e.opt then consume r lane what rest
      else none
    else (consume r lane what rest).map (e :: ·)

def fieldOf (ws : List String) (k : String) : Option String :=
  (ws.find? (·.startsWith (k ++ "="))).map fun w => (w.drop (k.length + 1)).toString

def splitList (s : String) : List String := if s = "-" then [] else s.splitOn ","

def reasonUnexpected (e : Eff) (before : Mon) (r : Nat) (lane what : String) : String :=
  if e.later then "lanefail-later-request-answer"
  else if before.closedByFailure.contains (r, lane) ∧ !before.linked r lane then "lanefail-frame-after-unlinked"
  else if what.startsWith "unl" then "lanefail-unexpected-unlinked"
  else "lanefail-unexpected-frame"

def reasonMissing (e : Eff) (x : Exp) : String :=
  if e.isFail ∧ x.what = "unl:none" then "lanefail-no-unlinked"
  else if e.isStop then "lanefail-link-left-open-at-stop"
  else if e.later then "lanefail-later-request-answer"
  else "lanefail-frame-missing"

def matchFrames (e : Eff) (before : Mon) : List String → List Exp → Option String
  | [], exp => (exp.find? (!·.opt)).map (reasonMissing e)
  | f :: fs, exp =>
    match parseFrame f with
    | none => some "lanefail-unparsable-frame"
    | some (r, lane, what) =>
      if what = "decode-error" then some "lanefail-frame-decode-error" else
      match consume r lane what exp with
      | some exp' => matchFrames e before fs exp'
      | none => some (reasonUnexpected e before r lane what)

def parseNew (lanes stores : String) : Mon :=
  { started := true,
    lanes := (splitList lanes).map (fun n => { name := n, kind := kindOf n }),
    stores := (splitList stores).map (fun n => (n, true)) }

def Mon.step (m : Mon) (line : String) (out : String) : Mon × Option String :=
  let ws := words out
  match words line with
  | ["new", lanes, stores] => if out = "ok" then (parseNew lanes stores, none) else (m, some "lanefail-run-bad-new")
  | ["end"] => (m, some ("lanefail-run-" ++ ws.headD "failed"))
  | ["init"] => (m, some ("lanefail-run-" ++ ws.headD "failed"))
  | op =>
    if !m.started then (m, some "lanefail-run-no-new") else
    if out = "agent-gone" then (m, if m.stopped then none else some "lanefail-run-agent-gone") else
    if m.stopped then (m, some "lanefail-run-op-after-stop") else
    let e := m.apply op
    if e.bad ∨ out = "bad-op" then (m, some "lanefail-unparsable-op") else
    match fieldOf ws "f", fieldOf ws "st" with
    | some f, some st =>
      match matchFrames e m (splitList f) e.exp with
      | some why => (e.m, some why)
      | none =>
        if splitList st != e.st then (e.m, some "lanefail-store-persistence")
        else if e.isStop then
          if fieldOf ws "ended" != some "ok" then (e.m, some "lanefail-run-not-ended-ok")
          else if (splitList ((fieldOf ws "d").getD "-")).any (fun d => !d.endsWith ":AgentStoppedExternally") then
            (e.m, some "lanefail-disconnect-reason")
          else (e.m, none)
        else (e.m, none)
    | _, _ => (m, some "lanefail-unparsable-output")

end SwimVerif.LaneFail
