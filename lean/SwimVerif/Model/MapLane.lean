/-
Agent side of a map lane (C02, C03): `EventQueue<K, ()>` (`event_queue/mod.rs`: `events`, `head_epoch`,
`epoch_map`, wrapping epoch arithmetic), `WriteQueues` (`lanes/queues/mod.rs`: event queue + per-remote sync
snapshots + the event/sync alternation), `MapStoreInner` (`map_storage/mod.rs`: update / remove / clear push key-only
actions; the value is read at pop time) and `MapLane::{sync, write_to_buffer}`, `drop_or_take`.
Keys and values are numbers; the map is kept sorted by key (the harness uses the `BTreeMap` backing, whose key order
is the order `sync` snapshots the keys in).
-/
import SwimVerif.Model.AssocList
import SwimVerif.Model.Util

namespace SwimVerif.ML

inductive Act
  | upd (k : Nat)
  | rem (k : Nat)
  | clear
  deriving DecidableEq, Repr

def Act.key? : Act → Option Nat
  | .upd k => some k
  | .rem k => some k
  | .clear => none

def M64 : Nat := 18446744073709551616

/-- `EventQueue<K, ()>` -/
structure EQ where
  events : List Act := []
  head : Nat := 0                     -- `head_epoch`
  emap : List (Nat × Nat) := []       -- `epoch_map`
  deriving Repr

/-- index of the queued entry for key `k`, as `push` computes it (`epoch.wrapping_sub(head_epoch)`, `events.get_mut`) -/
def EQ.slot (q : EQ) (k : Nat) : Option Nat :=
  match alGet q.emap k with
  | some e => if (e + M64 - q.head) % M64 < q.events.length then some ((e + M64 - q.head) % M64) else none
  | none => none

def EQ.push (q : EQ) (a : Act) : EQ :=
  match a.key? with
  | none => { events := [.clear], head := 0, emap := [] }
  | some k =>
    match q.slot k with
    | some i => { q with events := q.events.set i a }
    | none => { q with events := q.events ++ [a], emap := alSet q.emap k ((q.head + q.events.length) % M64) }

def EQ.pop (q : EQ) : Option Act × EQ :=
  match q.events with
  | [] => (none, q)
  | a :: rest =>
    (some a, { events := rest, head := (q.head + 1) % M64,
               emap := (match a.key? with | some k => alErase q.emap k | none => q.emap) })

/-- `SyncQueue` -/
structure SyncQ where
  r : Nat                 -- remote
  keys : List Nat         -- keys still to send
  pending : Nat           -- events queued before the sync request and not yet emitted (`pending_events`)
  deriving Repr, DecidableEq

/-- `WriteQueues` -/
structure WQ where
  eq : EQ := {}
  syncs : List SyncQ := []               -- `sync_queues`
  syncIndex : Nat := 0
  nextIsEvent : Bool := true             -- `NextWrite.next`
  deriving Repr

inductive ToWrite
  | event (a : Act)
  | syncEvent (r k : Nat)
  | synced (r : Nat)
  deriving DecidableEq, Repr

def removeFirst (k : Nat) : List Nat → List Nat
  | [] => []
  | x :: xs => if x = k then xs else x :: removeFirst k xs

/-- `update_sync_queues` -/
def updateSyncs (syncs : List SyncQ) : Act → List SyncQ
  | .upd k => syncs.map (fun p => { p with keys := removeFirst k p.keys, pending := p.pending - 1 })
  | .rem k => syncs.map (fun p => { p with keys := removeFirst k p.keys, pending := p.pending - 1 })
  | .clear => syncs.map (fun p => { p with keys := [], pending := p.pending - 1 })

/-- `WriteQueues::pop` -/
def WQ.pop (w : WQ) : Option ToWrite × WQ :=
  let w1 := { w with nextIsEvent := !w.nextIsEvent }
  if (w.nextIsEvent && !w.eq.events.isEmpty) || w.syncs.isEmpty then
    match w.eq.pop with
    | (some a, eq') => (some (.event a), { w1 with eq := eq', syncs := updateSyncs w1.syncs a })
    | (none, _) => (none, w1)
  else
    match w.syncs[w.syncIndex]? with
    | some ⟨r, k :: ks, p⟩ =>
      (some (.syncEvent r k),
       { w1 with syncs := w.syncs.set w.syncIndex ⟨r, ks, p⟩, syncIndex := (w.syncIndex + 1) % w.syncs.length })
    | some ⟨r, [], p⟩ =>
      -- (after the `fix:`) the remote is not in sync until the events that preceded its request have been emitted
      (match (if p > 0 then w.eq.pop else (none, w.eq)) with
        | (some a, eq') => (some (.event a), { w1 with eq := eq', syncs := updateSyncs w1.syncs a })
        | (none, _) =>
          (some (.synced r),
           { w1 with syncs := w.syncs.eraseIdx w.syncIndex,
                     syncIndex := if w.syncIndex ≥ (w.syncs.eraseIdx w.syncIndex).length then 0 else w.syncIndex }))
    | none => (none, w1)

def WQ.isEmpty (w : WQ) : Bool := w.eq.events.isEmpty && w.syncs.isEmpty

inductive Frame
  | upd (k v : Nat)
  | rem (k : Nat)
  | clear
  | sync (r k v : Nat)
  | synced (r : Nat)
  deriving DecidableEq, Repr

structure St where
  content : List (Nat × Nat) := []      -- sorted by key
  wq : WQ := {}
  deriving Repr

def insertSorted (k v : Nat) : List (Nat × Nat) → List (Nat × Nat)
  | [] => [(k, v)]
  | (k', v') :: rest =>
    if k < k' then (k, v) :: (k', v') :: rest
    else if k = k' then (k, v) :: rest
    else (k', v') :: insertSorted k v rest

/-- `MapEventQueue::pop` for `WriteQueues`: skip actions/sync keys whose key has vanished (fuel-bounded loop). -/
def popFrame (content : List (Nat × Nat)) : Nat → WQ → Option Frame × WQ
  | 0, w => (none, w)
  | fuel + 1, w =>
    match w.pop with
    | (none, w') => (none, w')
    | (some (.event (.upd k)), w') =>
      (match alGet content k with
        | some v => (some (.upd k v), w')
        | none => popFrame content fuel w')
    | (some (.event (.rem k)), w') => (some (.rem k), w')
    | (some (.event .clear), w') => (some .clear, w')
    | (some (.syncEvent r k), w') =>
      (match alGet content k with
        | some v => (some (.sync r k v), w')
        | none => popFrame content fuel w')
    | (some (.synced r), w') => (some (.synced r), w')

def fuelFor (w : WQ) : Nat := 2 * (w.eq.events.length + (w.syncs.foldl (fun n p => n + p.keys.length + 1) 0)) + 4

inductive Op
  | update (k v : Nat)
  | remove (k : Nat)
  | clear
  | sync (r : Nat)
  | write
  | dropFirst (n : Nat)     -- `MapMessage::Drop(n)`: remove the first `n` keys (in key order)
  | takeFirst (n : Nat)     -- `MapMessage::Take(n)`: keep the first `n` keys
  deriving Repr

def pushAct (s : St) (a : Act) : St := { s with wq := { s.wq with eq := s.wq.eq.push a } }

def doRemove (s : St) (k : Nat) : St :=
  match alGet s.content k with
  | some _ => pushAct { s with content := alErase s.content k } (.rem k)
  | none => s

inductive WriteResult | done | more | noData
  deriving DecidableEq, Repr

def step (s : St) : Op → St × Option (WriteResult × Option Frame)
  | .update k v => (pushAct { s with content := insertSorted k v s.content } (.upd k), none)
  | .remove k => (doRemove s k, none)
  | .clear => (pushAct { s with content := [] } .clear, none)
  | .sync r =>
    ({ s with wq := { s.wq with syncs := s.wq.syncs ++ [⟨r, s.content.map (·.1), s.wq.eq.events.length⟩] } }, none)
  | .write =>
    let x := popFrame s.content (fuelFor s.wq) s.wq
    match x.1 with
    | some f => ({ s with wq := x.2 }, some (if x.2.isEmpty then .done else .more, some f))
    | none => ({ s with wq := x.2 }, some (.noData, none))
  | .dropFirst n => (((s.content.map (·.1)).take n).foldl doRemove s, none)
  | .takeFirst n => (((s.content.map (·.1)).drop n).foldl doRemove s, none)

def run (s : St) (ops : List Op) : St := ops.foldl (fun s op => (step s op).1) s

/-! line protocol -/

def Frame.render : Frame → String
  | .upd k v => s!"ev:upd:{k}:{v}"
  | .rem k => s!"ev:rem:{k}"
  | .clear => "ev:clr"
  | .sync r k v => s!"sync:{r}:{k}:{v}"
  | .synced r => s!"synced:{r}"

def WriteResult.render : WriteResult → String
  | .done => "done" | .more => "more" | .noData => "nodata"

def parseOp (line : String) : Option Op :=
  match words line with
  | ["upd", k, v] => match k.toNat?, v.toNat? with
    | some k, some v => some (.update k v)
    | _, _ => none
  | ["rem", k] => k.toNat?.map .remove
  | ["clr"] => some .clear
  | ["sync", r] => r.toNat?.map .sync
  | ["write"] => some .write
  | ["drop", n] => n.toNat?.map .dropFirst
  | ["take", n] => n.toNat?.map .takeFirst
  | _ => none

def renderMap (m : List (Nat × Nat)) : String :=
  if m.isEmpty then "-" else ",".intercalate (m.map fun p => s!"{p.1}={p.2}")

def stepLine (s : St) (line : String) : St × String :=
  match words line with
  | ["new"] => ({}, "ok")
  | ["map"] => (s, renderMap s.content)
  | _ => match parseOp line with
    | some op =>
      let x := step s op
      (x.1, match x.2 with
        | some (r, some f) => s!"{r.render} {f.render}"
        | some (r, none) => s!"{r.render} -"
        | none => "ok")
    | none => (s, "bad-op")

end SwimVerif.ML

namespace SwimVerif.ML

/-! ### Observable-level monitor (C02 agent side, C03 lane level) -/

structure Pending where
  r : Nat
  linkedRep : List (Nat × Nat)           -- replica of a remote that was linked all along (starts as the observers' replica)
  freshRep : List (Nat × Nat)            -- replica of a remote that held nothing before
  allowed : List (Nat × List (Option Nat))   -- per key: every value (or absence) the lane held since the sync request
  deriving Repr

structure Mon where
  cur : List (Nat × Nat) := []           -- reference: the lane's map
  rep : List (Nat × Nat) := []           -- replica of an observer linked from the start (all standard events)
  pend : List Pending := []
  keysSeen : List Nat := []
  deriving Repr

def allowedOf (p : Pending) (k : Nat) : List (Option Nat) := (alGet p.allowed k).getD [none]

def Pending.note (p : Pending) (k : Nat) (v : Option Nat) : Pending :=
  { p with allowed := alSet p.allowed k (allowedOf p k ++ [v]) }

def Mon.change (m : Mon) (k : Nat) (v : Option Nat) : Mon :=
  { m with pend := m.pend.map (fun p => p.note k v),
           keysSeen := if m.keysSeen.contains k then m.keysSeen else m.keysSeen ++ [k] }

def applyFrame (rep : List (Nat × Nat)) : Frame → List (Nat × Nat)
  | .upd k v => insertSorted k v rep
  | .rem k => alErase rep k
  | .clear => []
  | .sync _ k v => insertSorted k v rep
  | .synced _ => rep

def parseFrame (s : String) : Option Frame :=
  match s.splitOn ":" with
  | ["ev", "upd", k, v] => match k.toNat?, v.toNat? with
    | some k, some v => some (.upd k v)
    | _, _ => none
  | ["ev", "rem", k] => k.toNat?.map .rem
  | ["ev", "clr"] => some .clear
  | ["sync", r, k, v] => match r.toNat?, k.toNat?, v.toNat? with
    | some r, some k, some v => some (.sync r k v)
    | _, _, _ => none
  | ["synced", r] => r.toNat?.map .synced
  | _ => none

def consistent (p : Pending) (rep : List (Nat × Nat)) (keys : List Nat) : Bool :=
  keys.all (fun k => (allowedOf p k).contains (alGet rep k))

def Mon.step (m : Mon) (line : String) (out : String) : Mon × Option String :=
  match words line with
  | ["new"] => ({}, none)
  | ["map"] => (m, if out = renderMap m.cur then none else some "lane-map-differs-from-reference")
  | _ =>
    match parseOp line with
    | none => (m, some "unparsable")
    | some op =>
      match op with
      | .update k v => ((({ m with cur := insertSorted k v m.cur }).change k (some v)), none)
      | .remove k =>
        if (alGet m.cur k).isSome then ((({ m with cur := alErase m.cur k }).change k none), none) else (m, none)
      | .clear =>
        let m1 := m.cur.foldl (fun (acc : Mon) p => acc.change p.1 none) m
        ({ m1 with cur := [] }, none)
      | .dropFirst n =>
        let ks := (m.cur.map (·.1)).take n
        (ks.foldl (fun (acc : Mon) k => ({ acc with cur := alErase acc.cur k }).change k none) m, none)
      | .takeFirst n =>
        let ks := (m.cur.map (·.1)).drop n
        (ks.foldl (fun (acc : Mon) k => ({ acc with cur := alErase acc.cur k }).change k none) m, none)
      | .sync r =>
        ({ m with pend := m.pend ++ [{ r := r, linkedRep := m.rep, freshRep := [],
                                       allowed := m.cur.map (fun p => (p.1, [some p.2])) }] }, none)
      | .write =>
        match words out with
        | [res, f] =>
          if f = "-" then
            if res ≠ "nodata" then (m, some "write-result-wrong")
            else if !m.pend.isEmpty then (m, some "sync-request-never-answered")
            else if m.rep ≠ m.cur then (m, some "map-replica-diverged")
            else (m, none)
          else
            match parseFrame f with
            | none => (m, some "unparsable-frame")
            | some fr =>
              match fr with
              | .upd k v =>
                if alGet m.cur k ≠ some v then (m, some "map-event-value-not-current")
                else ({ m with rep := applyFrame m.rep fr,
                               pend := m.pend.map (fun p => { p with linkedRep := applyFrame p.linkedRep fr,
                                                                       freshRep := applyFrame p.freshRep fr }) }, none)
              | .rem _ | .clear =>
                ({ m with rep := applyFrame m.rep fr,
                          pend := m.pend.map (fun p => { p with linkedRep := applyFrame p.linkedRep fr,
                                                                  freshRep := applyFrame p.freshRep fr }) }, none)
              | .sync r k v =>
                if alGet m.cur k ≠ some v then (m, some "sync-event-value-not-current")
                else if !(m.pend.any (·.r = r)) then (m, some "sync-event-for-no-request")
                else
                  -- the oldest request of `r` is the one being served
                  let rec upd : List Pending → List Pending
                    | [] => []
                    | p :: ps => if p.r = r then { p with linkedRep := applyFrame p.linkedRep fr,
                                                           freshRep := applyFrame p.freshRep fr } :: ps
                                 else p :: upd ps
                  ({ m with pend := upd m.pend }, none)
              | .synced r =>
                match m.pend.find? (·.r = r) with
                | none => (m, some "synced-without-request")
                | some p =>
                  let m' := { m with pend := m.pend.eraseP (·.r = r) }
                  if !(consistent p p.freshRep m.keysSeen) then (m', some "snapshot-inconsistent-fresh-remote")
                  else if !(consistent p p.linkedRep m.keysSeen) then (m', some "snapshot-inconsistent-linked-remote")
                  else (m', none)
        | _ => (m, some "unparsable")

end SwimVerif.ML
