/-
Model of the downlink runtime (`swimos_runtime::downlink`, C07): one shared connection to a remote lane, any
number of consumers.

* `read_task` — `RSt`/`rstep`: `dl_state`, `awaiting_linked`, `awaiting_synced`, `registered`, `current`,
  `sync_event`, `SINGLE_FRAME_STATE` (`sync_current` vs `sync_only`), `is_active` (the "no consumers" timeout is
  armed ⇔ `task_state` is `Some`; armed only when all three lists are empty), removal of consumers whose channel failed, `unlink` of everybody on exit.
  One `REv` = one iteration of the task's loop *including* the flush that the next iteration starts with
  (in lock-step the flush has always run before the next event is taken, see NOTES-C07.md).
* `write_task` — `WSt`/`wmicro`/`winput`: `send_link` before the loop, `Idle`/`Writing` × {`FLUSHED`,
  `NEEDS_SYNC`}, `write_direct` / `push_operation` / `prepare_write` / `has_data`, the value back-pressure
  (`current` + `pending`) and the map back-pressure (per-key coalescing queue, `mqPush` of `Model/WriteTask`),
  the `FramedWrite` buffer (`buf`) in front of the socket byte channel (`pipe`, `cap`). `feed` only encodes;
  a `send`/`flush` completes when `buf = 0`; the byte channel accepts `min buf (cap - pipe)` bytes per poll.
* `Sys` — both tasks plus the attachment task and the kill switch (`await_io_tasks`), the line protocol of the
  correspondence harness (`sv-c07`) and the observable-level monitor `Mon`.

Not modelled: the inactivity timeout firing and the vote (`timeout_coord`, C17) — `empty_timeout` never elapses;
a command written by a consumer whose registration the write task has not yet taken (enabling predicate);
undecodable consumer commands; consumer channels that are not drained (the harness always reads everything).
-/
import SwimVerif.Model.Util
import SwimVerif.Model.WriteTask
import SwimVerif.Generated.DownlinkConsts

namespace SwimVerif.DL

abbrev Bytes := List Nat
abbrev MapOp := WT.MapOp

/-! ## Read task -/

/-- Body of an event as forwarded to the consumers (value: raw bytes; map: the interpreted map message). -/
inductive Body
  | raw (b : Bytes)
  | upd (k : Nat) (v : Bytes)
  | rem (k : Nat)
  | clr
  | take (n : Nat)
  | drop (n : Nat)
  deriving DecidableEq, Repr

/-- `DownlinkNotification` as seen by a consumer; `eof` = its channel ended. -/
inductive Note
  | linked
  | synced
  | event (b : Body)
  | unlinked
  | eof
  deriving DecidableEq, Repr

inductive Dl | init | linked | synced
  deriving DecidableEq, Repr

/-- A consumer (`DownlinkSender`). -/
structure Consumer where
  id : Nat
  sync : Bool            -- `options.contains(SYNC)`
  keep : Bool            -- `options.contains(KEEP_LINKED)` (the result of `unlink` is discarded: no effect)
  deriving DecidableEq, Repr

/-- `Notification` from the remote lane; `badEvent` = an event whose body the interpretation rejects. -/
inductive RMsg
  | linked
  | synced
  | unlinked
  | event (b : Body)
  | badEvent
  deriving DecidableEq, Repr

inductive REv
  | attach (c : Consumer)     -- `ReadTaskEvent::NewConsumer`
  | msg (m : RMsg)            -- `ReadTaskEvent::Message`
  | stop                      -- `ConsumerChannelStopped` / `MessagesStopped` / `ReadFailed`
  | dropReader (c : Nat)      -- environment: the consumer dropped the reading half of its channel
  deriving DecidableEq, Repr

structure RSt where
  single : Bool               -- `I::SINGLE_FRAME_STATE`
  abort : Bool                -- the `BadFrameStrategy` answers `Abort`
  dl : Dl := .init
  current : Body := .raw []
  syncEvent : Bool := false
  timer : Bool := true        -- `task_state` is `Some(timeout)`, i.e. the next event is handled inactive
  aLinked : List Consumer := []
  aSynced : List Consumer := []
  reg : List Consumer := []
  dead : List Nat := []       -- consumers whose reader is gone (a `send`/non-empty `flush` to them fails)
  stopped : Bool := false
  deriving Repr

def rinit (single abort : Bool) : RSt := { single := single, abort := abort }

def RSt.alive (s : RSt) (c : Consumer) : Bool := !s.dead.contains c.id

/-- The same notifications to each of the consumers. -/
def notesTo (cs : List Consumer) (ns : List Note) : List (Nat × Note) :=
  cs.flatMap fun c => ns.map fun n => (c.id, n)

/-- Loop exit: `unlink(awaiting_linked); unlink(awaiting_synced); unlink(registered)`, then everything is dropped. -/
def unlinkAll (s : RSt) : RSt × List (Nat × Note) :=
  ({ s with aLinked := [], aSynced := [], reg := [], stopped := true },
   notesTo ((s.aLinked ++ s.aSynced ++ s.reg).filter s.alive) [.unlinked, .eof])

/-- `ReadTaskEvent::NewConsumer`. -/
def onAttach (s : RSt) (c : Consumer) : RSt × List (Nat × Note) :=
  match s.dl with
  | .init => ({ s with aLinked := s.aLinked ++ [c], timer := false }, [])
  | _ =>
    -- `send(Linked)` at once; then awaiting `synced` only if it asked for it (7d3b0a2), else registered
    if s.alive c then
      if c.sync then ({ s with aSynced := s.aSynced ++ [c], timer := false }, [(c.id, .linked)])
      else ({ s with reg := s.reg ++ [c], timer := false }, [(c.id, .linked)])
    else (s, [])

/-- `Notification::Linked`: `link(..)` if active. -/
def onLinked (s : RSt) : RSt × List (Nat × Note) :=
  if s.timer then ({ s with dl := .linked }, [])
  else
    ({ s with dl := .linked, aLinked := [],
              aSynced := s.aSynced ++ (s.aLinked.filter s.alive).filter (fun c => c.sync),
              reg := s.reg ++ (s.aLinked.filter s.alive).filter (fun c => !c.sync),
              timer := (s.aSynced ++ (s.aLinked.filter s.alive).filter (fun c => c.sync)).isEmpty
                        && (s.reg ++ (s.aLinked.filter s.alive).filter (fun c => !c.sync)).isEmpty },
     notesTo (s.aLinked.filter s.alive) [.linked])

/-- `Notification::Synced`: `sync_current` (value flavour, an event has been seen) or `sync_only`. -/
def onSynced (s : RSt) : RSt × List (Nat × Note) :=
  if s.timer then ({ s with dl := .synced }, [])
  else
    ({ s with dl := .synced, aSynced := [], reg := s.reg ++ s.aSynced.filter s.alive,
              timer := (s.reg ++ s.aSynced.filter s.alive).isEmpty && s.aLinked.isEmpty },
     notesTo (s.aSynced.filter s.alive)
       (if s.single && s.syncEvent then [.event s.current, .synced] else [.synced]))

/-- `send_current` to `registered` (and to `awaiting_synced` unless `SINGLE_FRAME_STATE`), followed by the
flush the next iteration starts with (consumers whose channel failed are dropped). -/
def dispatch (s : RSt) : RSt × List (Nat × Note) :=
  if s.timer then (s, [])
  else
    ({ s with reg := s.reg.filter s.alive,
              aSynced := if s.single then s.aSynced else s.aSynced.filter s.alive,
              timer := (s.reg.filter s.alive).isEmpty
                        && (if s.single then s.aSynced else s.aSynced.filter s.alive).isEmpty
                        && s.aLinked.isEmpty },
     notesTo (s.reg.filter s.alive) [.event s.current]
       ++ (if s.single then [] else notesTo (s.aSynced.filter s.alive) [.event s.current]))

def onMsg (s : RSt) : RMsg → RSt × List (Nat × Note)
  | .linked => onLinked s
  | .synced => onSynced s
  | .unlinked => unlinkAll s
  | .event b => dispatch { s with syncEvent := true, current := b }
  | .badEvent =>
    -- `current.clear()`, the interpretation fails: abort, or ignore the frame (`continue`, 47607a1)
    if s.abort then unlinkAll { s with syncEvent := true, current := .raw [] }
    else ({ s with syncEvent := true, current := .raw [] }, [])

def rstep (s : RSt) : REv → RSt × List (Nat × Note)
  | .dropReader c => ({ s with dead := c :: s.dead }, [])
  | .attach c => if s.stopped then (s, []) else onAttach s c
  | .msg m => if s.stopped then (s, []) else onMsg s m
  | .stop => if s.stopped then (s, []) else unlinkAll s

def rrun (s : RSt) : List REv → RSt × List (Nat × Note)
  | [] => (s, [])
  | e :: es => ((rrun (rstep s e).1 es).1, (rstep s e).2 ++ (rrun (rstep s e).1 es).2)

/-- What consumer `c` has received. -/
def logOf (c : Nat) (out : List (Nat × Note)) : List Note :=
  (out.filter fun p => p.1 == c).map fun p => p.2

/-! ### The session grammar `[linked event* [synced event*]] [unlinked eof]` (and `eof` alone for a consumer
whose attachment request was never taken) -/

inductive Phase | fresh | linked | synced | closed | ended
  deriving DecidableEq, Repr

def Phase.next : Phase → Note → Option Phase
  | .fresh, .linked => some .linked
  | .linked, .event _ => some .linked
  | .linked, .synced => some .synced
  | .synced, .event _ => some .synced
  | .fresh, .unlinked => some .closed
  | .linked, .unlinked => some .closed
  | .synced, .unlinked => some .closed
  | .closed, .eof => some .ended
  | .fresh, .eof => some .ended
  | _, _ => none

def accepts : Phase → List Note → Option Phase
  | p, [] => some p
  | p, n :: ns => match p.next n with
    | some q => accepts q ns
    | none => none

/-! ## Write task -/

/-- A command of a consumer (`DownlinkOperation` / `MapOperation`). -/
inductive Cmd
  | val (b : Bytes)
  | mp (op : MapOp)
  deriving DecidableEq, Repr

/-- `RequestMessage` on the socket. -/
inductive Frame
  | link
  | sync
  | cmd (c : Cmd)
  deriving DecidableEq, Repr

def keyBytes (k : Nat) : Bytes := (Nat.repr k).toList.map Char.toNat

/-- `MapOperationReconEncoder`. -/
def reconBytes : MapOp → Bytes
  | .upd k v => Generated.dlReconUpdate.take Generated.dlKeyOffset ++ keyBytes k
                  ++ Generated.dlReconUpdate.drop Generated.dlKeyOffset ++ v
  | .rem k => Generated.dlReconRemove.take Generated.dlKeyOffset ++ keyBytes k
                  ++ Generated.dlReconRemove.drop Generated.dlKeyOffset
  | .clear => Generated.dlReconClear

def Cmd.body : Cmd → Bytes
  | .val b => b
  | .mp op => reconBytes op

def Frame.len (hdr : Nat) : Frame → Nat
  | .cmd c => hdr + c.body.length
  | _ => hdr

inductive WMode
  | linking     -- `send_link().await` before the loop
  | idle        -- `WriteState::Idle`
  | writing     -- `WriteState::Writing` with a `send_sync` / `do_flush` that is waiting for the socket
  | stopped
  deriving DecidableEq, Repr

structure WSt where
  cap : Nat
  hdr : Nat
  mode : WMode := .linking
  flushed : Bool := true          -- `WriteTaskState::FLUSHED` (`INIT`)
  needsSync : Bool := false       -- `WriteTaskState::NEEDS_SYNC`
  regQ : List (Nat × Bool) := []  -- registration requests not yet taken from `producers` (id, SYNC)
  reqClosed : Bool := false       -- the attachment task has dropped `producer_tx`
  producers : List Nat := []      -- `registered` (`SelectAll` of the consumers' command streams)
  bpVal : Option Bytes := none    -- `ValueBackpressure { current, pending }`
  bpMap : List MapOp := []        -- `MapBackpressure.queue` (specification level)
  buf : Nat := 0                  -- bytes in the `FramedWrite` buffer, not yet in the channel
  pipe : Nat := 0                 -- bytes in the socket byte channel
  sockClosed : Bool := false      -- the reading half of the socket channel has been dropped
  frames : List (Frame × Nat) := []   -- frames not yet completely read by the remote, bytes remaining
  issued : List Cmd := []         -- ghost: every command taken from a consumer
  sent : List Frame := []         -- ghost: every frame encoded
  owed : List Nat := []           -- ghost: registered SYNC consumers for which no sync frame was encoded since
  deriving Repr

def encode (s : WSt) (f : Frame) : WSt :=
  { s with buf := s.buf + f.len s.hdr, frames := s.frames ++ [(f, f.len s.hdr)], sent := s.sent ++ [f],
           owed := match f with | .sync => [] | _ => s.owed }

def winit (cap hdr : Nat) : WSt := encode { cap := cap, hdr := hdr } .link

/-- The task returns: the socket writer is dropped, what was still in the `FramedWrite` buffer is lost. -/
def stopW (s : WSt) : WSt := { s with mode := .stopped, buf := 0 }

/-- One poll of a flush: the byte channel takes what fits. -/
def moveBytes (s : WSt) : WSt :=
  { s with buf := s.buf - min s.buf (s.cap - s.pipe), pipe := s.pipe + min s.buf (s.cap - s.pipe) }

def wnorm (s : WSt) : WSt :=
  if s.sockClosed then s
  else match s.mode with
    | .stopped => s
    | _ => moveBytes s

/-- `push_operation`. -/
def pushOp (s : WSt) : Cmd → WSt
  | .val b => { s with bpVal := some b }
  | .mp op => { s with bpMap := WT.mqPush s.bpMap op }

def pendingCmds (s : WSt) : List Cmd :=
  (match s.bpVal with | some b => [Cmd.val b] | none => []) ++ s.bpMap.map Cmd.mp

def encodeAll (s : WSt) : List Frame → WSt
  | [] => s
  | f :: fs => encodeAll (encode s f) fs

/-- `while has_data { prepare_write; feed_command }` — each data write completes at once (`feed` only encodes). -/
def drainBp (s : WSt) : WSt :=
  if (pendingCmds s).isEmpty then s
  else { encodeAll s ((pendingCmds s).map Frame.cmd) with bpVal := none, bpMap := [], flushed := false }

/-- One internal transition of the write task (after the flush in progress has been polled), if enabled. -/
def wmicro (s : WSt) : Option WSt :=
  match s.mode with
  | .stopped => none
  | .linking =>
    if s.buf = 0 then some { s with mode := .idle }
    else if s.sockClosed then some (stopW s)
    else none
  | .writing =>
    if s.buf = 0 then
      -- `SuspendedResult::SuspendedCompleted`
      if s.needsSync then some (encode { s with flushed := false, needsSync := false } .sync)
      else some { drainBp s with mode := .idle }
    else if s.sockClosed then some (stopW s)
    else match s.regQ with
      | r :: rest =>
        -- `SuspendedResult::NewRegistration(Some(..))`
        some { s with regQ := rest, producers := s.producers ++ [r.1], needsSync := s.needsSync || r.2,
                      owed := if r.2 then s.owed ++ [r.1] else s.owed }
      | [] => if s.reqClosed then some (stopW s) else none
  | .idle =>
    if s.producers.isEmpty then
      -- `registered.is_empty()`: wait for a request, joined with the flush unless FLUSHED
      if s.flushed || s.buf == 0 then
        match s.regQ with
        | r :: rest =>
          if r.2 then
            some { encode { s with regQ := rest, producers := [r.1], flushed := true, needsSync := false } .sync
                   with mode := .writing }
          else some { s with regQ := rest, producers := [r.1], flushed := true, needsSync := false }
        | [] => if s.reqClosed then some (stopW s) else none
      else if s.sockClosed then
        if !s.regQ.isEmpty || s.reqClosed then some (stopW s) else none
      else none
    else
      match s.regQ with
      | r :: rest =>
        if s.flushed || s.buf == 0 then
          if r.2 then
            some { encode { s with regQ := rest, producers := s.producers ++ [r.1], flushed := true } .sync
                   with mode := .writing }
          else some { s with regQ := rest, producers := s.producers ++ [r.1], flushed := true }
        else if s.sockClosed then some (stopW s)
        else
          -- the flush is pending: remember the SYNC, wait for the flush (`do_flush`)
          some { s with regQ := rest, producers := s.producers ++ [r.1], needsSync := s.needsSync || r.2,
                        mode := .writing, owed := if r.2 then s.owed ++ [r.1] else s.owed }
      | [] => if s.reqClosed then some (stopW s) else none

/-- Run to quiescence (the fuel is never exhausted on the traces of the correspondence). -/
def wsettle : Nat → WSt → WSt
  | 0, s => wnorm s
  | n + 1, s => match wmicro (wnorm s) with
    | some s' => wsettle n s'
    | none => wnorm s

inductive WEv
  | register (id : Nat) (sync : Bool)
  | command (id : Nat) (c : Cmd)
  | producerClosed (id : Nat)
  | drain (k : Nat)
  | sockClose
  | closeReq
  deriving DecidableEq, Repr

/-- `SuspendedResult::NextRecord(Some(Ok(op)))` / `Either::Right(Some(Ok(op)))`. -/
def onCommand (s : WSt) (c : Cmd) : WSt :=
  match s.mode with
  | .idle =>
    if s.flushed || s.buf == 0 then
      -- `write_direct`, `feed_command` (completes at once), FLUSHED removed
      { encode { s with issued := s.issued ++ [c] } (.cmd c) with flushed := false }
    else if s.sockClosed then stopW s
    else { pushOp { s with issued := s.issued ++ [c] } c with mode := .writing }
  | .writing => pushOp { s with issued := s.issued ++ [c] } c
  | _ => s

/-- The last command stream ended (`registered.next()` yields `None`). -/
def onProducersEmpty (s : WSt) : WSt :=
  match s.mode with
  | .idle =>
    if s.flushed || s.buf == 0 then { s with producers := [], flushed := true, owed := [] }
    else if s.sockClosed then stopW s
    else { s with producers := [], mode := .writing, owed := [] }
  | .writing => { s with producers := [], needsSync := false, owed := [] }
  | _ => { s with producers := [], owed := [] }

def consume : Nat → List (Frame × Nat) → List (Frame × Nat) × List Frame
  | _, [] => ([], [])
  | x, (f, r) :: rest =>
    if r ≤ x then ((consume (x - r) rest).1, f :: (consume (x - r) rest).2)
    else ((f, r - x) :: rest, [])

/-- An input of the write task (not yet settled). The second component: bytes read and frames completed. -/
def winput (s : WSt) : WEv → WSt × Nat × List Frame
  | .register id sync => ({ s with regQ := s.regQ ++ [(id, sync)] }, 0, [])
  | .command id c =>
    if s.producers.contains id then (onCommand s c, 0, []) else (s, 0, [])
  | .producerClosed id =>
    if s.producers.contains id then
      if (s.producers.erase id).isEmpty then (onProducersEmpty s, 0, [])
      else ({ s with producers := s.producers.erase id, owed := s.owed.filter (fun i => i != id) }, 0, [])
    else (s, 0, [])
  | .drain k =>
    ({ s with pipe := s.pipe - min k s.pipe, frames := (consume (min k s.pipe) s.frames).1 },
     min k s.pipe, (consume (min k s.pipe) s.frames).2)
  | .sockClose => ({ s with sockClosed := true }, 0, [])
  | .closeReq => ({ s with reqClosed := true }, 0, [])

def fuelFor (s : WSt) : Nat := 3 * s.regQ.length + 12

def wstep (s : WSt) (e : WEv) : WSt × Nat × List Frame :=
  (wsettle (fuelFor (winput s e).1) (winput s e).1, (winput s e).2)

def wrun (s : WSt) : List WEv → WSt
  | [] => s
  | e :: es => wrun (wstep s e).1 es

def sentCmds (s : WSt) : List Cmd :=
  s.sent.filterMap fun f => match f with | .cmd c => some c | _ => none

/-! ### Map state as seen by the lane -/

def applyOp (m : List (Nat × Bytes)) : MapOp → List (Nat × Bytes)
  | .upd k v => (k, v) :: m.filter (fun p => p.1 != k)
  | .rem k => m.filter (fun p => p.1 != k)
  | .clear => []

def lookupKey (m : List (Nat × Bytes)) (k : Nat) : Option Bytes := (m.find? fun p => p.1 == k).map (·.2)

/-! ## The whole runtime: both tasks, the attachment task and the kill switch -/

structure Sys where
  mapFl : Bool
  r : RSt
  w : WSt
  n : Nat := 0                    -- consumers attached so far (ids are `0 .. n-1`)
  wHeld : List Nat := []          -- consumers whose command writer the environment still holds
  stopReq : Bool := false         -- the `stopping` trigger has fired
  sockInOpen : Bool := true
  sockOutOpen : Bool := true
  sockEof : Bool := false
  doneReported : Bool := false
  raw : Bool := false             -- `NoInterpretation`: event bodies are passed through (commands are map commands)
  deriving Repr

/-- `MapDownlinkRuntime::with_interpretation(.., NoInterpretation)` (map-event downlinks of the server, clients that
decode the frames themselves): bodies pass through unchanged, the interpretation cannot fail, the write task is
the map one. Whether it is single-frame is read from the source (`Generated.dlRawSingleFrame`). -/
def sysInitRaw (cap node lane : Nat) : Sys :=
  { mapFl := true, raw := true,
    r := rinit Generated.dlRawSingleFrame true,
    w := wsettle 12 (winit cap (Generated.dlHeaderInitLen + node + lane)) }

def sysInit (mapFl : Bool) (cap node lane : Nat) (abort : Bool) : Sys :=
  { mapFl := mapFl,
    r := rinit (if mapFl then Generated.dlMapSingleFrame else Generated.dlValueSingleFrame) (if mapFl then abort else true),
    w := wsettle 12 (winit cap (Generated.dlHeaderInitLen + node + lane)) }

def Sys.attStopped (s : Sys) : Bool := s.stopReq || s.r.stopped || s.w.mode == .stopped

def Sys.done (s : Sys) : Bool := s.r.stopped && s.w.mode == .stopped

/-- `await_io_tasks` + `attach_task`: once either task has finished or the stop trigger has fired, the
attachment task ends, which closes both request channels. -/
def couple (s : Sys) : Sys × List (Nat × Note) :=
  if s.attStopped then
    ({ s with r := if s.r.stopped then s.r else (rstep s.r .stop).1,
              w := if s.w.reqClosed then s.w else (wstep s.w .closeReq).1 },
     if s.r.stopped then [] else (rstep s.r .stop).2)
  else (s, [])

/-- Two rounds: the write task may stop because its request channel closed, after which the read task must. -/
def couple2 (s : Sys) : Sys × List (Nat × Note) :=
  ((couple (couple s).1).1, (couple s).2 ++ (couple (couple s).1).2)

inductive Op
  | attach (sync keep : Bool)
  | remote (m : RMsg)
  | remoteEof
  | cmd (c : Nat) (x : Cmd)
  | drain (k : Nat)
  | dropR (c : Nat)
  | dropW (c : Nat)
  | dropBoth (c : Nat)
  | stop
  | sockClose
  deriving DecidableEq, Repr

structure Obs where
  notes : List (Nat × Note) := []
  sock : List String := []          -- socket-side tokens (rendered)
  special : Option String := none   -- whole-line answers: na / stopped / unmodelled / bad-op
  deriving Repr

def renderBody : Body → String
  | .raw b => hexOfBytes b
  | .upd k v => s!"upd.{k}.{hexOfBytes v}"
  | .rem k => s!"rem.{k}"
  | .clr => "clr"
  | .take n => s!"take.{n}"
  | .drop n => s!"drop.{n}"

def renderNote : Note → String
  | .linked => "linked"
  | .synced => "synced"
  | .event b => "ev:" ++ renderBody b
  | .unlinked => "unlinked"
  | .eof => "eof"

def renderFrame : Frame → String
  | .link => "f:link"
  | .sync => "f:sync"
  | .cmd c => "f:cmd:" ++ hexOfBytes c.body

def inRegQ (s : WSt) (c : Nat) : Bool := s.regQ.any fun r => r.1 == c

def dropWriter (s : Sys) (c : Nat) : Option Sys :=
  if s.wHeld.contains c then
    if inRegQ s.w c then none
    else some { s with wHeld := s.wHeld.erase c, w := (wstep s.w (.producerClosed c)).1 }
  else some s

/-- One op of the line protocol, before coupling. `none` = outside the modelled envelope. -/
def sysOp (s : Sys) : Op → Option (Sys × Obs)
  | .drain k =>
    if s.sockOutOpen then
      if s.sockEof then some (s, { sock := ["read=0"] })
      else
        some ({ s with w := (wstep s.w (.drain k)).1,
                       sockEof := s.w.mode == .stopped && decide (s.w.pipe < k) },
              { sock := [s!"read={(wstep s.w (.drain k)).2.1}"] ++ (wstep s.w (.drain k)).2.2.map renderFrame
                         ++ (if s.w.mode == .stopped && decide (s.w.pipe < k) then ["eof"] else []) })
    else some (s, { sock := ["closed"] })
  | .attach sync keep =>
    if s.attStopped then
      -- the attachment task has gone: the request is dropped, the consumer's channels close
      some ({ s with n := s.n + 1, wHeld := s.wHeld ++ [s.n] }, { notes := [(s.n, .eof)] })
    else
      some ({ s with n := s.n + 1, wHeld := s.wHeld ++ [s.n],
                     r := (rstep s.r (.attach { id := s.n, sync := sync, keep := keep })).1,
                     w := (wstep s.w (.register s.n sync)).1 },
            { notes := (rstep s.r (.attach { id := s.n, sync := sync, keep := keep })).2 })
  | .remote m =>
    if s.sockInOpen then some ({ s with r := (rstep s.r (.msg m)).1 }, { notes := (rstep s.r (.msg m)).2 })
    else some (s, { special := some "na" })
  | .remoteEof =>
    some ({ s with sockInOpen := false, r := (rstep s.r .stop).1 }, { notes := (rstep s.r .stop).2 })
  | .cmd c x =>
    if s.wHeld.contains c then
      if s.w.producers.contains c then some ({ s with w := (wstep s.w (.command c x)).1 }, {})
      else if inRegQ s.w c then none
      else some (s, { sock := ["cmd-closed"] })
    else some (s, { special := some "na" })
  | .dropR c =>
    if c < s.n then some ({ s with r := (rstep s.r (.dropReader c)).1 }, {}) else some (s, { special := some "na" })
  | .dropW c =>
    if c < s.n then (dropWriter s c).map fun s' => (s', {}) else some (s, { special := some "na" })
  | .dropBoth c =>
    if c < s.n then (dropWriter { s with r := (rstep s.r (.dropReader c)).1 } c).map fun s' => (s', {})
    else some (s, { special := some "na" })
  | .stop => some ({ s with stopReq := true }, {})
  | .sockClose => some ({ s with sockOutOpen := false, w := (wstep s.w .sockClose).1 }, {})

def isDrain : Op → Bool
  | .drain _ => true
  | _ => false

def groupNotes (n : Nat) (out : List (Nat × Note)) : List String :=
  (List.range n).filterMap fun c =>
    if (logOf c out).isEmpty then none
    else some (s!"c{c}:" ++ ",".intercalate ((logOf c out).map renderNote))

def renderObs (n : Nat) (o : Obs) (done : Bool) : String :=
  match o.special with
  | some t => t
  | none =>
    if (groupNotes n o.notes ++ o.sock ++ (if done then ["done"] else [])).isEmpty then "-"
    else " ".intercalate (groupNotes n o.notes ++ o.sock ++ (if done then ["done"] else []))

/-- One op: the op itself, the coupling of the tasks, `done` the first time `run()` has completed. -/
def sysStep (s : Sys) (op : Op) : Sys × String :=
  if s.done && !isDrain op then (s, "stopped")
  else match sysOp s op with
    | none => (s, "unmodelled")
    | some (s1, o) =>
      match o.special with
      | some t => (s1, t)
      | none =>
        ({ (couple2 s1).1 with doneReported := s1.doneReported || (couple2 s1).1.done },
         renderObs (couple2 s1).1.n { o with notes := o.notes ++ (couple2 s1).2 }
           ((couple2 s1).1.done && !s1.doneReported))

/-! ### Parsing the op lines -/

def parseBit : String → Option Bool
  | "0" => some false
  | "1" => some true
  | _ => none

def parseOp (mapFl : Bool) (line : String) (raw : Bool := false) : Option Op :=
  match words line with
  | ["attach", s, k] => do some (.attach (← parseBit s) (← parseBit k))
  | ["remote", "linked"] => some (.remote .linked)
  | ["remote", "synced"] => some (.remote .synced)
  | ["remote", "unlinked"] => some (.remote .unlinked)
  | ["remote", "eof"] => some .remoteEof
  | ["remote", "ev", h] => if mapFl && !raw then none else (bytesOfHex h).map fun b => .remote (.event (.raw b))
  | ["remote", "mev", "upd", k, h] =>
    if mapFl && !raw then do some (.remote (.event (.upd (← k.toNat?) (← bytesOfHex h)))) else none
  | ["remote", "mev", "rem", k] => if mapFl && !raw then k.toNat?.map fun k => .remote (.event (.rem k)) else none
  | ["remote", "mev", "clr"] => if mapFl && !raw then some (.remote (.event .clr)) else none
  | ["remote", "mev", "take", n] => if mapFl && !raw then n.toNat?.map fun n => .remote (.event (.take n)) else none
  | ["remote", "mev", "drop", n] => if mapFl && !raw then n.toNat?.map fun n => .remote (.event (.drop n)) else none
  | ["remote", "mev", "bad"] => if mapFl && !raw then some (.remote .badEvent) else none
  | ["cmd", c, h] => if mapFl then none else do some (.cmd (← c.toNat?) (.val (← bytesOfHex h)))
  | ["mcmd", c, "upd", k, h] =>
    if mapFl then do some (.cmd (← c.toNat?) (.mp (.upd (← k.toNat?) (← bytesOfHex h)))) else none
  | ["mcmd", c, "rem", k] => if mapFl then do some (.cmd (← c.toNat?) (.mp (.rem (← k.toNat?)))) else none
  | ["mcmd", c, "clr"] => if mapFl then do some (.cmd (← c.toNat?) (.mp .clear)) else none
  | ["drain", k] => k.toNat?.map .drain
  | ["drop", c] => c.toNat?.map .dropBoth
  | ["dropr", c] => c.toNat?.map .dropR
  | ["dropw", c] => c.toNat?.map .dropW
  | ["stop"] => some .stop
  | ["sockclose"] => some .sockClose
  | _ => none

def parseNew (line : String) : Option Sys :=
  match words line with
  | ["new", fl, cap, node, lane, strat, _cbuf] =>
    if fl == "value" || fl == "map" then
      do some (sysInit (fl == "map") (← cap.toNat?) (← node.toNat?) (← lane.toNat?) (strat != "ignore"))
    else if fl == "raw" then do some (sysInitRaw (← cap.toNat?) (← node.toNat?) (← lane.toNat?))
    else none
  | _ => none

def machineStep (s : Option Sys) (line : String) : Option Sys × String :=
  match parseNew line with
  | some s0 => (some s0, "ok")
  | none => match s with
    | none => (s, "bad-op")
    | some st => match parseOp st.mapFl line st.raw with
      | none => (s, "bad-op")
      | some op => ((sysStep st op).1, (sysStep st op).2)

end SwimVerif.DL

/-! ## Observable-level monitor: decides the property on a trace of (op, observed output) pairs alone -/

namespace SwimVerif.DL

structure MCons where
  sync : Bool
  late : Bool               -- attached after the remote had sent `linked` or `synced`
  phase : Phase := .fresh
  rAlive : Bool := true
  wAlive : Bool := true       -- the consumer still holds its command writer
  syncOwed : Bool := false    -- asked for SYNC and no sync frame has been read from the socket since
  deriving Repr

structure Mon where
  started : Bool := false
  mapFl : Bool := false           -- event bodies are interpreted map messages (else raw bytes)
  multi : Bool := false           -- the lane's state takes many frames (map lanes, interpreted or passed through)
  abort : Bool := true
  cons : List MCons := []
  linkedSent : Bool := false      -- the remote has sent `linked`
  leftInit : Bool := false        -- the remote has sent `linked` or `synced` (the read task has left `Init`)
  earlyFrame : Bool := false      -- the remote sent an event / synced before its first `linked`
  lastEv : Option Body := none    -- body of the last event the remote sent
  closing : Bool := false         -- an op that closes the link has been seen (or `done`)
  issued : List Cmd := []         -- commands written by consumers (accepted by their channel)
  got : List Cmd := []            -- command frames read from the socket
  frames : Nat := 0               -- frames read from the socket
  syncAsked : Nat := 0            -- attachments with SYNC
  syncGot : Nat := 0
  deriving Repr

def parseBody (mapFl : Bool) (t : String) : Option Body :=
  if mapFl then
    match t.splitOn "." with
    | ["-"] => some (.raw [])
    | ["upd", k, h] => do some (.upd (← k.toNat?) (← bytesOfHex h))
    | ["rem", k] => k.toNat?.map .rem
    | ["clr"] => some .clr
    | ["take", n] => n.toNat?.map .take
    | ["drop", n] => n.toNat?.map .drop
    | _ => none
  else (bytesOfHex t).map .raw

def parseNote (mapFl : Bool) (t : String) : Option Note :=
  if t == "linked" then some .linked
  else if t == "synced" then some .synced
  else if t == "unlinked" then some .unlinked
  else if t == "eof" then some .eof
  else if t.startsWith "ev:" then (parseBody mapFl (t.drop 3).toString).map .event
  else none

def parseNotes (mapFl : Bool) (t : String) : Option (List Note) :=
  (t.splitOn ",").mapM (parseNote mapFl)

/-- Observed output of one op, parsed. -/
structure ObsIn where
  notes : List (Nat × List Note) := []
  read : Option Nat := none
  frames : List String := []     -- `link`, `sync`, `cmd:<hex>`
  sockEof : Bool := false
  closed : Bool := false
  cmdClosed : Bool := false
  done : Bool := false
  deriving Repr

def parseTok (mapFl : Bool) (o : ObsIn) (t : String) : Option ObsIn :=
  if t == "-" then some o
  else if t == "done" then some { o with done := true }
  else if t == "eof" then some { o with sockEof := true }
  else if t == "closed" then some { o with closed := true }
  else if t == "cmd-closed" then some { o with cmdClosed := true }
  else if t.startsWith "read=" then (t.drop 5).toString.toNat?.map fun n => { o with read := some n }
  else if t.startsWith "f:" then some { o with frames := o.frames ++ [(t.drop 2).toString] }
  else if t.startsWith "c" then
    match (t.drop 1).toString.splitOn ":" with
    | c :: rest => do
        let ns ← parseNotes mapFl (":".intercalate rest)
        some { o with notes := o.notes ++ [(← c.toNat?, ns)] }
    | _ => none
  else none

def parseObs (mapFl : Bool) (out : String) : Option ObsIn :=
  (words out).foldlM (parseTok mapFl) {}

def notesAll (o : ObsIn) (c : Nat) : List Note := ((o.notes.find? fun p => p.1 == c).map (·.2)).getD []

/-- Drop a trailing `unlinked, eof` (the link may close in any op). -/
def stripClose (ns : List Note) : List Note :=
  if ns.drop (ns.length - 2) == [.unlinked, .eof] then ns.take (ns.length - 2) else ns

/-- What consumer `c` received in this op, apart from a closing `unlinked, eof`. -/
def notesFor (o : ObsIn) (c : Nat) : List Note := stripClose (notesAll o c)

/-- Map state produced by a list of commands (value flavour: the last body under key 0). -/
def foldCmds (cs : List Cmd) : List (Nat × Bytes) :=
  cs.foldl (fun m c => match c with
    | .val b => [(0, b)]
    | .mp op => applyOp m op) []

def sameState (a b : List (Nat × Bytes)) : Bool :=
  (a.all fun p => lookupKey b p.1 == some p.2) && (b.all fun p => lookupKey a p.1 == some p.2)

def cmdKey : Cmd → Option Nat
  | .mp op => op.key?
  | .val _ => none

def isSubseq : List Cmd → List Cmd → Bool
  | [], _ => true
  | _ :: _, [] => false
  | a :: as, b :: bs => if a == b then isSubseq as bs else isSubseq (a :: as) bs

/-- Commands relevant to key `k` (value flavour: all of them). -/
def projKey (k : Option Nat) (cs : List Cmd) : List Cmd :=
  cs.filter fun c => match c with
    | .val _ => true
    | .mp .clear => true
    | .mp op => op.key? == k

def Mon.advance (m : Mon) (o : ObsIn) : Option (List MCons) :=
  (List.range m.cons.length).mapM fun i =>
    match m.cons[i]? with
    | none => none
    | some c => (accepts c.phase (notesAll o i)).map fun p => { c with phase := p }

def isEvent : Note → Bool
  | .event _ => true
  | _ => false

/-- Checks at a remote event `b` (`none`: a frame the interpretation rejects, strategy = ignore). -/
def checkEvent (m : Mon) (o : ObsIn) (b : Option Body) : Option String :=
  (List.range m.cons.length).firstM fun i =>
    match m.cons[i]? with
    | none => none
    | some c =>
      if !c.rAlive then none
      else
        let ns := notesFor o i
        let closingNotes := ns.isEmpty && !(notesAll o i).isEmpty
        match b with
        | none =>
          if ns.any isEvent then some "empty-event-for-ignored-bad-frame" else none
        | some b =>
          if closingNotes then none
          else if c.phase == .synced || (c.phase == .linked && !c.sync) then
            if ns == [.event b] then none
            else if ns.isEmpty then
              some (if !c.sync && c.late && !m.mapFl then "f8-late-nosync-value-missed-event" else "missed-event")
            else some "wrong-event"
          else if ns == [.event b] then none
          else if ns.isEmpty then
            -- still waiting for `linked`/`synced`: a multi-frame state is made of *all* the events before `synced`
            (if m.multi && c.phase == .linked && c.sync then some "multi-frame-consumer-missed-event-while-syncing"
             else none)
          else some "unexpected-notification"

def checkSynced (m : Mon) (o : ObsIn) : Option String :=
  (List.range m.cons.length).firstM fun i =>
    match m.cons[i]? with
    | none => none
    | some c =>
      if !c.rAlive then none
      else
        let ns := notesFor o i
        if ns.isEmpty && !(notesAll o i).isEmpty then none
        else if ns.contains .synced then
          if !c.sync then some (if c.late then "f8-late-nosync-unrequested-synced" else "synced-not-requested")
          else match ns with
            | [.synced] => none
            | [.event b, .synced] =>
              if m.multi then some "multi-frame-synced-with-single-frame-state"
              else if some b == m.lastEv then none else some "synced-with-stale-state"
            | _ => some "unexpected-notification"
        else if c.phase == .linked && c.sync then some "synced-not-delivered"
        else if ns.isEmpty then none else some "unexpected-notification"

def checkLinked (m : Mon) (o : ObsIn) : Option String :=
  (List.range m.cons.length).firstM fun i =>
    match m.cons[i]? with
    | none => none
    | some c =>
      if !c.rAlive then none
      else
        let ns := notesFor o i
        if ns.isEmpty && !(notesAll o i).isEmpty then none
        else if c.phase == .fresh then
          if ns == [.linked] then none
          else some (if m.earlyFrame then "linked-swallowed-after-early-frame" else "linked-not-delivered")
        else if ns.isEmpty then none else some "unexpected-notification"

/-- No consumer may receive anything in an op that is not a remote notification, an attach or a close. -/
def checkQuiet (m : Mon) (o : ObsIn) : Option String :=
  (List.range m.cons.length).firstM fun i =>
    let ns := notesFor o i
    if ns.isEmpty || ns == [.eof] then none else some "unexpected-notification"

def checkClosed (cs : List MCons) (reason : String) : Option String :=
  if cs.any fun c => c.rAlive && (c.phase == .fresh || c.phase == .linked || c.phase == .synced) then some reason
  else none

def frameCmd (issued : List Cmd) (t : String) : Option Cmd :=
  if t.startsWith "cmd:" then
    match bytesOfHex (t.drop 4).toString with
    | some b => issued.find? fun c => c.body == b
    | none => none
  else none

/-- Socket side: frames read in this op. -/
def checkFrames (m : Mon) (o : ObsIn) : Mon × Option String :=
  o.frames.foldl (fun (acc : Mon × Option String) t =>
    match acc.2 with
    | some _ => acc
    | none =>
      let m := acc.1
      if t == "link" then
        ({ m with frames := m.frames + 1 }, if m.frames == 0 then none else some "second-link-frame")
      else if m.frames == 0 then (m, some "first-frame-not-link")
      else if t == "sync" then
        ({ m with frames := m.frames + 1, syncGot := m.syncGot + 1,
                  cons := m.cons.map fun c => { c with syncOwed := false } },
         if m.syncGot < m.syncAsked then none else some "sync-not-requested")
      else match frameCmd m.issued t with
        | none => (m, some "command-not-issued")
        | some c =>
          let got := m.got ++ [c]
          ({ m with frames := m.frames + 1, got := got },
           if isSubseq (projKey (cmdKey c) got) (projKey (cmdKey c) m.issued) then none
           else some "commands-reordered-or-duplicated")) (m, none)

def opWords (op : String) : List String := words op

/-- One observed step. -/
def Mon.step (m : Mon) (op out : String) : Mon × Option String :=
  match opWords op with
  | ["new", fl, _, _, _, strat, _] =>
    ({ started := true, mapFl := fl == "map", multi := fl == "map" || fl == "raw",
       abort := strat != "ignore" || fl != "map" },
     if out == "ok" then none else some "unexpected-result")
  | ws =>
    if !m.started then (m, some "op-before-new")
    else if out == "stopped" then (m, if m.closing then none else some "stopped-without-close")
    else if out == "na" || out == "bad-op" then (m, none)
    else match parseObs m.mapFl out with
    | none => (m, some "unparsable-output")
    | some o =>
      -- session grammar of every consumer
      let m0 : Mon := match ws with
        | ["attach", s, _] =>
          { m with cons := m.cons ++ [{ sync := s == "1", late := m.leftInit, syncOwed := s == "1" }],
                   syncAsked := m.syncAsked + (if s == "1" then 1 else 0) }
        | _ => m
      match m0.advance o with
      | none => (m0, some "session-grammar")
      | some cons' =>
        let m1 := { m0 with cons := cons', closing := m0.closing || o.done }
        if (o.notes.any fun p => p.1 ≥ m0.cons.length) then (m1, some "notification-for-unknown-consumer")
        else
        let (m2, fv) := checkFrames m1 o
        match fv with
        | some r => (m2, some r)
        | none =>
        let doneCheck : Option String := if o.done then checkClosed cons' "consumer-not-unlinked-at-exit" else none
        match ws with
        | ["attach", _, _] =>
          let i := m.cons.length
          let others := (List.range i).firstM fun j => if (notesFor o j).isEmpty then none else some "unexpected-notification"
          let ns := notesFor o i
          (m2, others <|> (if ns.isEmpty || ns == [.linked] || ns == [.eof] then none
                          else some "unexpected-notification") <|> doneCheck)
        | ["remote", "linked"] =>
          ({ m2 with linkedSent := true, leftInit := true }, checkLinked m0 o <|> doneCheck)
        | ["remote", "synced"] =>
          ({ m2 with earlyFrame := m2.earlyFrame || !m2.linkedSent, leftInit := true }, checkSynced m0 o <|> doneCheck)
        | ["remote", "unlinked"] =>
          ({ m2 with closing := true }, checkClosed cons' "consumer-not-unlinked-at-close" <|> doneCheck)
        | ["remote", "eof"] =>
          ({ m2 with closing := true }, checkClosed cons' "consumer-not-unlinked-at-close" <|> doneCheck)
        | ["stop"] => ({ m2 with closing := true }, checkClosed cons' "consumer-not-unlinked-at-close" <|> doneCheck)
        | ["sockclose"] => ({ m2 with closing := true }, checkQuiet m0 o <|> doneCheck)
        | "remote" :: "mev" :: "bad" :: _ =>
          if m.abort then
            ({ m2 with closing := true }, checkClosed cons' "consumer-not-unlinked-at-close" <|> doneCheck)
          else ({ m2 with earlyFrame := m2.earlyFrame || !m2.linkedSent }, checkEvent m0 o none <|> doneCheck)
        | "remote" :: rest =>
          let b : Option Body := match rest with
            | ["ev", h] => parseBody false h
            | "mev" :: r => parseBody true (".".intercalate r)
            | _ => none
          (match b with
           | none => (m2, some "unparsable")
           | some b =>
             ({ m2 with lastEv := some b, earlyFrame := m2.earlyFrame || !m2.linkedSent },
              checkEvent m0 o (some b) <|> doneCheck))
        | "cmd" :: _ :: rest | "mcmd" :: _ :: rest =>
          let c : Option Cmd := match ws.head?, rest with
            | some "cmd", [h] => (bytesOfHex h).map .val
            | some "mcmd", ["upd", k, h] => do some (.mp (.upd (← k.toNat?) (← bytesOfHex h)))
            | some "mcmd", ["rem", k] => k.toNat?.map fun k => .mp (.rem k)
            | some "mcmd", ["clr"] => some (.mp .clear)
            | _, _ => none
          (match c with
           | none => (m2, some "unparsable")
           | some c =>
             ((if o.cmdClosed then m2 else { m2 with issued := m2.issued ++ [c] }), checkQuiet m0 o <|> doneCheck))
        | ["drain", k] =>
          let k := k.toNat?.getD 0
          let quiet := checkQuiet m0 o
          let bound : Option String := match o.read with
            | some n => if n ≤ k then none else some "read-more-than-requested"
            | none => if o.closed then none else some "unparsable-output"
          -- quiescent point: nothing left in flight while the link is up ⇒ the lane has seen the effect of everything
          let fold : Option String :=
            if o.read == some 0 && k > 0 && !m2.closing && !o.sockEof && m2.frames > 0 then
              (if !sameState (foldCmds m2.got) (foldCmds m2.issued) then some "lane-state-differs-from-fold-of-issued"
               else if m2.cons.any (fun c => c.sync && c.wAlive && c.syncOwed) then some "sync-frame-not-sent-for-sync-consumer"
               else none)
            else none
          (m2, quiet <|> bound <|> fold <|> doneCheck)
        | ["drop", c] | ["dropr", c] =>
          let c := c.toNat?.getD 0
          let cons2 := (List.range m2.cons.length).filterMap fun i =>
                (m2.cons[i]?).map fun x =>
                  if i == c then { x with rAlive := false, wAlive := x.wAlive && ws.head? != some "drop" } else x
          ({ m2 with cons := cons2 },
           checkQuiet m0 o <|> (if o.done then checkClosed cons2 "consumer-not-unlinked-at-exit" else none))
        | ["dropw", c] =>
          let c := c.toNat?.getD 0
          ({ m2 with cons := (List.range m2.cons.length).filterMap fun i =>
                (m2.cons[i]?).map fun x => if i == c then { x with wAlive := false } else x },
           checkQuiet m0 o <|> doneCheck)
        | _ => (m2, some "unparsable")

end SwimVerif.DL
