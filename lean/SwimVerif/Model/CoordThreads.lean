/-
C17, multi-threaded stress of the REAL coordinator (engine `coord-threads`, monitor only).
Every voter lives on its own thread and performs a sequence of `vote` / `rescind` calls, then a final action
(`vote`, `rescind` or dropping the voter). Every call is bracketed by two tickets drawn from one global counter
(`start`, `end`), so "call A was over before call B began" (`A.end < B.start`) is known across threads.

line: `wake <n> <seed> <rounds>` — the WAITER: per round a fresh coordinator, every voter casts one vote from its own
thread after a tiny random spin while the calling thread polls the real `Receiver` with a park/unpark waker after its
own spin, so that the final vote races with the poll (`load` / `register` / `load`); once every vote of the round has
returned, a waker that was registered (`Pending`) and has not been woken is a lost wake-up.
out:  `rounds=<r> ready=<a> pending=<p> woken=<w> lost=<l> unanimous=<u>`

line: `threads <n> …`
out:  `t0=<call>,<call>,… t1=… ready=<0|1>`  with `<call>` = `v|r` `U|P` `:<start>-<end>` or `d:<start>-<end>` (drop)

The oracle uses only facts proved for the model for EVERY interleaving (`Props/C17.lean`): unanimity is stable
(`C17_unanimity_stable`), `Unanimous` answers are sound (`C17_vote_unanimous_sound`, `C17_rescind_unanimous_sound`),
a withdrawn vote blocks the stop (`C17_rescind_pending_sound`, `C17_no_stop_without_my_vote`), a dropped party counts
as voted (`C17_drop_counts_as_vote`), the receiver is ready iff all votes are outstanding (`C17_receiver_ready_iff`).
-/
import SwimVerif.Model.Util

namespace SwimVerif.CoordThreads
open SwimVerif

inductive Kind | vote | rescind | drop
  deriving DecidableEq, Repr

structure Call where
  kind : Kind
  unanimous : Bool
  start : Nat
  stop : Nat
  deriving Repr

def parseCall (s : String) : Option Call :=
  match s.splitOn ":" with
  | [head, span] =>
    match span.splitOn "-" with
    | [a, b] =>
      match a.toNat?, b.toNat? with
      | some a, some b =>
        if head = "vU" then some ⟨.vote, true, a, b⟩
        else if head = "vP" then some ⟨.vote, false, a, b⟩
        else if head = "rU" then some ⟨.rescind, true, a, b⟩
        else if head = "rP" then some ⟨.rescind, false, a, b⟩
        else if head = "d" then some ⟨.drop, false, a, b⟩
        else none
      | _, _ => none
    | _ => none
  | _ => none

def parseThread (tok : String) : Option (List Call) :=
  match tok.splitOn "=" with
  | [_, body] => if body = "-" then some [] else (body.splitOn ",").mapM parseCall
  | _ => none

/-- intervals `(lo, hi)` of tickets during which this voter certainly has NO outstanding vote: from the start (or the
end of a `rescind` answered `UnanimityPending`) to the beginning of its next `vote` / drop (`none` = for ever) -/
def clearIntervals : Option Nat → List Call → List (Nat × Option Nat)
  | some lo, [] => [(lo, none)]
  | none, [] => []
  | some lo, c :: rest =>
    if c.kind = .rescind then clearIntervals (some lo) rest
    else (lo, some c.start) :: clearIntervals none rest
  | none, c :: rest =>
    if c.kind = .rescind && !c.unanimous then clearIntervals (some c.stop) rest else clearIntervals none rest

def within (c : Call) (iv : Nat × Option Nat) : Bool :=
  decide (iv.1 < c.start) && (match iv.2 with | none => true | some hi => decide (c.stop < hi))

/-- does the voter end with an outstanding vote (final action `vote` or drop)? -/
def endsVoted (cs : List Call) : Bool :=
  match cs.getLast? with
  | some c => c.kind = .vote || c.kind = .drop
  | none => false

def endsWithdrawn (cs : List Call) : Bool :=
  match cs.getLast? with
  | some c => c.kind = .rescind && !c.unanimous
  | none => true

/-- a `rescind` answered `Unanimous` although the voter itself has no outstanding vote (single pass; `clear` = the
voter's last effective call was a `rescind` answered `UnanimityPending`, or it has not voted yet) -/
def rescindUWithoutVote : Bool → List Call → Bool
  | _, [] => false
  | clear, c :: rest =>
    if c.kind = .rescind then
      if c.unanimous then (clear || rescindUWithoutVote clear rest) else rescindUWithoutVote true rest
    else rescindUWithoutVote false rest

/-- the ticket at which the first `Unanimous` answer was complete -/
def firstUnanimousEnd (all : List Call) : Option Nat :=
  (all.filter (·.unanimous)).foldl (fun m c => match m with | none => some c.stop | some x => some (min x c.stop)) none

def check (line out : String) : Option String :=
  match words line with
  | "threads" :: _ =>
    let toks := words out
    let tts := toks.filter (fun t => t.startsWith "t")
    match tts.mapM parseThread, toks.find? (fun t => t.startsWith "ready=") with
    | some ts, some rd =>
      let ready := rd = "ready=1"
      let all : List Call := ts.flatten
      let uEnd : Option Nat := firstUnanimousEnd all
      let idx := List.range ts.length
      if uEnd.isSome && !ready then some "th-unanimous-but-receiver-not-ready"
      else if (match uEnd with
          | some u => all.any (fun (b : Call) => b.kind = Kind.rescind && !b.unanimous && decide (u < b.start))
          | none => false) then
        some "th-rescind-pending-after-unanimity"
      else if (all.filter (fun (c : Call) => c.kind = Kind.vote && c.unanimous)).length > 1 then some "th-two-unanimous-votes"
      else if (match uEnd with
          | some u =>
            -- the `Unanimous` answers that are not simply later than an earlier complete one
            idx.any fun i => ((ts.getD i []).filter (fun (a : Call) => a.unanimous && decide (a.start ≤ u))).any fun (a : Call) =>
              idx.any fun j => i ≠ j && (clearIntervals (some 0) (ts.getD j [])).any (within a)
          | none => false) then
        some "th-unanimous-while-other-has-no-vote"
      else if ts.any (rescindUWithoutVote true) then some "th-rescind-unanimous-without-own-vote"
      else if ts.all endsVoted && !ready then some "th-all-final-votes-but-not-ready"
      else if ts.any endsWithdrawn && ready then some "th-final-rescind-pending-but-ready"
      else none
    | _, _ => some "th-malformed"
  | "wake" :: _ =>
    -- the waiter rounds: `rounds=<r> ready=<a> pending=<p> woken=<w> lost=<l> unanimous=<u>`
    let kv (k : String) : Option Nat :=
      ((words out).find? (fun t => t.startsWith (k ++ "="))).bind (fun t => (t.drop (k.length + 1)).toString.toNat?)
    match kv "rounds", kv "ready", kv "pending", kv "woken", kv "lost", kv "unanimous" with
    | some r, some a, some p, some w, some l, some u =>
      -- a receiver told `Pending` is woken by the vote that completes unanimity (`C17_poll_no_lost_wakeup`)
      if l > 0 then some "coord-threads-lost-wakeup"
      -- exactly one `vote()` per round is told `Unanimous` (`C17_vote_unanimous_sound`, `C17_unanimity_stable`)
      else if u ≠ r then some "coord-threads-unanimous-count"
      else if a + p ≠ r || w + l ≠ p then some "th-malformed"
      else none
    | _, _, _, _, _, _ => some "th-malformed"
  | _ => some "th-unparsable"

end SwimVerif.CoordThreads
