/-
The statement language the C17 translator (`tools/extractors/c17.py`) emits for `Voter::vote`, `Voter::rescind`,
`Drop for Voter` and `Receiver::poll` of `runtime/swimos_runtime/src/timeout_coord/mod.rs`, and its semantics on the
state of `Model/TimeoutCoord.lean` — run WITHOUT interference (one call to completion), logging every atomic access.

Structure (order, branches, the loop, where a function returns) comes from the source; the vocabulary below is
recognised by exact text.  `Proofs/CoordProg.lean` proves that the generated programs are the model's steps and that
their atomic accesses are exactly the atomic steps the interleaving theorems of C17 quantify over.
-/
import SwimVerif.Model.TimeoutCoord

namespace SwimVerif.CoordProg
open SwimVerif.Coord

inductive CCond
  | beforeIsInverse     -- `before == *inverse`
  | votedGet            -- `voted.get()`
  | notVoted            -- `!self.voted.get()`
  | twoParty            -- `*inverse < TWO_VOTERS_LIM`
  | casFlagInitFails    -- `flags.compare_exchange(*flag, INIT, Relaxed, Relaxed).is_err()`      (one atomic access)
  | currentIsAll        -- `current == inverse | flag`
  | casClearOk          -- `flags.compare_exchange(current, current & !flag, Relaxed, Relaxed).is_ok()` (one atomic access)
  | loadRelaxedIsAll    -- `flags.load(Relaxed) == *unanimity`                                   (one atomic access)
  | loadAcquireIsAll    -- `flags.load(Acquire) == *unanimity`                                   (one atomic access)
  deriving Repr, DecidableEq

inductive CStmt
  | skip
  | seq (a b : CStmt)
  | ite (c : CCond) (t e : CStmt)
  | loop (b : CStmt)
  | call (p : CStmt)            -- a call in statement position: the callee's value is discarded
  | ret (r : Res)
  | fetchOr                     -- `let before = flags.fetch_or(*flag, Release)`                  (one atomic access)
  | setVoted (b : Bool)         -- `voted.set(b)` (the voter's own `Cell`)
  | wake                        -- `waker.wake()`
  | loadCurrent                 -- `let current = flags.load(Relaxed)`                            (one atomic access)
  | register                    -- `waker.register(cx.waker())`
  deriving Repr

/-- the atomic accesses to the shared word and to the `AtomicWaker`, in program order -/
inductive Acc | fetchOr | load | cas (ok : Bool) | wake | register
  deriving Repr, DecidableEq

structure CM where
  s : St                  -- shared: `flags`, the receiver's waker (`parked`, `woken`, `wakes`)
  i : Nat                 -- this voter's index (`flag = 1 << i`)
  voted : Bool            -- this voter's `voted` cell
  before : Nat := 0
  current : Nat := 0
  ret : Option Res := none
  trace : List Acc := []
  deriving Repr

def evalC (m : CM) : CCond → CM × Bool
  | .beforeIsInverse => (m, decide (m.before = inverseOf m.s.n m.i))
  | .votedGet => (m, m.voted)
  | .notVoted => (m, !m.voted)
  | .twoParty => (m, decide (inverseOf m.s.n m.i < Generated.twoVotersLim))
  | .casFlagInitFails =>
      if m.s.flags = flagOf m.i then
        ({ m with s := { m.s with flags := Generated.coordInit }, trace := m.trace ++ [.cas true] }, false)
      else ({ m with trace := m.trace ++ [.cas false] }, true)
  | .currentIsAll => (m, decide (m.current = (inverseOf m.s.n m.i ||| flagOf m.i)))
  | .casClearOk =>
      if m.s.flags = m.current then
        ({ m with s := { m.s with flags := m.current &&& notU8 (flagOf m.i) }, trace := m.trace ++ [.cas true] }, true)
      else ({ m with trace := m.trace ++ [.cas false] }, false)
  | .loadRelaxedIsAll => ({ m with trace := m.trace ++ [.load] }, decide (m.s.flags = allMask m.s.n))
  | .loadAcquireIsAll => ({ m with trace := m.trace ++ [.load] }, decide (m.s.flags = allMask m.s.n))

/-- a loop body is run until it returns, at most `fuel` times -/
def loopN : Nat → (CM → CM) → CM → CM
  | 0, _, m => m
  | n + 1, f, m => let m' := f m; if m'.ret.isSome then m' else loopN n f m'

/-- without interference the `rescind` loop returns in its first iteration; 2 is generous -/
def loopFuel : Nat := 2

def execC : CStmt → CM → CM
  | .skip, m => m
  | .seq a b, m => let m' := execC a m; if m'.ret.isSome then m' else execC b m'
  | .ite c t e, m => if (evalC m c).2 then execC t (evalC m c).1 else execC e (evalC m c).1
  | .loop b, m => loopN loopFuel (fun x => execC b x) m
  | .call p, m => { execC p m with ret := none }
  | .ret r, m => { m with ret := some r }
  | .fetchOr, m =>
      { m with before := m.s.flags, s := { m.s with flags := m.s.flags ||| flagOf m.i }, trace := m.trace ++ [.fetchOr] }
  | .setVoted b, m => { m with voted := b }
  | .wake, m =>
      { m with s := { m.s with woken := true, parked := false, wakes := m.s.wakes + (if m.s.parked then 1 else 0) },
               trace := m.trace ++ [.wake] }
  | .loadCurrent, m => { m with current := m.s.flags, trace := m.trace ++ [.load] }
  | .register, m => { m with s := { m.s with parked := true }, trace := m.trace ++ [.register] }

def start (s : St) (i : Nat) (v : Voter) : CM := { s := s, i := i, voted := v.voted }

/-- write the voter's cell back into the model state -/
def finish (m : CM) (pc : PC) : St := setVoter m.s m.i { voted := m.voted, pc := pc }

end SwimVerif.CoordProg
