/-
Observable-level monitor for C12: decides the property on a trace of (operation, observed result) pairs
alone, so it can be run over traces of the *implementation*.
-/
import SwimVerif.Model.Conduit

namespace SwimVerif.Conduit

structure Mon where
  cap : Nat := 0
  written : List Nat := []
  readout : List Nat := []
  closed : Bool := false
  waitR : Bool := false
  waitW : Bool := false
  deriving Repr

def isPrefix : List Nat → List Nat → Bool
  | [], _ => true
  | _ :: _, [] => false
  | a :: as, b :: bs => a == b && isPrefix as bs

/-- One observed step. Returns the new monitor state and `some reason` on a violation. -/
def Mon.step (m : Mon) (op : Op) (o : Out) : Mon × Option String :=
  -- wake-ups observed in this step clear the waiting flags afterwards
  let closes : Bool := match op, o.res with
    | .shutdown, .unit => true
    | .dropR, .unit => true
    | .dropW, .unit => true
    | _, _ => false
  match op, o.res with
  | .read k, .bytes bs =>
    let m1 := { m with waitR := false }
    let ro := m1.readout ++ bs
    if !(isPrefix ro m1.written) then (m1, some "read-not-prefix-of-written")
    else if bs.length > k then (m1, some "read-more-than-requested")
    else if bs.isEmpty && k > 0 && m1.written.length > m1.readout.length then (m1, some "read-nothing-though-data-buffered")
    else if bs.isEmpty && k > 0 && !m1.closed then (m1, some "eof-before-close")
    else if m1.waitW && !bs.isEmpty && !o.wokeW then (m1, some "lost-wakeup-writer")
    else ({ m1 with readout := ro, waitW := m1.waitW && !o.wokeW }, none)
  | .read _, .pending =>
    if o.wokeR then ({ m with waitR := false }, none)       -- budget yield with self-wake
    else if m.written.length > m.readout.length then (m, some "read-pending-though-data-buffered")
    else if m.closed then (m, some "read-pending-after-close")
    else ({ m with waitR := true }, none)
  | .write bs, .count n =>
    let m1 := { m with waitW := false }
    if n > bs.length then (m1, some "accepted-more-than-offered")
    else if m1.closed then (m1, some "write-accepted-after-close")
    else if m1.written.length - m1.readout.length + n > m1.cap then (m1, some "capacity-exceeded")
    else if n = 0 && !bs.isEmpty then (m1, some "zero-write")
    else if m1.waitR && n > 0 && !o.wokeR then (m1, some "lost-wakeup-reader")
    else ({ m1 with written := m1.written ++ bs.take n, waitR := m1.waitR && !o.wokeR }, none)
  | .write _, .pending =>
    if o.wokeW then ({ m with waitW := false }, none)
    else if m.closed then (m, some "write-pending-after-close")
    else if m.written.length - m.readout.length < m.cap then (m, some "write-pending-though-space")
    else ({ m with waitW := true }, none)
  | .write _, .err =>
    if m.closed then ({ m with waitW := false }, none) else (m, some "write-error-on-open-channel")
  | .flush, _ => ({ m with waitW := false }, none)
  | .setBudget _, _ => (m, none)
  | _, .na => (m, none)
  | _, _ =>
    if closes then
      if m.waitR && !m.closed && !o.wokeR && !(match op with | .dropR => true | _ => false) then
        (m, some "lost-wakeup-reader-on-close")
      else if m.waitW && !m.closed && !o.wokeW && (match op with | .dropR => true | _ => false) then
        (m, some "lost-wakeup-writer-on-close")
      else ({ m with closed := true, waitR := m.waitR && !o.wokeR, waitW := m.waitW && !o.wokeW }, none)
    else
      match op, o.res with
      | .shutdown, .pending => if o.wokeW then (m, none) else (m, some "shutdown-pending-without-wake")
      | _, _ => (m, some "unexpected-result")

def parseRes : List String → Option Res
  | ["bytes", h] => (bytesOfHex h).map .bytes
  | ["count", n] => n.toNat?.map .count
  | ["unit"] => some .unit
  | ["pending"] => some .pending
  | ["err"] => some .err
  | ["na"] => some .na
  | _ => none

def parseOut (s : String) : Option Out :=
  match (words s).reverse with
  | ww :: wr :: rest =>
    match parseRes rest.reverse with
    | some r => some ⟨r, wr == "wr=1", ww == "ww=1"⟩
    | none => none
  | _ => none

end SwimVerif.Conduit
