/-
Model of `CommandOutput` (`agent/task/external_links/mod.rs`, C14): per-target buffers of encoded command records,
`LaneBuffer.offset` marking the start of a trailing *overwritable* record, the `dirty` list, `write` (single-target
swap vs multi-target append into the channel writer's own buffer) and the completion of a write.
A record is `(target, command)`; targets and commands are numbers. Model = the code after the `fix:` that clears the
writer's buffer before the multi-target append.
-/
import SwimVerif.Model.AssocList
import SwimVerif.Model.Util

namespace SwimVerif.Cmd

structure Cmd where
  id : Nat
  overwrite : Bool           -- `overwrite_permitted`
  deriving DecidableEq, Repr

structure LaneBuffer where
  recs : List Cmd := []      -- `buffer`: the encoded records, in order
  offset : Nat := 0          -- number of records before the last written record (`offset`, in records)
  deriving Repr

structure St where
  writerHome : Bool := true                 -- `writer.is_some()`
  writerBuf : List (Nat × Cmd) := []        -- `CmdChannelWriter.buffer` (kept between writes)
  bufs : List (Nat × LaneBuffer) := []      -- `lane_buffers` (by target)
  dirty : List Nat := []                    -- `dirty`
  -- ghost
  channel : List (Nat × Cmd) := []          -- everything written to the output channel `(target, command)`
  inflight : List (Nat × Cmd) := []         -- what the write in flight is sending
  appended : List (Nat × Cmd) := []         -- every `append`, in order
  deriving Repr

inductive Op
  | append (t : Nat) (c : Cmd)
  | write                      -- `CommandOutput::write` (a no-op unless the writer is present and something is dirty)
  | done                       -- the write future completed: `replace_writer`
  deriving Repr

def getBuf (s : St) (t : Nat) : LaneBuffer := (alGet s.bufs t).getD {}

/-- `append`: truncate back to `offset`, encode the record, move `offset` past it unless it may be overwritten. -/
def doAppend (s : St) (t : Nat) (c : Cmd) : St :=
  let b := getBuf s t
  let kept := b.recs.take b.offset
  { s with bufs := alSet s.bufs t { recs := kept ++ [c], offset := if c.overwrite then kept.length else kept.length + 1 },
           dirty := s.dirty ++ [t], appended := s.appended ++ [(t, c)] }

/-- the multi-target branch: drain `dirty`, appending every buffer to the (cleared) writer buffer -/
def drainDirty : List Nat → List (Nat × LaneBuffer) → List (Nat × Cmd) → List (Nat × LaneBuffer) × List (Nat × Cmd)
  | [], bufs, acc => (bufs, acc)
  | t :: rest, bufs, acc =>
    match alGet bufs t with
    | some b => drainDirty rest (alSet bufs t { recs := [], offset := 0 }) (acc ++ b.recs.map (fun c => (t, c)))
    | none => drainDirty rest bufs acc

def doWrite (s : St) : St :=
  if !s.writerHome then s else
  match s.dirty with
  | [] => s
  | t :: rest =>
    match alGet s.bufs t with
    | none => s
    | some b =>
      if rest.isEmpty then
        -- single target: swap the lane buffer with the (cleared) writer buffer
        { s with writerHome := false, writerBuf := b.recs.map (fun c => (t, c)), inflight := b.recs.map (fun c => (t, c)),
                 bufs := alSet s.bufs t { recs := [], offset := 0 }, dirty := [] }
      else
        let r := drainDirty s.dirty s.bufs []
        { s with writerHome := false, writerBuf := r.2, inflight := r.2, bufs := r.1, dirty := [] }

def doDone (s : St) : St :=
  if s.writerHome then s
  else { s with writerHome := true, channel := s.channel ++ s.inflight, inflight := [] }

def step (s : St) : Op → St
  | .append t c => doAppend s t c
  | .write => doWrite s
  | .done => doDone s

def run (s : St) (ops : List Op) : St := ops.foldl step s

/-! ghost views per target -/

def cmdsFor (t : Nat) (l : List (Nat × Cmd)) : List Cmd := (l.filter (·.1 = t)).map (·.2)

/-- what has reached the channel, then what is in flight, then what is pending in the target's buffer -/
def St.flow (s : St) (t : Nat) : List Cmd :=
  cmdsFor t s.channel ++ cmdsFor t s.inflight ++ (getBuf s t).recs

def St.appendedFor (s : St) (t : Nat) : List Cmd := cmdsFor t s.appended

/-! ### Line protocol: `new` | `append <t> <id> <ow>` | `write` | `done`; output = bytes handed to the channel -/

def renderRecs (l : List (Nat × Cmd)) : String :=
  if l.isEmpty then "-" else ",".intercalate (l.map fun p => s!"{p.1}:{p.2.id}")

def stepLine (s : St) (line : String) : St × String :=
  match words line with
  | ["new"] => ({}, "ok")
  | ["new", _] => ({}, "ok")     -- `new <channel capacity>`: the capacity of the outgoing byte channel is not observable
  | ["append", t, id, ow] => match t.toNat?, id.toNat? with
    | some t, some id => (doAppend s t ⟨id, ow != "0"⟩, "ok")
    | _, _ => (s, "bad-op")
  | ["write"] =>
    let s' := doWrite s
    (s', if !s.writerHome || s'.writerHome then "none" else s!"sent {renderRecs s'.inflight}")
  | ["done"] => (doDone s, if s.writerHome then "none" else "ok")
  | _ => (s, "bad-op")

/-- Observable-level monitor: the concatenation of everything sent, per target, must be obtainable from the appended
commands by deleting only overwritable commands that were followed by a later command to the same target, and
whatever is missing at the end must still be pending (at most: everything after the last sent). -/
structure Mon where
  appended : List (Nat × Cmd) := []
  sent : List (Nat × Nat) := []
  deriving Repr

/-- greedy check that `sent` (ids) is obtained from `app` by dropping only superseded overwritable commands;
returns the number of trailing appended commands not yet sent -/
def matchSent : List Cmd → List Nat → Option Nat
  | app, [] => some app.length
  | [], _ :: _ => none
  | a :: rest, x :: xs =>
    if a.id = x then matchSent rest xs
    else if a.overwrite && !rest.isEmpty then matchSent rest (x :: xs)
    else none

def Mon.check (m : Mon) : Option String :=
  let targets := (m.appended.map (·.1)).eraseDups
  targets.foldl (fun (acc : Option String) t =>
    match acc with
    | some e => some e
    | none =>
      match matchSent ((m.appended.filter (·.1 = t)).map (·.2)) ((m.sent.filter (·.1 = t)).map (·.2)) with
      | some _ => none
      | none => some "command-dropped-duplicated-or-reordered") none

def parseSent (s : String) : Option (List (Nat × Nat)) :=
  if s = "-" then some [] else
  (s.splitOn ",").mapM fun x => match x.splitOn ":" with
    | [t, i] => match t.toNat?, i.toNat? with
      | some t, some i => some (t, i)
      | _, _ => none
    | _ => none

def Mon.step (m : Mon) (line : String) (out : String) : Mon × Option String :=
  match words line with
  | ["new"] => ({}, none)
  | ["new", _] => ({}, none)
  | ["append", t, id, ow] => match t.toNat?, id.toNat? with
    | some t, some id => ({ m with appended := m.appended ++ [(t, ⟨id, ow != "0"⟩)] }, none)
    | _, _ => (m, some "unparsable")
  | ["write"] =>
    match words out with
    | ["none"] => (m, none)
    | ["sent", recs] => match parseSent recs with
      | some rs =>
        let m' := { m with sent := m.sent ++ rs }
        (m', m'.check)
      | none => (m, some "unparsable")
    | _ => (m, some "unparsable")
  | ["done"] => (m, none)
  | _ => (m, some "unparsable")

end SwimVerif.Cmd
