/-
Line protocol, executable model and observable-level monitor for the C05 end-to-end engine (`sv-c05`): the merged
log of a REAL agent run — calls on the recording `NodePersistence`, frames delivered to remotes, the crash cut,
the restart and what every item holds afterwards — rendered one entry per line (keys and values are raw bytes).

  cfg … | script … | script2 … | end <mode> [n] | do … | live   ;; ok
  item <name> <value|map> <persistent 0|1> <default>   ;; ok
  idfor <name>                                         ;; id=<id>         (ids are handed out in request order)
  store get <id> | store readmap <id>                  ;; val=<hex|none> | map=<entries>
  store put <id> <hex> | upd <id> <k> <v> | rem <id> <k> | clr <id>   ;; ok
  storefail | crash | ended <how> | restart            ;; ok
  send <remote> <lane> linked|synced|unlinked|event <hex> | event upd <k> <v> | event rem <k> | event clr   ;; ok
  start                                                ;; at-start <name>=<state> …   (what `on_start` saw)
  restored <name>                                      ;; val=<hex> | map=<entries> | none   (what a sync / the probe saw)

Lanes registered while the agent runs (the `late` rig: a harness-implemented `Agent` that calls
`AgentContext::add_lane` on a scripted step and speaks the lane protocol itself):
  do addlane <name> <value|map> <transient 0|1>        ;; ok
  added <name> <ok|err>                                ;; ok              (`add_lane` returned the lane's channels / failed)
  init <name>                                          ;; val=<hex> | map=<entries>   (what the lane held when its
                                                          initialisation was complete: `InitComplete` received and
                                                          answered, or — transient — at once)

Failure of the store's id lookup (`NodePersistence::id_for` → `AgentPersistence::store_id`) with an error other than
`NoStoreAvailable`, injected at the n-th lookup of the first start (`end idfail n`) or of the restart (`rfail n`):
  idfail <name>                                        ;; ok      the lookup for item <name> failed
  restartfailed                                        ;; ok      the restarted agent did not come up (the start
                                                                  failed / the restore did not complete in the time box)
The agent must then NOT run (no `on_start`, no lane initialised, nothing stored), the failure must be reported
(`ended failed-restoration | persistence-failure`), and the next start restores everything. A restart that does not
come up without an injected failure is a violation (`restart-did-not-complete`).

The model answers every line from the store operations seen so far: the state of an item after a (re)start is
`restore ∘ fold` of the logged store operations, a transient item's state is its default. The monitor decides C05
on the observed log alone.
-/
import SwimVerif.Model.Persist

namespace SwimVerif.Persist.IO
open SwimVerif.Persist

inductive IKind | value | map
  deriving DecidableEq, Repr

structure Item where
  name : String
  kind : IKind
  persistent : Bool
  dflt : Bytes
  deriving Repr

structure LSt where
  items : List Item := []
  ids : List String := []               -- `id_for`: position = id
  store : StoreState Bytes := {}

def bytesLe : List Nat → List Nat → Bool
  | [], _ => true
  | _ :: _, [] => false
  | a :: as, b :: bs => if a < b then true else if b < a then false else bytesLe as bs

def insertEntry (e : Bytes × Bytes) : List (Bytes × Bytes) → List (Bytes × Bytes)
  | [] => [e]
  | x :: xs => if bytesLe e.1 x.1 then e :: x :: xs else x :: insertEntry e xs

def sortEntries (m : List (Bytes × Bytes)) : List (Bytes × Bytes) := m.foldr insertEntry []

def renderMap (m : List (Bytes × Bytes)) : String :=
  if m.isEmpty then "-"
  else ",".intercalate ((sortEntries m).map fun p => s!"{hexOfBytes p.1}:{hexOfBytes p.2}")

def LSt.item? (s : LSt) (name : String) : Option Item := s.items.find? (fun it => it.name == name)

def LSt.sidOf (s : LSt) (name : String) : Option Nat :=
  let i := s.ids.idxOf name
  if i < s.ids.length then some i else none

/-- What the item holds after `run_item_initializer` against the current store. -/
def LSt.itemState (s : LSt) (it : Item) : String :=
  let sid := if it.persistent then s.sidOf it.name else none
  match it.kind with
  | .value => hexOfBytes (restoreValue s.store sid it.dflt)
  | .map => renderMap (restoreMap s.store sid)

def LSt.taggedState (s : LSt) (it : Item) : String :=
  (match it.kind with | .value => "val=" | .map => "map=") ++ s.itemState it

def LSt.allStates (s : LSt) : String :=
  "at-start " ++ " ".intercalate (s.items.map fun it => s!"{it.name}={s.itemState it}")

def parseStoreOp : List String → Option (SOp Bytes)
  | ["put", sid, h] => do let i ← sid.toNat?; let b ← bytesOfHex h; pure (.put i b)
  | ["upd", sid, k, v] => do let i ← sid.toNat?; let kb ← bytesOfHex k; let vb ← bytesOfHex v; pure (.map i (.upd kb vb))
  | ["rem", sid, k] => do let i ← sid.toNat?; let kb ← bytesOfHex k; pure (.map i (.rem kb))
  | ["clr", sid] => do let i ← sid.toNat?; pure (.map i .clear)
  | _ => none

/-- The model: the output of every line. -/
def LSt.step (s : LSt) (line : String) : LSt × String :=
  match words line with
  | "cfg" :: _ => (s, "ok")
  | "script" :: _ => (s, "ok")
  | "script2" :: _ => (s, "ok")
  | ["live"] => (s, "ok")
  | "end" :: _ => (s, "ok")
  | "do" :: _ => (s, "ok")
  | "send" :: _ => (s, "ok")
  | ["crash"] => (s, "ok")
  | ["storefail"] => (s, "ok")
  | ["restart"] => (s, "ok")
  | ["restartfailed"] => (s, "ok")
  | ["idfail", _] => (s, "ok")
  | ["rfail", _] => (s, "ok")
  | ["ended", _] => (s, "ok")
  | ["item", name, kind, p, d] =>
    match bytesOfHex d with
    | some db =>
      let k := if kind == "map" then IKind.map else IKind.value
      ({ s with items := s.items ++ [{ name := name, kind := k, persistent := p == "1", dflt := if k = .map then [] else db }] }, "ok")
    | none => (s, "bad-op")
  | ["idfor", name] =>
    match s.sidOf name with
    | some i => (s, s!"id={i}")
    | none => ({ s with ids := s.ids ++ [name] }, s!"id={s.ids.length}")
  | ["store", "get", sid] =>
    match sid.toNat? with
    | some i => (s, "val=" ++ (match s.store.getValue i with | some b => hexOfBytes b | none => "none"))
    | none => (s, "bad-op")
  | ["store", "readmap", sid] =>
    match sid.toNat? with
    | some i => (s, "map=" ++ renderMap (s.store.readMap i))
    | none => (s, "bad-op")
  | "store" :: rest =>
    match parseStoreOp rest with
    | some op => ({ s with store := applyStore s.store op }, "ok")
    | none => (s, "bad-op")
  | ["start"] => (s, s.allStates)
  | ["added", _, _] => (s, "ok")
  | ["init", name] =>
    match s.item? name with
    | some it => (s, s.taggedState it)
    | none => (s, "bad-op")
  | ["restored", name] =>
    match s.item? name with
    | some it => (s, s.taggedState it)
    | none => (s, "bad-op")
  | _ => (s, "bad-op")

/-! ### Monitor -/

structure Mon where
  st : LSt := {}
  /-- store operations seen so far, as `(store id, rendered operation)` -/
  stored : List (Nat × String) := []
  restarted : Bool := false
  /-- between a restart and the `live` mark nothing but the restore happens: the store must not change -/
  quiet : Bool := false
  /-- the states every item must come back with: snapshot of `restore ∘ fold` at the restart -/
  expect : List (String × String) := []
  failed : Bool := false
  /-- an id lookup of this incarnation failed: the agent must not run (any item, as transient or otherwise) -/
  idfailed : Bool := false
  crashed : Bool := false
  ended : Option String := none

def renderOpKey : List String → String := fun ws => " ".intercalate ws

/-- The rendered store operation that hands the state carried by an event body to the store. -/
def neededStore (kind : IKind) (body : List String) : Option String :=
  match kind, body with
  | .value, [h] => some s!"put {h}"
  | .map, ["upd", k, v] => some s!"upd {k} {v}"
  | .map, ["rem", k] => some s!"rem {k}"
  | .map, ["clr"] => some "clr"
  | _, _ => none

def Mon.storeLine (m : Mon) (line : String) (rest : List String) (verb : String) (sid : Nat) (opText : String) :
    Mon × Option String :=
  match m.st.ids[sid]? with
  | none => (m, some "store-operation-on-unassigned-id")
  | some name =>
    match m.st.item? name with
    | none => (m, some "store-operation-for-unknown-item")
    | some it =>
      if m.idfailed then (m, some "item-ran-transient-after-id-failure")
      else if !it.persistent then (m, some "store-operation-for-transient-item")
      else if (it.kind = .value) != (verb == "put") then (m, some "store-operation-of-wrong-kind")
      else
        let before := m.st.itemState it
        let st' := (m.st.step line).1
        let m' := { m with st := st', stored := (sid, opText) :: m.stored }
        if m.quiet && st'.itemState it != before then (m', some "store-changed-by-restart")
        else (m', none)

def Mon.step (m : Mon) (line : String) (out : String) : Mon × Option String :=
  let model := m.st.step line
  match words line with
  | ["idfor", name] =>
    let m' := { m with st := model.1 }
    if out != model.2 then (m', some "store-log-inconsistent")
    else match m.st.item? name with
      | none => (m', some "store-id-requested-for-unknown-item")
      | some it => if it.persistent then (m', none) else (m', some "store-id-requested-for-transient-item")
  | ["store", "get", _] => (m, if out != model.2 then some "store-log-inconsistent" else none)
  | ["store", "readmap", _] => (m, if out != model.2 then some "store-log-inconsistent" else none)
  | "store" :: verb :: sid :: args =>
    match sid.toNat?, parseStoreOp (verb :: sid :: args) with
    | some i, some _ => m.storeLine line (verb :: sid :: args) verb i (renderOpKey (verb :: args))
    | _, _ => (m, some "unparsable-store-operation")
  | "send" :: _ :: lane :: note =>
    match note with
    | "event" :: body =>
      match m.st.item? lane with
      | none => (m, none)                         -- command lane / report lane: not an item with state
      | some it =>
        if !it.persistent then (m, none)
        else match m.st.sidOf lane with
          | none => (m, some "persistent-item-without-store-id")
          | some sid =>
            match neededStore it.kind body with
            | none => (m, some "unparsable-event-body")
            | some need =>
              if m.stored.contains (sid, need) then (m, none) else (m, some "published-before-stored")
    | _ => (m, none)
  | ["live"] => ({ m with quiet := false }, none)
  | ["storefail"] => ({ m with failed := true }, none)
  | ["crash"] => ({ m with crashed := true }, none)
  | ["ended", how] => ({ m with ended := some how }, none)
  | ["idfail", _] => ({ m with idfailed := true }, none)
  | ["restartfailed"] =>
    -- without an injected failure the restarted agent has to come up and restore
    (m, if m.idfailed then none else some "restart-did-not-complete")
  | ["restart"] =>
    let m' := { m with restarted := true, quiet := true, ended := none, crashed := false, failed := false,
                       idfailed := false,
                       expect := m.st.items.map fun it => (it.name, m.st.taggedState it) }
    if m.crashed then (m', none)
    else if m.idfailed then
      (m', if m.ended == some "failed-restoration" || m.ended == some "persistence-failure" then none
           else some "id-failure-not-reported")
    else if m.failed then
      (m', if m.ended == some "persistence-failure" then none else some "store-failure-not-reported")
    else (m', if m.ended == some "ok" then none else some "agent-did-not-stop-cleanly")
  | ["start"] =>
    if m.idfailed then (m, some "item-ran-transient-after-id-failure")
    else if out != model.2 then (m, some (if m.restarted then "state-at-on-start-differs-from-store" else "initial-state-not-default"))
    else (m, none)
  | ["added", _, how] =>
    -- registration can only fail when the runtime has gone (a store / id failure ended it)
    (m, if how == "ok" || m.failed || m.idfailed then none else some "lane-registration-failed")
  | ["init", name] =>
    match m.st.item? name with
    | some it =>
      if m.idfailed then (m, some "item-ran-transient-after-id-failure")
      else if out == model.2 then (m, none)
      else if !it.persistent then (m, some "transient-item-not-at-default")
      else (m, some "state-at-registration-differs-from-store")
    | none => (m, some "unparsable")
  | ["restored", name] =>
    match m.st.item? name, m.expect.lookup name with
    | some it, some want =>
      if out == want then (m, none)
      else if !it.persistent then (m, some "transient-item-not-at-default")
      else (m, some "restored-state-differs-from-store")
    | _, _ => (m, some "restored-unknown-item")
  | "item" :: _ => ({ m with st := model.1 }, if model.2 == "ok" then none else some "unparsable")
  | _ => (m, if model.2 == "bad-op" then some "unparsable" else none)

end SwimVerif.Persist.IO
