/-
C17 at the level of its CALLERS: the inactivity discipline of the three tasks of the agent runtime
(`runtime/swimos_runtime/src/agent/task/mod.rs`: `read_task`, `write_task`, `http_task`, `AgentRuntimeTask::run`)
composed with the coordinator model (`Model/TimeoutCoord.lean`, three parties: 0 = read, 1 = write, 2 = HTTP).

Each task = a voter + "busy" state + its timer:
* read task  — a fresh `timeout(inactive_timeout, …)` per loop iteration (`rDl`); on `Timeout` it calls `vote()` (every
  time); an ENVELOPE first rescinds the vote (`if voted { rescind() }`), then is dispatched and may block feeding a
  lane whose input buffer is full (`rBusy`; no timer is running then); a registration or the end of the last remote
  stream only restarts the timer.
* write task — one `Sleep` (`wDl`) that is reset by coordination messages from the read task and by lane responses,
  and is disabled while the vote is cast; when it fires: **no remotes ⇒ the task stops at once** (no vote), else
  `voted = true; disable; vote()`; a scheduled write (`Linked`, `Unlinked`, `laneNotFound`) or a lane response
  rescinds.
* HTTP task  — `timeout(inactive_timeout, requests.recv())` per iteration (`hDl`); `Timeout` ⇒ `if !voted { vote() }`;
  a request first rescinds, then is dispatched with `tx.reserve().await`, which blocks while the request queue of the
  lane is full (`hBusy`).
* `AgentRuntimeTask::run` — the attachment task stops everything when the vote `Receiver` completes, i.e. as soon as
  every flag is set (`settle`); it also stops when the read or write task ends (kill switch).

Time is in ms; between two script ops no time passes; `adv k` lets the clock run for `100 k` ms, firing the timers in
deadline order (ties: HTTP, read, write — the poll order of `join4(att, ext_links, http, select(read, write))`).
Ghost fields `rAct / wAct / hAct` (time of the last vote-rescinding activity of the task) influence nothing.
-/
import SwimVerif.Model.TimeoutCoord

namespace SwimVerif.InactRt
open SwimVerif

inductive Frame
  | cmd
  | sync (r : Nat)
  deriving DecidableEq, Repr

inductive StopKind
  | unanimous    -- the vote receiver completed
  | noRemotes    -- the write task timed out with no remotes attached and stopped without a vote
  deriving DecidableEq, Repr

structure Stop where
  kind : StopKind
  time : Nat
  ret : Bool        -- `run_agent` returns (no task is stuck in a blocked send)
  writeSaw : Bool   -- the write task was the one told `Unanimous` (remotes are told `AgentTimedOut`)
  deriving DecidableEq, Repr

structure St where
  T : Nat
  now : Nat := 0
  coord : Coord.St := Coord.init 3
  cevs : List Coord.Ev := []          -- ghost: the coordinator's history (`coord = Coord.run (Coord.init 3) cevs`)
  -- read task
  rVoted : Bool := false
  rDl : Nat
  rBusy : Bool := false
  rRemotes : Nat := 0
  rAct : Nat := 0                    -- ghost
  -- write task
  wVoted : Bool := false
  wDl : Nat
  wEnabled : Bool := true
  wRemotes : List Nat := []
  links : List (Nat × Nat) := []     -- (lane, remote)
  wSaw : Bool := false
  wAct : Nat := 0                    -- ghost
  -- HTTP task
  hVoted : Bool := false
  hDl : Nat
  hBusy : Bool := false
  hFill : Nat := 0
  hAct : Nat := 0                    -- ghost
  -- the environment
  attached : List Nat := []          -- remotes that are attached and not detached
  ever : List Nat := []              -- remote ids used so far
  lq0 : List Frame := []             -- input of lane 0 (a blocked frame is the last one)
  lq1 : List Frame := []
  busyLane : Nat := 0
  stop : Option Stop := none
  deriving Repr

def init (T : Nat) : St := { T := T, rDl := T, wDl := T, hDl := T }

inductive Op
  | attach (r : Nat) | detach (r : Nat)
  | link (r l : Nat) | sync (r l : Nat) | unlink (r l : Nat) | cmd (r l : Nat)
  | take (l : Nat) | ev (l : Nat) | synced (l r : Nat)
  | http (known : Bool) | httpread
  | adv (k : Nat)
  deriving DecidableEq, Repr

inductive Ack
  | ok | skipped | got (f : Frame) | gotReq | none
  deriving DecidableEq, Repr

/-! ### the voters -/

def READ : Nat := 0
def WRITE : Nat := 1
def HTTP : Nat := 2

/-- the atomic steps of one whole `rescind` call of party `i` -/
def rescindEvs (c : Coord.St) (i : Nat) : List Coord.Ev :=
  if (Coord.stepAct c i .rescind).2 = .cont then [.act i .rescind, .act i .cas] else [.act i .rescind]

/-- `Voter::vote` of party `i` -/
def voteAs (s : St) (i : Nat) : St :=
  { s with coord := (Coord.stepAct s.coord i .vote).1, cevs := s.cevs ++ [.act i .vote] }
/-- … was it told `Unanimous`? -/
def voteTold (s : St) (i : Nat) : Bool := (Coord.stepAct s.coord i .vote).2 == .unanimous

/-- `Voter::rescind` of party `i` (the whole call) -/
def rescindAs (s : St) (i : Nat) : St :=
  { s with coord := (Coord.apiRescind s.coord i).1, cevs := s.cevs ++ rescindEvs s.coord i }
def rescindTold (s : St) (i : Nat) : Bool := (Coord.apiRescind s.coord i).2 == .unanimous

/-- `combined_stop`: the attachment task ends the run as soon as the vote receiver is ready. -/
def settle (s : St) : St :=
  if s.stop.isSome then s
  else if s.coord.flags = Coord.allMask 3 then
    { s with stop := some { kind := .unanimous, time := s.now, ret := !(s.hBusy || s.rBusy), writeSaw := s.wSaw } }
  else s

/-! ### plain state updates (no votes, no timers) -/

def addRemote (s : St) (r : Nat) : St :=
  { s with attached := r :: s.attached, ever := r :: s.ever, rRemotes := s.rRemotes + 1, wRemotes := r :: s.wRemotes }
def delAttached (s : St) (r : Nat) : St :=
  { s with attached := s.attached.filter (fun x => !(x == r)), rRemotes := s.rRemotes - 1 }
def linked (s : St) (l r : Nat) : Bool := s.links.contains (l, r)
def addLink (s : St) (l r : Nat) : St := { s with links := if linked s l r then s.links else (l, r) :: s.links }
def delLink (s : St) (l r : Nat) : St := { s with links := s.links.filter (fun p => !(p == (l, r))) }
/-- a write to a remote whose channel was dropped fails: `remove_remote` -/
def dropRemote (s : St) (r : Nat) : St :=
  { s with wRemotes := s.wRemotes.filter (fun x => !(x == r)), links := s.links.filter (fun p => !(p.2 == r)) }
/-- the remotes a broadcast on lane `l` is written to and that are gone -/
def deadTargets (s : St) (l : Nat) : List Nat :=
  (s.links.filter (fun p => p.1 == l && !(s.attached.contains p.2))).map (·.2)
def lq (s : St) (l : Nat) : List Frame := if l = 0 then s.lq0 else s.lq1
def setLq (s : St) (l : Nat) (q : List Frame) : St := if l = 0 then { s with lq0 := q } else { s with lq1 := q }
def setHFill (s : St) (n : Nat) : St := { s with hFill := n }

/-! ### read task -/

/-- `ReadTaskEvent::Envelope`: `if voted { if rescind() == Unanimous { break } else { voted = false } }`;
the second component: the task has left its loop. (No timer runs while the envelope is handled; the next one is
started when the loop comes round — `readRearm` / `readUnblock`, at the same instant or later: `rDl` is set here only
so that it is never stale.) -/
def readRescind (s : St) : St × Bool :=
  if s.rVoted then
    if rescindTold s READ then (rescindAs s READ, true)
    else ({ rescindAs s READ with rVoted := false, rAct := s.now, rDl := s.now + s.T }, false)
  else ({ s with rAct := s.now, rDl := s.now + s.T }, false)

/-- the loop comes round: a fresh `timeout(inactive_timeout, …)` -/
def readRearm (s : St) : St := { s with rDl := s.now + s.T }

/-- the dispatch of an envelope blocks on the full input of lane `l` (no timer runs meanwhile) -/
def readBlock (s : St) (l : Nat) : St := { s with rBusy := true, busyLane := l }
/-- … and gets through: the loop comes round -/
def readUnblock (s : St) : St := readRearm { s with rBusy := false }

/-- `ReadTaskEvent::Timeout`: `vote()`, `voted = true`. -/
def fireRead (s : St) : St :=
  { voteAs { s with now := max s.now s.rDl } READ with rVoted := true, rDl := max s.now s.rDl + s.T }

/-! ### write task -/

/-- a coordination message or a lane response resets the `Sleep` -/
def writeReset (s : St) : St := { s with wDl := s.now + s.T }

/-- `ScheduleWrite` / lane response: `if voted { if rescind() == Unanimous { break } enable_timeout(); voted = false }`. -/
def writeRescind (s : St) : St :=
  if s.wVoted then
    if rescindTold s WRITE then { rescindAs s WRITE with wSaw := true }
    else { rescindAs s WRITE with wVoted := false, wEnabled := true, wAct := s.now }
  else { s with wAct := s.now }

/-- `WriteTaskEvent::Timeout`. -/
def fireWrite (s : St) : St :=
  if s.wRemotes.isEmpty then
    -- "Stopping after timeout with no remotes."
    { s with now := max s.now s.wDl,
             stop := some { kind := .noRemotes, time := max s.now s.wDl, ret := !(s.hBusy || s.rBusy), writeSaw := false } }
  else
    { voteAs { s with now := max s.now s.wDl } WRITE with
        wVoted := true, wEnabled := false, wSaw := voteTold { s with now := max s.now s.wDl } WRITE }

/-! ### HTTP task -/

/-- `HttpTaskEvent::Request`: `if voted { match rescind() { Unanimous => break, UnanimityPending => voted = false } }` -/
def httpRescind (s : St) : St × Bool :=
  if s.hVoted then
    if rescindTold s HTTP then (rescindAs s HTTP, true)
    else ({ rescindAs s HTTP with hVoted := false, hAct := s.now, hDl := s.now + s.T }, false)
  else ({ s with hAct := s.now, hDl := s.now + s.T }, false)

def httpRearm (s : St) : St := { s with hDl := s.now + s.T }
/-- `tx.reserve().await` on a full queue -/
def httpBlock (s : St) : St := { s with hBusy := true }
def httpUnblock (s : St) : St := httpRearm { s with hBusy := false }

/-- `HttpTaskEvent::Timeout`: `if !voted { vote(); voted = true }`. -/
def fireHttp (s : St) : St :=
  if s.hVoted then { s with now := max s.now s.hDl, hDl := max s.now s.hDl + s.T }
  else { voteAs { s with now := max s.now s.hDl } HTTP with hVoted := true, hDl := max s.now s.hDl + s.T }

/-! ### the clock -/

inductive Task | http | read | write
  deriving DecidableEq, Repr

def hDue (s : St) (target : Nat) : Bool := !s.hBusy && decide (s.hDl ≤ target)
def rDue (s : St) (target : Nat) : Bool := !s.rBusy && decide (s.rDl ≤ target)
def wDue (s : St) (target : Nat) : Bool := s.wEnabled && decide (s.wDl ≤ target)

/-- the timer that fires next: the earliest deadline, ties in poll order -/
def pick (s : St) (target : Nat) : Option Task :=
  if hDue s target && (!rDue s target || decide (s.hDl ≤ s.rDl)) && (!wDue s target || decide (s.hDl ≤ s.wDl)) then
    some .http
  else if rDue s target && (!wDue s target || decide (s.rDl ≤ s.wDl)) then some .read
  else if wDue s target then some .write
  else none

def fire (s : St) : Task → St
  | .http => fireHttp s
  | .read => fireRead s
  | .write => fireWrite s

def setNow (s : St) (t : Nat) : St := { s with now := max s.now t }

def advLoop : Nat → Nat → St → St
  | 0, target, s => if s.stop.isSome then s else setNow s target
  | fuel + 1, target, s =>
    if s.stop.isSome then s else
    match pick s target with
    | none => setNow s target
    | some t => advLoop fuel target (settle (fire s t))

/-! ### script ops -/

/-- the read task writes a frame into the input of lane `l`: it fits if the buffer is empty, else the task blocks -/
def feed (s : St) (l : Nat) (f : Frame) : St :=
  if (lq s l).isEmpty then readRearm (setLq s l [f])
  else readBlock (setLq s l (lq s l ++ [f])) l

/-- the write task's part of a coordination message that makes it write (`Linked`, `Unlinked`, `laneNotFound`) -/
def writeAct (s : St) : St := writeRescind (writeReset s)

/-- may remote `r` send an envelope now? (the harness refuses while the read task is blocked) -/
def canSend (s : St) (r : Nat) : Bool := !s.rBusy && s.attached.contains r

/-- what the read task does with an envelope once its vote is withdrawn -/
def dispatch (s : St) : Op → St
  | .link r l => if l < 2 then readRearm (writeAct (addLink s l r)) else readRearm (writeAct s)   -- `UnknownLane`
  | .unlink r l =>
    if l < 2 then
      if linked s l r then readRearm (writeAct (delLink s l r))
      else readRearm (writeReset s)                              -- "Lane is not linked": nothing is written
    else readRearm (writeAct s)
  | .sync r l => if l < 2 then feed s l (.sync r) else readRearm (writeAct s)
  | .cmd _ l => if l < 2 then feed s l .cmd else readRearm s   -- a command for an unknown lane is dropped
  | _ => s

def envelope (s : St) (r : Nat) (op : Op) : St × Ack :=
  if canSend s r then
    if (readRescind s).2 then ((readRescind s).1, .ok)             -- told `Unanimous`: the task has gone
    else (dispatch (readRescind s).1 op, .ok)
  else (s, .skipped)

def step0 (s : St) : Op → St × Ack
  | .attach r =>
    if s.rBusy || s.ever.contains r then (s, .skipped)
    else
      -- `ReadTaskMessage::Remote` (restarts the read timer), `WriteTaskMessage::Remote` (no activity)
      (readRearm (addRemote s r), .ok)
  | .detach r =>
    if canSend s r then
      -- `SelectAll` yields `None` only when its last stream ends: `continue`
      (if (delAttached s r).rRemotes = 0 then readRearm (delAttached s r) else delAttached s r, .ok)
    else (s, .skipped)
  | .link r l => envelope s r (.link r l)
  | .unlink r l => envelope s r (.unlink r l)
  | .sync r l => envelope s r (.sync r l)
  | .cmd r l => envelope s r (.cmd r l)
  | .take l =>
    match lq s l with
    | [] => (s, .none)
    | f :: rest =>
      if s.rBusy && s.busyLane == l then (readUnblock (setLq s l rest), .got f) else (setLq s l rest, .got f)
  | .ev l => ((deadTargets (writeAct s) l).foldl dropRemote (writeAct s), .ok)
  | .synced l r =>
    if (writeAct s).wRemotes.contains r then
      (if (writeAct s).attached.contains r then addLink (writeAct s) l r else dropRemote (addLink (writeAct s) l r) r, .ok)
    else (writeAct s, .ok)
  | .http known =>
    if s.hBusy then (s, .skipped)
    else if (httpRescind s).2 then ((httpRescind s).1, .ok)
    else if known then
      if (httpRescind s).1.hFill = 0 then (httpRearm (setHFill (httpRescind s).1 1), .ok)
      else (httpBlock (httpRescind s).1, .ok)
    else (httpRearm (httpRescind s).1, .ok)                       -- 404
  | .httpread =>
    if s.hFill = 0 then (s, .none)
    else if s.hBusy then (httpUnblock s, .gotReq)
    else (setHFill s 0, .gotReq)
  | .adv k => (advLoop (3 * (k + 1) + 3) (s.now + 100 * k) s, .ok)

def step (s : St) (op : Op) : St × Ack :=
  if s.stop.isSome then (s, .skipped) else ((settle (step0 s op).1), (step0 s op).2)

def run (s : St) (ops : List Op) : St := ops.foldl (fun s op => (step s op).1) s

/-! ### line protocol -/

def parseOp (line : String) : Option Op :=
  match words line with
  | ["attach", r] => r.toNat?.map .attach
  | ["detach", r] => r.toNat?.map .detach
  | ["link", r, l] => do let r ← r.toNat?; let l ← l.toNat?; pure (.link r l)
  | ["sync", r, l] => do let r ← r.toNat?; let l ← l.toNat?; pure (.sync r l)
  | ["unlink", r, l] => do let r ← r.toNat?; let l ← l.toNat?; pure (.unlink r l)
  | ["cmd", r, l] => do let r ← r.toNat?; let l ← l.toNat?; pure (.cmd r l)
  | ["take", l] => do let l ← l.toNat?; if l < 2 then pure (.take l) else none
  | ["ev", l] => do let l ← l.toNat?; if l < 2 then pure (.ev l) else none
  | ["synced", l, r] => do let l ← l.toNat?; let r ← r.toNat?; if l < 2 then pure (.synced l r) else none
  | ["http", "h"] => some (.http true)
  | ["http", "x"] => some (.http false)
  | ["httpread"] => some .httpread
  | ["adv", k] => do let k ← k.toNat?; if k ≤ 100 then pure (.adv k) else none
  | _ => none

def Ack.render : Ack → String
  | .ok => "ok" | .skipped => "skipped" | .none => "none" | .gotReq => "got:req"
  | .got .cmd => "got:cmd" | .got (.sync r) => s!"got:sync{r}"

def reasonOf (s : St) (st : Stop) : String :=
  if s.attached.isEmpty then "none" else if st.writeSaw then "agent-timed-out" else "stopped-externally"

def status (s : St) : String :=
  match s.stop with
  | none => "up"
  | some st => s!"down {if st.ret then "ret" else "noret"} {reasonOf s st} @{st.time}"

/-- The machine state: `none` before the `rt` line. -/
def apiLine (s : Option St) (line : String) : Option St × String :=
  match words line with
  | ["rt", t] =>
    match t.toNat? with
    | some t => if 100 ≤ t ∧ t ≤ 100000 then (some (init t), "ok init@0") else (s, "bad-op")
    | none => (s, "bad-op")
  | _ =>
    match s, parseOp line with
    | some st, some op => let r := step st op; (some r.1, s!"{r.2.render} {status r.1}")
    | _, _ => (s, "bad-op")

/-! ### observable-level monitor

Decides the property on the implementation's trace alone. It keeps the script clock, per task the time of its last
vote-withdrawing activity as the script shows it, and which task the script has made busy.
* `rt-stopped-while-task-busy`: the runtime is down although a task is blocked in the middle of a dispatch;
* `rt-stopped-without-timeout`: down at a time when some task was active less than `T` ago;
* `rt-stopped-with-no-remotes-ignoring-active-task`: either of the two, with no remote attached (the write task's
  "no remotes" short cut, which does not consult the other tasks);
* `rt-not-stopped-after-unanimity`: still up although nothing has happened for more than `T` and nobody is busy
  (every task has voted, the last one was told `Unanimous`);
* `rt-run-did-not-return`: down, nobody was busy, but `run_agent` has not returned. -/

structure Mon where
  T : Nat := 0
  now : Nat := 0
  lastOp : Nat := 0
  actR : Nat := 0
  actW : Nat := 0
  actH : Nat := 0
  attached : List Nat := []
  ever : List Nat := []
  links : List (Nat × Nat) := []
  fill0 : Nat := 0
  fill1 : Nat := 0
  rBusy : Bool := false
  busyLane : Nat := 0
  hFill : Nat := 0
  hBusy : Bool := false
  deriving Repr

def Mon.fill (m : Mon) (l : Nat) : Nat := if l = 0 then m.fill0 else m.fill1
def Mon.setFill (m : Mon) (l n : Nat) : Mon := if l = 0 then { m with fill0 := n } else { m with fill1 := n }

def Mon.feed (m : Mon) (l : Nat) : Mon :=
  if m.fill l = 0 then m.setFill l 1 else { m.setFill l (m.fill l + 1) with rBusy := true, busyLane := l }

/-- effect of an executed (not skipped) op on what the monitor knows -/
def Mon.apply (m : Mon) (op : Op) (ack : String) : Mon :=
  if ack = "skipped" then m else
  let m := match op with | .adv _ => m | _ => { m with lastOp := m.now }
  match op with
  | .attach r => { m with attached := r :: m.attached, ever := r :: m.ever }
  | .detach r => { m with attached := m.attached.filter (fun x => !(x == r)) }
  | .link r l =>
    if l < 2 then { m with actR := m.now, actW := m.now, links := if m.links.contains (l, r) then m.links else (l, r) :: m.links }
    else { m with actR := m.now, actW := m.now }
  | .unlink r l =>
    if l < 2 then
      if m.links.contains (l, r) then
        { m with actR := m.now, actW := m.now, links := m.links.filter (fun p => !(p == (l, r))) }
      else { m with actR := m.now }
    else { m with actR := m.now, actW := m.now }
  | .sync _ l => if l < 2 then { m with actR := m.now }.feed l else { m with actR := m.now, actW := m.now }
  | .cmd _ l => if l < 2 then { m with actR := m.now }.feed l else { m with actR := m.now }
  | .take l =>
    if ack = "none" then m else
    let m1 := m.setFill l (m.fill l - 1)
    if m.rBusy && m.busyLane == l then { m1 with rBusy := false, actR := m.now } else m1
  | .ev _ => { m with actW := m.now }
  | .synced l r =>
    if m.ever.contains r then
      { m with actW := m.now, links := if m.links.contains (l, r) then m.links else (l, r) :: m.links }
    else { m with actW := m.now }
  | .http known =>
    if known then
      if m.hFill = 0 then { m with actH := m.now, hFill := 1 } else { m with actH := m.now, hBusy := true }
    else { m with actH := m.now }
  | .httpread =>
    if ack = "none" then m
    else if m.hBusy then { m with hBusy := false, actH := m.now }
    else { m with hFill := 0 }
  | .adv k => { m with now := m.now + 100 * k }

def stopTime (ws : List String) : Option Nat :=
  match ws.getLast? with
  | some w => if w.startsWith "@" then (w.drop 1).toString.toNat? else none
  | none => none

def Mon.step (m : Mon) (line : String) (out : String) : Mon × Option String :=
  match words line with
  | ["rt", t] => ({ T := t.toNat?.getD 0 }, if (words out).head? = some "ok" then none else some "rt-init-failed")
  | _ =>
    match parseOp line with
    | none => (m, some "unparsable")
    | some op =>
      let ws := words out
      let m1 := m.apply op (ws.headD "")
      match ws.drop 1 with
      | ["up"] =>
        if !m1.rBusy && !m1.hBusy && decide (m1.lastOp + m1.T < m1.now) then (m1, some "rt-not-stopped-after-unanimity")
        else (m1, none)
      | "down" :: ret :: _ =>
        match stopTime ws with
        | none => (m1, some "unparsable")
        | some t =>
          let noRem := m1.attached.isEmpty
          if m1.rBusy || m1.hBusy then
            (m1, some (if noRem then "rt-stopped-with-no-remotes-ignoring-active-task" else "rt-stopped-while-task-busy"))
          else if decide (t < m1.actR + m1.T) || decide (t < m1.actW + m1.T) || decide (t < m1.actH + m1.T) then
            (m1, some (if noRem then "rt-stopped-with-no-remotes-ignoring-active-task" else "rt-stopped-without-timeout"))
          else if ret = "ret" then (m1, none)
          else (m1, some "rt-run-did-not-return")
      | _ => (m1, some "unexpected-status")

end SwimVerif.InactRt
