/-
C11 (socket part): how `swimos_remote::task::text_frame_stream` turns web-socket frames into text messages.
`ratchet::Receiver::read(&mut buffer)` appends the payload of every data fragment to the caller's buffer and returns
`Message::Text` when the final fragment arrived, `Message::Ping/Pong` for control frames in between (RFC 6455 §5.4
allows them between the fragments of a message); `text_frame_stream` takes the whole buffer (`buffer.split()`) on
`Message::Text` and, for a control frame, goes on with the SAME buffer (`_ => Some((None, (Some(rx), buffer)))`).
A binary message, a data frame that does not fit the fragmentation state, or a close frame end the stream.
-/
import SwimVerif.Model.Util

namespace SwimVerif.WsFrames

inductive Frame
  | text (fin : Bool) (payload : List Nat)     -- opcode 1
  | cont (fin : Bool) (payload : List Nat)     -- opcode 0
  | binary (payload : List Nat)                -- opcode 2, unfragmented
  | ping
  | pong
  | close
  deriving DecidableEq, Repr

/-- the read buffer and whether a fragmented message is in progress -/
structure Asm where
  buf : List Nat := []
  inMsg : Bool := false
  deriving DecidableEq, Repr

inductive Out
  | none                        -- nothing for the incoming task (fragment stored, or control frame)
  | text (bytes : List Nat)     -- `Message::Text` with the accumulated payload
  | binary                      -- `InputError::BinaryFrame`
  | closed                      -- `Message::Close`
  | protoErr                    -- a frame that violates the fragmentation rules: `ratchet` reports a protocol error
  deriving DecidableEq, Repr

def step (a : Asm) : Frame → Asm × Out
  | .ping => (a, .none)         -- control frames leave the buffer untouched
  | .pong => (a, .none)
  | .close => (a, .closed)
  | .text fin p =>
    if a.inMsg then (a, .protoErr)
    else if fin then ({}, .text (a.buf ++ p))
    else ({ buf := a.buf ++ p, inMsg := true }, .none)
  | .cont fin p =>
    if !a.inMsg then (a, .protoErr)
    else if fin then ({}, .text (a.buf ++ p))
    else ({ buf := a.buf ++ p, inMsg := true }, .none)
  | .binary _ => if a.inMsg then (a, .protoErr) else (a, .binary)

/-- the outputs (other than `none`) of a frame sequence -/
def run (a : Asm) : List Frame → Asm × List Out
  | [] => (a, [])
  | f :: fs =>
    match step a f with
    | (a', .none) => run a' fs
    | (a', o) => ((run a' fs).1, o :: (run a' fs).2)

inductive Ctl | ping | pong
  deriving DecidableEq, Repr

def ctlFrames : List Ctl → List Frame
  | [] => []
  | .ping :: cs => .ping :: ctlFrames cs
  | .pong :: cs => .pong :: ctlFrames cs

/-- one text message sent as fragments: every chunk but the last is followed by any control frames -/
def fragFrames : Bool → List (List Nat × List Ctl) → List Nat → List Frame
  | first, [], last => [if first then .text true last else .cont true last]
  | first, (c, ctl) :: rest, last =>
    (if first then Frame.text false c else Frame.cont false c) :: (ctlFrames ctl ++ fragFrames false rest last)

/-! ### the plan language of the harness (`infrag <payload> <plan>`) -/

inductive Tok
  | take (n : Nat)     -- the next fragment carries `n` bytes
  | ping | pong
  | binary             -- a binary frame at this point
  | text               -- a new text frame at this point
  | close              -- a close frame, nothing more is sent
  deriving DecidableEq, Repr

def strayText : List Nat := "@event(node:x,lane:y)".toUTF8.toList.map UInt8.toNat

def planFrames : Bool → List Nat → List Tok → List Frame
  | first, rest, [] => [if first then .text true rest else .cont true rest]
  | first, rest, .take n :: ts =>
    (if first then Frame.text false (rest.take n) else Frame.cont false (rest.take n)) :: planFrames false (rest.drop n) ts
  | first, rest, .ping :: ts => .ping :: planFrames first rest ts
  | first, rest, .pong :: ts => .pong :: planFrames first rest ts
  | first, rest, .binary :: ts => .binary [1, 2] :: planFrames first rest ts
  | first, rest, .text :: ts => .text true strayText :: planFrames first rest ts
  | _, _, .close :: _ => [.close]

def Tok.parse (w : String) : Option (Option Tok) :=
  if w == "p" then some (some .ping) else if w == "q" then some (some .pong)
  else if w == "b" then some (some .binary) else if w == "t" then some (some .text)
  else if w == "c" then some (some .close) else if w == "-" || w == "" then some none
  else w.toNat?.map fun n => some (.take n)

def parsePlan (s : String) : Option (List Tok) :=
  (s.splitOn ",").foldr (fun w acc => match acc, Tok.parse w with
    | some l, some (some t) => some (t :: l)
    | some l, some none => some l
    | _, _ => none) (some [])

/-- a plan that only fragments and interleaves control frames -/
def planWellFormed (ts : List Tok) : Bool :=
  ts.all fun t => match t with | .take _ | .ping | .pong => true | _ => false

end SwimVerif.WsFrames
