/-
Model of `swimos_model::Value`'s `Ord` (`Value::compare`, 12×12 cells), `PartialEq` and `Hash`
(api/swimos_model/src/value.rs), with `Attr::compare` (attr.rs), `Item::compare` (item.rs), the derived
`PartialEq`/`Hash` of `Attr`/`Item`/`Blob`, `num::cmp_*` (num.rs) — branch by branch, the code AS IT IS
(including the incoherent cells of finding F13 that remain after the three `fix:` commits F13-negzero,
F13-data-order, F13-inf-refl).

Representation.
* integers are `Int`; the fixed-width kinds carry a range predicate (`Val.wf`; the parser rejects anything else);
* `f64` is its 64 bit pattern; `decode` gives the exact value `nan | -inf | +inf | m·2^e`; the operations the
  code uses are exact on every bit pattern: `n as f64` / `BigInt::to_f64` / `f64::from_str(decimal)` (all three are
  round-to-nearest-even of an integer, overflow to ±inf: `intToF64`), `partial_cmp`, `==`, `<`,
  `(x - y).abs() < f64::EPSILON` (`absDiffLtEps`: an exact criterion on the real difference, see there) and
  `y as i64` (truncate, saturate, NaN ↦ 0: `Fl.toI64`);
* `Text` and `Blob` are their bytes (`str`/`Vec<u8>` order = lexicographic byte order);
* a record `Value::Record(attrs, items)` is the chain `attrs.map(Left) ++ items.map(Right)` that `compare` iterates
  over (`Elems`; `Elems.attrsFirst` says that no attribute follows an item, which the Rust type guarantees).
* `hashKey` is the sequence of values written to the `Hasher` (one token per `write_*` call; `str` = bytes + 0xff;
  `Vec` = length prefix + elements; derived enum hash = discriminant + fields; a `BigInt` outside `i128` is
  abstracted to the token pair `[6, n]`). Every field is self-delimiting, so two values feed the same byte
  stream iff their keys are equal; `heq` compares keys.
-/
import SwimVerif.Model.Util

namespace SwimVerif.ValueOrd

abbrev Bytes := List Nat

mutual
inductive Val where
  | extant
  | bool (b : Bool)
  | i32 (n : Int)
  | i64 (n : Int)
  | u32 (n : Int)
  | u64 (n : Int)
  | f64 (bits : Nat)
  | bigint (n : Int)
  | biguint (n : Int)
  | text (s : Bytes)
  | data (b : Bytes)
  | record (es : Elems)
inductive Elems where
  | nil
  | attr (name : Bytes) (v : Val) (tl : Elems)   -- `Either::Left(&Attr)`
  | item (v : Val) (tl : Elems)                  -- `Either::Right(&Item::ValueItem(v))`
  | slot (k : Val) (v : Val) (tl : Elems)        -- `Either::Right(&Item::Slot(k, v))`
end

/-! ## scalar comparisons -/

/-- `Ord::cmp` on integers (any width; `BigInt::cmp`). -/
def cmpInt (a b : Int) : Ordering := if a < b then .lt else if a = b then .eq else .gt

/-- `bool::cmp`: `false < true`. -/
def cmpBool (p q : Bool) : Ordering :=
  if p = q then .eq else if p = false then .lt else .gt

/-- `<[u8]>::cmp` / `str::cmp`: lexicographic, a proper prefix is smaller. -/
def cmpBytes : Bytes → Bytes → Ordering
  | [], [] => .eq
  | [], _ :: _ => .lt
  | _ :: _, [] => .gt
  | x :: xs, y :: ys => if x < y then .lt else if x = y then cmpBytes xs ys else .gt

/-! ## exact `f64` -/

inductive Fl where
  | nan
  | ninf
  | pinf
  | fin (m : Int) (e : Int)   -- the real number m · 2^e
  deriving DecidableEq, Repr

def decode (bits : Nat) : Fl :=
  if bits / 4503599627370496 % 2048 = 2047 then
    (if bits % 4503599627370496 = 0 then (if bits / 9223372036854775808 % 2 = 1 then .ninf else .pinf) else .nan)
  else if bits / 4503599627370496 % 2048 = 0 then
    .fin (if bits / 9223372036854775808 % 2 = 1 then -((bits % 4503599627370496 : Nat) : Int)
          else ((bits % 4503599627370496 : Nat) : Int)) (-1074)
  else
    .fin (if bits / 9223372036854775808 % 2 = 1 then -((4503599627370496 + bits % 4503599627370496 : Nat) : Int)
          else ((4503599627370496 + bits % 4503599627370496 : Nat) : Int))
      (((bits / 4503599627370496 % 2048 : Nat) : Int) - 1075)

def Fl.isNan : Fl → Bool
  | .nan => true
  | _ => false

/-- Compare m1·2^e1 with m2·2^e2 exactly. -/
def cmpFin (m1 e1 m2 e2 : Int) : Ordering :=
  cmpInt (m1 * (2 : Int) ^ (e1 - min e1 e2).toNat) (m2 * (2 : Int) ^ (e2 - min e1 e2).toNat)

/-- `f64::partial_cmp` (`-0.0 == 0.0`: both are `fin 0 _`). -/
def Fl.partialCmp : Fl → Fl → Option Ordering
  | .nan, _ => none
  | _, .nan => none
  | .ninf, .ninf => some .eq
  | .ninf, _ => some .lt
  | _, .ninf => some .gt
  | .pinf, .pinf => some .eq
  | .pinf, _ => some .gt
  | _, .pinf => some .lt
  | .fin m1 e1, .fin m2 e2 => some (cmpFin m1 e1 m2 e2)

/-- The recurring `match partial_cmp(..) { Some(Less) => Less, Some(Greater) => Greater, _ => Equal }`. -/
def ordOrEq : Option Ordering → Ordering
  | some .lt => .lt
  | some .gt => .gt
  | _ => .eq

/-- Magnitude rounded to 53 significant bits, ties to even: `(q, k)` stands for `q · 2^k`. -/
def roundMag (a : Nat) : Nat × Nat :=
  if a < 9007199254740992 then (a, 0) else
    let k := Nat.log2 a + 1 - 53
    let q := a / 2 ^ k
    let r := a % 2 ^ k
    let half := 2 ^ (k - 1)
    if half < r ∨ (r = half ∧ q % 2 = 1) then (q + 1, k) else (q, k)

/-- `n as f64` (`i32/i64/u32/u64`), `BigInt::to_f64`, `f64::from_str(&biguint.to_string())`: the nearest `f64`,
ties to even, ±inf beyond the range. -/
def intToF64 (n : Int) : Fl :=
  let qk := roundMag n.natAbs
  if 2 ^ 1024 ≤ qk.1 * 2 ^ qk.2 then (if n < 0 then .ninf else .pinf)
  else .fin (if n < 0 then -(qk.1 : Int) else (qk.1 : Int)) (qk.2 : Int)

def i64Min : Int := -9223372036854775808
def i64Max : Int := 9223372036854775807

/-- `x as i64` on `f64`: truncation toward zero, saturating, `NaN ↦ 0`. -/
def Fl.toI64 : Fl → Int
  | .nan => 0
  | .ninf => i64Min
  | .pinf => i64Max
  | .fin m e =>
    let t := if 0 ≤ e then m * (2 : Int) ^ e.toNat else Int.tdiv m ((2 : Int) ^ (-e).toNat)
    if t < i64Min then i64Min else if i64Max < t then i64Max else t

/-- `(x - y).abs() < f64::EPSILON` for non-NaN `x`, `y`.
With an infinity the difference is ±inf or NaN: false. For finite operands the exact difference `d` is rounded to
nearest-even; `EPSILON = 2^-52` is a power of two whose predecessor is `2^-52 - 2^-105`, the midpoint
`2^-52 - 2^-106` is a tie that rounds to the even neighbour `2^-52`; so `|fl(d)| < 2^-52 ⇔ |d| < 2^-52 - 2^-106`
(rounding is monotone; overflow gives inf, underflow gives something tiny; both agree with the criterion).
Both exponents are ≥ -1074, so with `D = |d| · 2^-e`, `e = min e1 e2`: `D · 2^(e+1074) < (2^54 - 1) · 2^968`. -/
def absDiffLtEps : Fl → Fl → Bool
  | .fin m1 e1, .fin m2 e2 =>
    decide ((m1 * (2 : Int) ^ (e1 - min e1 e2).toNat - m2 * (2 : Int) ^ (e2 - min e1 e2).toNat).natAbs
        * 2 ^ (min e1 e2 + 1074).toNat < (2 ^ 54 - 1) * 2 ^ 968)
  | _, _ => false

/-- `x == y` on `f64`. -/
def Fl.feq (x y : Fl) : Bool := x.partialCmp y == some .eq
/-- `x < y` on `f64`. -/
def Fl.flt (x y : Fl) : Bool := x.partialCmp y == some .lt

/-! ## `Value::compare`, the cells that do not recurse -/

/-- `(Int32|Int64|UInt32|UInt64)(n)` vs `Float64Value(y)`. -/
def cmpIntFloat (n : Int) (y : Fl) : Ordering :=
  if y.isNan then .gt else ordOrEq ((intToF64 n).partialCmp y)

/-- `Float64Value(x)` vs an integer of any kind: `x.partial_cmp(&(m as f64))`, `bi.to_f64()` (always `Some`),
`f64::from_str(&bi.to_string())` (always `Ok`). -/
def cmpFloatInt (x : Fl) (m : Int) : Ordering :=
  if x.isNan then .lt else ordOrEq (x.partialCmp (intToF64 m))

/-- `Float64Value(x)` vs `Float64Value(y)`. -/
def cmpFloatFloat (x y : Fl) : Ordering :=
  if x.isNan then (if y.isNan then .eq else .lt)
  else if y.isNan then .gt
  else if x.feq y then .eq                 -- covers the infinities (`inf - inf` is NaN)
  else if absDiffLtEps x y then .eq
  else if x.flt y then .lt
  else .gt

/-- `num::cmp_i32_u32` / `cmp_i64_u64`. -/
def cmpSU (l r : Int) : Ordering := if l < 0 then .lt else cmpInt l r
/-- `num::cmp_u32_i32` / `cmp_u64_i64`. -/
def cmpUS (l r : Int) : Ordering := if r < 0 then .gt else cmpInt l r

def cmpFlat (a b : Val) : Ordering :=
  match a with
  | .data l => match b with
    | .data r => cmpBytes l r
    | _ => .lt
  | .extant => match b with
    | .extant => .eq
    | _ => .gt
  | .i32 n => match b with
    | .extant => .lt
    | .bool _ => .lt
    | .i32 m => cmpInt n m
    | .i64 m => cmpInt n m
    | .u32 x => cmpSU n x
    | .u64 x => cmpSU n x
    | .f64 y => cmpIntFloat n (decode y)
    | .bigint bi => cmpInt n bi
    | .biguint bi => if 0 ≤ n then cmpInt n bi else .lt     -- `BigUint::try_from(n)`
    | _ => .gt
  | .i64 n => match b with
    | .extant => .lt
    | .bool _ => .lt
    | .i32 m => cmpInt n m
    | .i64 m => cmpInt n m
    | .u32 x => cmpSU n x
    | .u64 x => cmpSU n x
    | .f64 y => cmpIntFloat n (decode y)
    | .bigint bi => cmpInt n bi
    | .biguint bi => if 0 ≤ n then cmpInt n bi else .lt
    | _ => .gt
  | .u32 n => match b with
    | .extant => .lt
    | .bool _ => .lt
    | .u32 u => cmpInt n u
    | .u64 u => cmpInt n u
    | .i32 x => cmpUS n x
    | .i64 x => cmpUS n x
    | .f64 y => cmpIntFloat n (decode y)
    | .bigint bi => cmpInt n bi
    | .biguint bi => cmpInt n bi
    | _ => .gt
  | .u64 n => match b with
    | .extant => .lt
    | .bool _ => .lt
    | .i32 m => cmpUS n m
    | .i64 m => cmpUS n m
    | .u32 x => cmpInt n x
    | .u64 x => cmpInt n x
    | .f64 y => cmpIntFloat n (decode y)
    | .bigint bi => cmpInt n bi
    | .biguint bi => cmpInt n bi
    | _ => .gt
  | .f64 x => match b with
    | .bigint bi => cmpFloatInt (decode x) bi
    | .biguint bi => cmpFloatInt (decode x) bi
    | .extant => .lt
    | .bool _ => .lt
    | .i32 m => cmpFloatInt (decode x) m
    | .i64 m => cmpFloatInt (decode x) m
    | .u32 m => cmpFloatInt (decode x) m
    | .u64 m => cmpFloatInt (decode x) m
    | .f64 y => cmpFloatFloat (decode x) (decode y)
    | _ => .gt
  | .bool p => match b with
    | .extant => .lt
    | .bool q => cmpBool p q
    | _ => .gt
  | .text s => match b with
    | .record _ => .gt
    | .data _ => .gt
    | .text t => cmpBytes s t
    | _ => .lt
  | .record _ => match b with      -- (`Record` vs `Record` is `Elems.cmp`, see `Val.cmp`)
    | .data _ => .gt
    | _ => .lt
  | .bigint bi => match b with
    | .extant => .lt
    | .bool _ => .lt
    | .i32 m => cmpInt bi m
    | .i64 m => cmpInt bi m
    | .u32 m => cmpInt bi m
    | .u64 m => cmpInt bi m
    | .f64 y => cmpInt bi (decode y).toI64                  -- `bi.cmp(&BigInt::from(*y as i64))`
    | .bigint o => cmpInt bi o
    | .biguint o => cmpInt bi o
    | _ => .gt
  | .biguint bi => match b with
    | .extant => .lt
    | .bool _ => .lt
    | .i32 m => if 0 ≤ m then cmpInt bi m else .gt          -- `u32::try_from(m)`
    | .i64 m => if 0 ≤ m then cmpInt bi m else .gt          -- `u64::try_from(m)`
    | .u32 u => cmpInt bi u
    | .u64 u => cmpInt bi u
    | .f64 y => if 0 ≤ (decode y).toI64 then cmpInt bi (decode y).toI64 else .gt   -- `u64::try_from(*m as i64)`
    | .bigint o => if 0 ≤ o then cmpInt bi o else .gt       -- `other_bi.to_biguint()`
    | .biguint o => cmpInt bi o
    | _ => .gt

mutual
/-- `Value::compare`. -/
def Val.cmp (a b : Val) : Ordering :=
  match a, b with
  | .record es1, .record es2 => Elems.cmp es1 es2
  | _, _ => cmpFlat a b
/-- `Iterator::cmp` over `attrs.map(Left).chain(items.map(Right))`; `Either`'s derived order has `Left < Right`;
`Attr::compare` = name then value; `Item::compare`: `Slot < ValueItem`, slots by key then value. -/
def Elems.cmp (e1 e2 : Elems) : Ordering :=
  match e1 with
  | .nil => match e2 with
    | .nil => .eq
    | _ => .lt
  | .attr n1 v1 t1 => match e2 with
    | .nil => .gt
    | .attr n2 v2 t2 => ((cmpBytes n1 n2).then (Val.cmp v1 v2)).then (Elems.cmp t1 t2)
    | _ => .lt
  | .item v1 t1 => match e2 with
    | .nil => .gt
    | .attr _ _ _ => .gt
    | .item v2 t2 => (Val.cmp v1 v2).then (Elems.cmp t1 t2)
    | .slot _ _ _ => .gt
  | .slot k1 v1 t1 => match e2 with
    | .nil => .gt
    | .attr _ _ _ => .gt
    | .item _ _ => .lt
    | .slot k2 v2 t2 => ((Val.cmp k1 k2).then (Val.cmp v1 v2)).then (Elems.cmp t1 t2)
end

/-! ## `PartialEq` -/

def inI32 (n : Int) : Bool := decide (-2147483648 ≤ n ∧ n ≤ 2147483647)
def inI64 (n : Int) : Bool := decide (-9223372036854775808 ≤ n ∧ n ≤ 9223372036854775807)
def inU32 (n : Int) : Bool := decide (0 ≤ n ∧ n ≤ 4294967295)
def inU64 (n : Int) : Bool := decide (0 ≤ n ∧ n ≤ 18446744073709551615)
def inI128 (n : Int) : Bool :=
  decide (-170141183460469231731687303715884105728 ≤ n ∧ n ≤ 170141183460469231731687303715884105727)

def eqFlat (a b : Val) : Bool :=
  match a with
  | .data x => match b with
    | .data y => x == y
    | _ => false
  | .extant => match b with
    | .extant => true
    | _ => false
  | .i32 n => match b with
    | .i32 m => n == m
    | .i64 m => inI32 m && n == m        -- `i32::try_from(*m).map(|m| n == m).unwrap_or(false)`
    | .u32 m => inI32 m && n == m
    | .u64 m => inI32 m && n == m
    | .bigint m => inI32 m && n == m     -- `big_m.to_i32()`
    | .biguint m => inI32 m && n == m
    | _ => false
  | .i64 n => match b with
    | .i32 m => m == n                   -- `i64::from(*m) == *n`
    | .i64 m => n == m
    | .u32 m => m == n
    | .u64 m => inI64 m && n == m
    | .bigint m => inI64 m && n == m
    | .biguint m => inI64 m && n == m
    | _ => false
  | .u32 n => match b with
    | .i32 m => inU32 m && n == m
    | .i64 m => inU32 m && n == m
    | .u32 m => n == m
    | .u64 m => inU32 m && n == m
    | .bigint m => inU32 m && n == m
    | .biguint m => inU32 m && n == m
    | _ => false
  | .u64 n => match b with
    | .i32 m => inU64 m && n == m
    | .i64 m => inU64 m && n == m
    | .u32 m => m == n
    | .u64 m => n == m
    | .bigint m => inU64 m && n == m
    | .biguint m => inU64 m && n == m
    | _ => false
  | .f64 x => match b with
    | .f64 y => if (decode x).isNan then (decode y).isNan else (decode x).feq (decode y)
    | _ => false
  | .bool p => match b with
    | .bool q => p == q
    | _ => false
  | .text s => match b with
    | .text t => s == t
    | _ => false
  | .record _ => false                   -- (`Record` vs `Record` is `Elems.eq`, see `Val.eq`)
  | .bigint l => match b with
    | .i32 r => inI32 l && l == r        -- `left.to_i32().map(|l| l == right)`
    | .i64 r => inI64 l && l == r
    | .u32 r => inU32 l && l == r
    | .u64 r => inU64 l && l == r
    | .bigint r => l == r
    | .biguint r => l == r               -- `right.to_bigint()`
    | _ => false
  | .biguint l => match b with
    | .i32 r => inI32 l && l == r
    | .i64 r => inI64 l && l == r
    | .u32 r => inU32 l && l == r
    | .u64 r => inU64 l && l == r
    | .bigint r => l == r
    | .biguint r => l == r
    | _ => false

mutual
/-- `<Value as PartialEq>::eq`. -/
def Val.eq (a b : Val) : Bool :=
  match a, b with
  | .record es1, .record es2 => Elems.eq es1 es2
  | _, _ => eqFlat a b
/-- `attrs1 == attrs2 && items1 == items2` (derived `PartialEq` of `Attr` and `Item`, `Vec` equality) on the
chains; for chains with all attributes first this is element-wise equality of the two chains. -/
def Elems.eq (e1 e2 : Elems) : Bool :=
  match e1 with
  | .nil => match e2 with
    | .nil => true
    | _ => false
  | .attr n1 v1 t1 => match e2 with
    | .attr n2 v2 t2 => (n1 == n2 && Val.eq v1 v2) && Elems.eq t1 t2
    | _ => false
  | .item v1 t1 => match e2 with
    | .item v2 t2 => Val.eq v1 v2 && Elems.eq t1 t2
    | _ => false
  | .slot k1 v1 t1 => match e2 with
    | .slot k2 v2 t2 => (Val.eq k1 k2 && Val.eq v1 v2) && Elems.eq t1 t2
    | _ => false
end

/-! ## `Hash` -/

def bytesKey (b : Bytes) : List Int := b.map Int.ofNat

/-- `write_u8(INT_HASH); write_i128(n)` when `n` fits `i128`, else `write_u8(BIGINT_HASH); bi.hash(state)`. -/
def intKey (n : Int) : List Int := if inI128 n then [1, n] else [6, n]

def Elems.nAttrs : Elems → Nat
  | .nil => 0
  | .attr _ _ tl => tl.nAttrs + 1
  | .item _ tl => tl.nAttrs
  | .slot _ _ tl => tl.nAttrs

def Elems.nItems : Elems → Nat
  | .nil => 0
  | .attr _ _ tl => tl.nItems
  | .item _ tl => tl.nItems + 1
  | .slot _ _ tl => tl.nItems + 1

mutual
def Val.hashKey : Val → List Int
  | .extant => [0]
  | .i32 n => [1, n]
  | .i64 n => [1, n]
  | .u32 n => [1, n]
  | .u64 n => [1, n]
  | .f64 x => [2, if (decode x).isNan then 0 else if (decode x).feq (.fin 0 0) then 0 else (x : Int)]
  | .bool p => [3, if p then 1 else 0]
  | .text s => 4 :: (bytesKey s ++ [255])
  | .record es => (5 :: (es.nAttrs : Int) :: Elems.attrKeys es) ++ ((es.nItems : Int) :: Elems.itemKeys es)
  | .bigint n => intKey n
  | .biguint n => intKey n
  | .data b => 7 :: (b.length : Int) :: bytesKey b
/-- `Vec<Attr>::hash` without the length prefix: derived `Attr` hash = `name` (`str`: bytes, 0xff) then `value`. -/
def Elems.attrKeys : Elems → List Int
  | .nil => []
  | .attr n v tl => (bytesKey n ++ [255]) ++ (Val.hashKey v ++ Elems.attrKeys tl)
  | .item _ tl => Elems.attrKeys tl
  | .slot _ _ tl => Elems.attrKeys tl
/-- `Vec<Item>::hash` without the length prefix: derived `Item` hash = discriminant then fields. -/
def Elems.itemKeys : Elems → List Int
  | .nil => []
  | .attr _ _ tl => Elems.itemKeys tl
  | .item v tl => 0 :: (Val.hashKey v ++ Elems.itemKeys tl)
  | .slot k v tl => 1 :: (Val.hashKey k ++ (Val.hashKey v ++ Elems.itemKeys tl))
end

/-- Two values feed the same stream to the hasher. -/
def Val.heq (a b : Val) : Bool := a.hashKey == b.hashKey

/-! ## well-formedness (what the Rust types guarantee) -/

def Elems.attrsFirst : Elems → Bool
  | .nil => true
  | .attr _ _ tl => tl.attrsFirst
  | .item _ tl => tl.nAttrs == 0 && tl.attrsFirst
  | .slot _ _ tl => tl.nAttrs == 0 && tl.attrsFirst

mutual
def Val.wf : Val → Bool
  | .i32 n => inI32 n
  | .i64 n => inI64 n
  | .u32 n => inU32 n
  | .u64 n => inU64 n
  | .f64 x => decide (x < 18446744073709551616)
  | .biguint n => decide (0 ≤ n)
  | .record es => es.attrsFirst && Elems.wf es
  | _ => true
def Elems.wf : Elems → Bool
  | .nil => true
  | .attr _ v tl => Val.wf v && Elems.wf tl
  | .item v tl => Val.wf v && Elems.wf tl
  | .slot k v tl => (Val.wf k && Val.wf v) && Elems.wf tl
end

/-! ## the laws (used verbatim by the theorems and by the monitor) -/

def lawRefl (aa : Ordering) : Bool := aa == .eq
def lawAntisym (ab ba : Ordering) : Bool := ba == ab.swap
/-- `≤` and `≥` are transitive, and the composite is strict unless both steps are `Equal`. -/
def lawTrans (ab bc ac : Ordering) : Bool :=
  (if ab != .gt && bc != .gt then ac == (if ab == .eq && bc == .eq then .eq else .lt) else true) &&
  (if ab != .lt && bc != .lt then ac == (if ab == .eq && bc == .eq then .eq else .gt) else true)
def lawCmpEq (ab : Ordering) (e : Bool) : Bool := (ab == .eq) == e
def lawEqSymm (ab ba : Bool) : Bool := ab == ba
def lawEqTrans (ab bc ac : Bool) : Bool := !(ab && bc) || ac
def lawEqHash (e h : Bool) : Bool := !e || h

/-! ## stable sort (what `sort_by(|a, b| a.cmp(b))` returns when `cmp` is a total preorder) -/

def insertSorted (vs : List Val) (x : Nat) : List Nat → List Nat
  | [] => [x]
  | y :: ys =>
    if (Val.cmp (vs.getD x .extant) (vs.getD y .extant)) != .gt then x :: y :: ys
    else y :: insertSorted vs x ys

/-- Indices of `vs` in stable ascending order: index `i` is inserted (from the right) in front of the first
later element that is not smaller, so equal elements keep their input order. -/
def sortIdx (vs : List Val) : List Nat :=
  (List.range vs.length).foldr (fun i acc => insertSorted vs i acc) []

/-! ## line protocol -/

def takeField : List Char → List Char → Option (List Char × List Char)
  | _, [] => none
  | acc, c :: rest => if c = ';' then some (acc.reverse, rest) else takeField (c :: acc) rest

def natOfDigits (cs : List Char) : Option Nat :=
  if cs.isEmpty then none else
  cs.foldl (fun acc c => match acc with
    | none => none
    | some n => if '0' ≤ c ∧ c ≤ '9' then some (n * 10 + (c.toNat - 48)) else none) (some 0)

/-- Canonical decimal integers only (`0`, `-5`, `17`): one spelling per value. -/
def intOfField (cs : List Char) : Option Int :=
  match cs with
  | '-' :: ds =>
    (match natOfDigits ds with
     | some n => if n = 0 ∨ ds.head? = some '0' then none else some (-(n : Int))
     | none => none)
  | ds =>
    (match natOfDigits ds with
     | some n => if ds.length > 1 ∧ ds.head? = some '0' then none else some (n : Int)
     | none => none)

def hexField (cs : List Char) : Option Bytes := bytesOfHexAux cs

def f64Field (cs : List Char) : Option Nat :=
  if cs.length = 16 then
    cs.foldl (fun acc c => match acc, hexVal c with
      | some n, some d => some (n * 16 + d)
      | _, _ => none) (some 0)
  else none

mutual
def parseVal : Nat → List Char → Option (Val × List Char)
  | 0, _ => none
  | _ + 1, [] => none
  | fuel + 1, c :: rest =>
    if c = 'E' then some (.extant, rest)
    else if c = 'b' then
      (match rest with
       | '0' :: r => some (.bool false, r)
       | '1' :: r => some (.bool true, r)
       | _ => none)
    else if c = 'r' then
      (match parseElems fuel rest with
       | some (es, r) => some (.record es, r)
       | none => none)
    else
      match takeField [] rest with
      | none => none
      | some (fld, r) =>
        if c = 'i' then (intOfField fld).map fun n => (.i32 n, r)
        else if c = 'l' then (intOfField fld).map fun n => (.i64 n, r)
        else if c = 'u' then (intOfField fld).map fun n => (.u32 n, r)
        else if c = 'w' then (intOfField fld).map fun n => (.u64 n, r)
        else if c = 'n' then (intOfField fld).map fun n => (.bigint n, r)
        else if c = 'm' then (intOfField fld).map fun n => (.biguint n, r)
        else if c = 'f' then (f64Field fld).map fun n => (.f64 n, r)
        else if c = 't' then (hexField fld).map fun b => (.text b, r)
        else if c = 'd' then (hexField fld).map fun b => (.data b, r)
        else none
def parseElems : Nat → List Char → Option (Elems × List Char)
  | 0, _ => none
  | _ + 1, [] => none
  | fuel + 1, c :: rest =>
    if c = '.' then some (.nil, rest)
    else if c = 'a' then
      (match takeField [] rest with
       | none => none
       | some (fld, r) =>
         match hexField fld with
         | none => none
         | some name =>
           match parseVal fuel r with
           | none => none
           | some (v, r2) =>
             match parseElems fuel r2 with
             | none => none
             | some (tl, r3) => some (.attr name v tl, r3))
    else if c = 'v' then
      (match parseVal fuel rest with
       | none => none
       | some (v, r2) =>
         match parseElems fuel r2 with
         | none => none
         | some (tl, r3) => some (.item v tl, r3))
    else if c = 's' then
      (match parseVal fuel rest with
       | none => none
       | some (k, r1) =>
         match parseVal fuel r1 with
         | none => none
         | some (v, r2) =>
           match parseElems fuel r2 with
           | none => none
           | some (tl, r3) => some (.slot k v tl, r3))
    else none
end

/-- A whole token: a well-formed value and nothing after it. -/
def parseValue (s : String) : Option Val :=
  match parseVal (s.length + 1) s.toList with
  | some (v, []) => if v.wf then some v else none
  | _ => none

def renderOrd : Ordering → String
  | .lt => "lt"
  | .eq => "eq"
  | .gt => "gt"

def renderBool (b : Bool) : String := if b then "true" else "false"

def parseAll : List String → Option (List Val)
  | [] => some []
  | s :: rest => match parseValue s, parseAll rest with
    | some v, some vs => some (v :: vs)
    | _, _ => none

/-- Model output for one op line. -/
def apiLine (line : String) : String :=
  match words line with
  | [] => "bad-op"
  | op :: args =>
    match parseAll args with
    | none => "bad-op"
    | some vs =>
      match op, vs with
      | "cmp", [a, b] => renderOrd (Val.cmp a b)
      | "eq", [a, b] => renderBool (Val.eq a b)
      | "heq", [a, b] => renderBool (Val.heq a b)
      | "sort", v :: rest => ",".intercalate ((sortIdx (v :: rest)).map toString)
      | _, _ => "bad-op"

/-! ## monitor: the laws on the observed answers of the implementation alone -/

mutual
/-- No `Float64` anywhere inside: the fragment `F` of the theorems. -/
def Val.inF : Val → Bool
  | .f64 _ => false
  | .record es => Elems.inF es
  | _ => true
def Elems.inF : Elems → Bool
  | .nil => true
  | .attr _ v tl => Val.inF v && Elems.inF tl
  | .item v tl => Val.inF v && Elems.inF tl
  | .slot k v tl => (Val.inF k && Val.inF v) && Elems.inF tl
end

/-- Classification label of a value: its `ValueKind`; records are split into those inside the fragment `F`
(`Record`) and those containing a float somewhere (`Record.x`). -/
def Val.kindLabel : Val → String
  | .extant => "Extant"
  | .bool _ => "Boolean"
  | .i32 _ => "Int32"
  | .i64 _ => "Int64"
  | .u32 _ => "UInt32"
  | .u64 _ => "UInt64"
  | .f64 _ => "Float64"
  | .bigint _ => "BigInt"
  | .biguint _ => "BigUint"
  | .text _ => "Text"
  | .data _ => "Data"
  | .record es => if Elems.inF es then "Record" else "Record.x"

structure Fact where
  op : String
  a : String
  b : String
  ka : String
  kb : String
  out : String
  deriving Repr

structure Mon where
  facts : List Fact := []
  deriving Repr

def ordOf (s : String) : Option Ordering :=
  if s = "lt" then some .lt else if s = "eq" then some .eq else if s = "gt" then some .gt else none

def boolOf (s : String) : Option Bool :=
  if s = "true" then some true else if s = "false" then some false else none

def sortPair (x y : String) : String := if x ≤ y then x ++ ":" ++ y else y ++ ":" ++ x

/-- Every instance of a law that involves the new fact `f` (the older facts were checked when they arrived). -/
def checkNew (old : List Fact) (f : Fact) : Option String :=
  let all := f :: old
  let cmps := all.filterMap fun g => if g.op = "cmp" then (ordOf g.out).map fun o => (g, o) else none
  let eqs := all.filterMap fun g => if g.op = "eq" then (boolOf g.out).map fun o => (g, o) else none
  let heqs := all.filterMap fun g => if g.op = "heq" then (boolOf g.out).map fun o => (g, o) else none
  -- the same question answered differently
  match old.find? (fun g => g.op = f.op ∧ g.a = f.a ∧ g.b = f.b ∧ g.out ≠ f.out) with
  | some _ => some s!"nondeterministic:{f.op}:{f.ka}:{f.kb}"
  | none =>
  match cmps.find? (fun p => p.1.a = p.1.b ∧ !lawRefl p.2) with
  | some p => some s!"cmp-refl:{p.1.ka}"
  | none =>
  match eqs.find? (fun p => p.1.a = p.1.b ∧ p.2 = false) with
  | some p => some s!"eq-refl:{p.1.ka}"
  | none =>
  match heqs.find? (fun p => p.1.a = p.1.b ∧ p.2 = false) with
  | some p => some s!"hash-refl:{p.1.ka}"
  | none =>
  let antisym := cmps.findSome? fun p => cmps.findSome? fun q =>
    if p.1.a = q.1.b ∧ p.1.b = q.1.a ∧ !lawAntisym p.2 q.2 then some s!"cmp-antisym:{sortPair p.1.ka p.1.kb}" else none
  match antisym with
  | some r => some r
  | none =>
  let cmpeq := cmps.findSome? fun p => eqs.findSome? fun q =>
    if p.1.a = q.1.a ∧ p.1.b = q.1.b ∧ !lawCmpEq p.2 q.2 then some s!"cmp-eq:{p.1.ka}:{p.1.kb}" else none
  match cmpeq with
  | some r => some r
  | none =>
  let eqsym := eqs.findSome? fun p => eqs.findSome? fun q =>
    if p.1.a = q.1.b ∧ p.1.b = q.1.a ∧ !lawEqSymm p.2 q.2 then some s!"eq-symm:{sortPair p.1.ka p.1.kb}" else none
  match eqsym with
  | some r => some r
  | none =>
  let eqhash := eqs.findSome? fun p => heqs.findSome? fun q =>
    if ((p.1.a = q.1.a ∧ p.1.b = q.1.b) ∨ (p.1.a = q.1.b ∧ p.1.b = q.1.a)) ∧ !lawEqHash p.2 q.2
    then some s!"eq-hash:{sortPair p.1.ka p.1.kb}" else none
  match eqhash with
  | some r => some r
  | none =>
  let trans := cmps.findSome? fun p => cmps.findSome? fun q =>
    if p.1.b = q.1.a then
      cmps.findSome? fun r =>
        if r.1.a = p.1.a ∧ r.1.b = q.1.b ∧ !lawTrans p.2 q.2 r.2
        then some s!"cmp-trans:{p.1.ka}:{p.1.kb}:{q.1.kb}" else none
    else none
  match trans with
  | some r => some r
  | none =>
  eqs.findSome? fun p => eqs.findSome? fun q =>
    if p.1.b = q.1.a then
      eqs.findSome? fun r =>
        if r.1.a = p.1.a ∧ r.1.b = q.1.b ∧ !lawEqTrans p.2 q.2 r.2
        then some s!"eq-trans:{p.1.ka}:{p.1.kb}:{q.1.kb}" else none
    else none

/-- Class of a list on which `sort_by` panicked: the kinds outside the fragment `F` that occur in it (`F` if none). -/
def sortPanicLabel (vs : List Val) : String :=
  let ks := vs.map Val.kindLabel
  let bad := ["Float64", "Record.x"].filter fun k => ks.contains k
  if bad.isEmpty then "F" else ":".intercalate bad

def isPerm (n : Nat) (idx : List Nat) : Bool :=
  idx.length == n && (List.range n).all fun i => idx.contains i

def Mon.step (m : Mon) (line : String) (out : String) : Mon × Option String :=
  match words line with
  | [op, a, b] =>
    if op = "cmp" ∨ op = "eq" ∨ op = "heq" then
      match parseValue a, parseValue b with
      | some va, some vb =>
        let f : Fact := { op := op, a := a, b := b, ka := va.kindLabel, kb := vb.kindLabel, out := out }
        if out = "panic" then (m, some s!"panic:{op}:{f.ka}:{f.kb}")
        else if out = "partial-cmp-differs" then (m, some s!"partial-cmp-differs-from-cmp:{f.ka}:{f.kb}")
        else if (op = "cmp" ∧ (ordOf out).isNone) ∨ (op ≠ "cmp" ∧ (boolOf out).isNone) then
          (m, some "unexpected-result")
        else ({ facts := f :: m.facts }, checkNew m.facts f)
      | _, _ => (m, if out = "bad-op" then none else some "unexpected-result")
    else if op = "sort" then
      match parseValue a, parseValue b with
      | some va, some vb =>
        if out = "panic" then (m, some ("sort-panic:" ++ sortPanicLabel [va, vb]))
        else (m, if isPerm 2 ((out.splitOn ",").filterMap String.toNat?) then none else some "sort-not-a-permutation")
      | _, _ => (m, if out = "bad-op" then none else some "unexpected-result")
    else (m, if out = "bad-op" then none else some "unexpected-result")
  | "sort" :: args =>
    (match parseAll args with
     | some vs =>
       if out = "panic" then
         (m, some ("sort-panic:" ++ sortPanicLabel vs))
       else (m, if isPerm vs.length ((out.splitOn ",").filterMap String.toNat?) then none
                else some "sort-not-a-permutation")
     | none => (m, if out = "bad-op" then none else some "unexpected-result"))
  | _ => (m, if out = "bad-op" then none else some "unexpected-result")

end SwimVerif.ValueOrd
