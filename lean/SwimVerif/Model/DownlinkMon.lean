/-
Observable-level monitor for C08. It sees only the notification / local-write ops and the logged callbacks of
the implementation and decides, with a reference *fold* of the received notifications:

* the map handed to `on_synced` is the fold of the notifications received since `linked`, and `on_synced`
  fires exactly once, at the `synced` notification;
* `on_update` / `on_remove` / `on_clear` (`on_event` / `on_set`) fire in notification order with the true
  old / new values and the true map, exactly when the link is synced or `events_when_not_synced` is set;
* local writes cause no callbacks and do not change what later callbacks show;
* after `unlinked` with `terminate_on_unlinked` the task ends; otherwise a relink starts from the empty map;
* dropping the write handle (`drop-handle`) or closing the task's output (`close-out`) is not a notification: it causes
  no output and changes nothing of the above for the notifications that follow (the reference does not even record it,
  except that later local-write ops are no longer applied to the F6 fold); `stop` (hosted) = `on_unlinked` if linked, end.

Both implementations are judged against the same reference, so "client = hosted" on legal sequences is implied.
The reference knows nothing of the implementation's state machine. For sequences outside the grammar
`linked ev* synced ev* unlinked (relink ..)` (and after `bad` / `eof`) only the absence of a panic is required.

When the observed output differs from the reference the monitor *names* the deviation if the output is explained by
one precisely described behaviour (so that KNOWN_FINDINGS can be keyed on the class of the witness):
  local-write-folded               the replica is the fold that also applies the downlink's own writes (F6)
Anything else is reported under a generic reason. (The classes of the repaired F5 / F5b — `clear` skipped while
callbacks are suppressed, take/drop callbacks ignoring `dispatch`, `drop` showing `on_remove` the empty map — are no
longer named: they would now surface as `on_synced-map-differs-from-fold`, `callbacks-while-suppressed`,
`callbacks-differ-from-fold`.)
-/
import SwimVerif.Model.DownlinkTask

namespace SwimVerif.Dl

inductive Phase
  | U | L | S | E     -- unlinked, linked, synced, ended (task finished)
  deriving DecidableEq, Repr

/-- sequential removal with the intermediate maps (callback shape A) -/
def refRemoveSeq : AMap → List (Int × Int) → List Cb
  | _, [] => []
  | m, p :: r => .remove p.1 p.2 (del p.1 m) :: refRemoveSeq (del p.1 m) r

/-- acceptable callback lists for message `e` on reference map `m` when callbacks are enabled -/
def refShapes (m : AMap) (e : Msg) : List (List Cb) :=
  match e with
  | .update k v => [[.update k (look k m) v (ins k v m)]]
  | .remove k => match look k m with
    | some v => [[.remove k v (del k m)]]
    | none => [[]]
  | .clear => [[.clear m]]
  | .take n =>
    let gone := m.drop n
    [refRemoveSeq m gone, gone.map fun p => .remove p.1 p.2 (m.take n)]
      ++ (if gone.isEmpty then [[]] else [])
  | .drop n =>
    let gone := m.take n
    [refRemoveSeq m gone, gone.map fun p => .remove p.1 p.2 (m.drop n)]
      ++ (if m.length ≤ n then [[.clear m]] else [])
      ++ (if gone.isEmpty then [[]] else [])

structure Mon where
  started : Bool := false
  isMap : Bool := true
  isEvent : Bool := false
  ews : Bool := false
  tou : Bool := false
  phase : Phase := .U
  illegal : Bool := false
  /-- reference folds: the fold of the received notifications, and the one that also applies local writes (F6) -/
  r : AMap := []
  r6 : AMap := []
  v : Option Int := none
  /-- the write handle was dropped: later local-write ops cannot happen any more -/
  dropped : Bool := false
  deriving Repr

def renderCbs (cbs : List Cb) (fin : Option Fin) : String := renderOut cbs fin

def Mon.disp (m : Mon) : Bool := m.phase = .S || m.ews

def tagsToReason (tags : List String) : String := "deviation:" ++ "+".intercalate tags

/-- classify an observed output for an event in a legal position -/
def classifyEvent (mon : Mon) (e : Msg) (observed : String) : Option String :=
  let d := mon.disp
  let ok (ref : AMap) : Bool :=
    if d then (refShapes ref e).any fun cbs => renderCbs cbs none == observed
    else observed == "-"
  if ok mon.r then none
  else if ok mon.r6 then some (tagsToReason ["local-write-folded"])
  else some (if d then "callbacks-differ-from-fold" else "callbacks-while-suppressed")

def containsSynced (observed : String) : Bool := (observed.splitOn "on_synced").length > 1

def Mon.endPhase (m : Mon) : Mon := { m with phase := .E }

def Mon.stepMap (mon : Mon) (op : MOp) (observed : String) : Mon × Option String :=
  match op with
  | .note .linked =>
    if mon.phase = .U then
      ({ mon with phase := .L, r := [], r6 := [] },
        if observed == "on_linked" then none else some "on_linked-expected")
    else ({ mon with illegal := true }, none)
  | .note .synced =>
    if mon.phase = .L then
      let m1 := { mon with phase := .S }
      if observed == renderCbs [.syncedM mon.r] none then (m1, none)
      else if observed == renderCbs [.syncedM mon.r6] none then (m1, some (tagsToReason ["local-write-folded"]))
      else if !containsSynced observed then (m1, some "on_synced-missing")
      else if (observed.splitOn "on_synced").length > 2 then (m1, some "on_synced-repeated")
      else (m1, some "on_synced-map-differs-from-fold")
    else ({ mon with illegal := true }, none)
  | .note (.ev e) =>
    if mon.phase = .L || mon.phase = .S then
      let m1 := { mon with r := applyMsg mon.r e, r6 := applyMsg mon.r6 e }
      if containsSynced observed then (m1, some "on_synced-outside-synced-notification")
      else (m1, classifyEvent mon e observed)
    else ({ mon with illegal := true }, none)
  | .note .unlinked =>
    if mon.phase = .L || mon.phase = .S then
      if mon.tou then
        (mon.endPhase, if observed == "on_unlinked | end ok" then none else some "on_unlinked-and-termination-expected")
      else
        ({ mon with phase := .U }, if observed == "on_unlinked" then none else some "on_unlinked-expected")
    else ({ mon with illegal := true }, none)
  | .write w =>
    ({ mon with r6 := if (mon.phase = .L || mon.phase = .S) && !mon.dropped then applyW mon.r6 w else mon.r6 },
      if observed == "-" then none else some "local-write-caused-output")
  | .bad => (mon.endPhase, none)
  | .eof => (mon.endPhase, none)
  | .reconnect => (mon, none)

def Mon.stepVal (mon : Mon) (op : VOp) (observed : String) : Mon × Option String :=
  match op with
  | .note .linked =>
    if mon.phase = .U then
      ({ mon with phase := .L, v := none }, if observed == "on_linked" then none else some "on_linked-expected")
    else ({ mon with illegal := true }, none)
  | .note .synced =>
    match mon.phase, mon.v with
    | .L, some v =>
      let m1 := { mon with phase := .S }
      if observed == renderCbs [.syncedV v] none then (m1, none)
      else if !containsSynced observed then (m1, some "on_synced-missing")
      else if (observed.splitOn "on_synced").length > 2 then (m1, some "on_synced-repeated")
      else (m1, some "on_synced-value-differs-from-last-received")
    | _, _ => ({ mon with illegal := true }, none)
  | .note (.ev b) =>
    if mon.phase = .L || mon.phase = .S then
      let m1 := { mon with v := some b }
      let expected := if mon.disp then renderCbs [.event b, .set mon.v b] none else "-"
      if observed == expected then (m1, none)
      else if containsSynced observed then (m1, some "on_synced-outside-synced-notification")
      else (m1, some (if mon.disp then "callbacks-differ-from-fold" else "callbacks-while-suppressed"))
    else ({ mon with illegal := true }, none)
  | .note .unlinked =>
    if mon.phase = .L || mon.phase = .S then
      if mon.tou then
        (mon.endPhase, if observed == "on_unlinked | end ok" then none else some "on_unlinked-and-termination-expected")
      else
        ({ mon with phase := .U }, if observed == "on_unlinked" then none else some "on_unlinked-expected")
    else ({ mon with illegal := true }, none)
  | .write _ => (mon, if observed == "-" then none else some "local-write-caused-output")
  | .bad => (mon.endPhase, none)
  | .eof => (mon.endPhase, none)
  | .reconnect => (mon, none)

/-- event downlinks (hosted): no value to fold — `on_synced` at `synced`, `on_event v` per event when synced or
`events_when_not_synced` -/
def Mon.stepEvt (mon : Mon) (op : VOp) (observed : String) : Mon × Option String :=
  match op with
  | .note .synced =>
    if mon.phase = .L then
      ({ mon with phase := .S }, if observed == "on_synced" then none
        else if !containsSynced observed then some "on_synced-missing" else some "on_synced-repeated")
    else ({ mon with illegal := true }, none)
  | .note (.ev b) =>
    if mon.phase = .L || mon.phase = .S then
      let expected := if mon.disp then renderCbs [.event b] none else "-"
      if observed == expected then (mon, none)
      else (mon, some (if mon.disp then "callbacks-differ-from-fold" else "callbacks-while-suppressed"))
    else ({ mon with illegal := true }, none)
  | op => mon.stepVal op observed

def Mon.step (mon : Mon) (line : String) (observed : String) : Mon × Option String :=
  let ws := words line
  match ws with
  | "new" :: _ :: kind :: ews :: tou :: _opts =>
    ({ started := true, isMap := kind == "map", isEvent := kind == "event", ews := ews == "1", tou := tou == "1" },
      if observed == "ok" then none else some "new-rejected")
  | _ =>
    if !mon.started then (mon, none)
    else if observed == "panic" then (mon, some (if mon.illegal then "panic-on-illegal-sequence" else "panic"))
    else if observed == "bad-op" then (mon, none)
    else if mon.illegal then (mon, none)
    else if ws = ["reconnect"] then
      -- a restarted channel starts a fresh link (hosted only); `refused` leaves it finished
      if observed == "ok" then ({ mon with phase := .U, r := [], r6 := [], v := none }, none)
      else (mon, none)
    else if mon.phase = .E then
      (mon, if observed == "gone" then none else some "output-after-termination")
    else if observed == "gone" then (mon, some "finished-without-cause")
    else if ws = ["drop-handle"] then
      -- dropping the write handle is not a notification: no callback, no termination, and nothing later changes
      ({ mon with dropped := true }, if observed == "-" then none else some "drop-handle-caused-output")
    else if ws = ["close-out"] then
      (mon, if observed == "-" then none else some "close-out-caused-output")
    else if ws = ["stop"] then
      -- `handle.stop()` (hosted): the link is closed from this side — `on_unlinked` if linked, and the channel ends
      -- (nothing if the handle was dropped before: there is nothing to call it on)
      if mon.dropped then (mon, if observed == "-" then none else some "stop-without-handle-caused-output")
      else if mon.phase = .L || mon.phase = .S then
        (mon.endPhase, if observed == "on_unlinked | end ok" then none else some "on_unlinked-and-termination-expected")
      else (mon.endPhase, if observed == "end ok" then none else some "termination-expected")
    else if mon.isMap then
      match parseMOp ws with
      | some op => mon.stepMap op observed
      | none => (mon, some "unparsable")
    else
      match parseVOp ws with
      | some op => if mon.isEvent then mon.stepEvt op observed else mon.stepVal op observed
      | none => (mon, some "unparsable")

end SwimVerif.Dl
