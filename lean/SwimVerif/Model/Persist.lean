/-
C05 — persistence of the agent runtime.

* the store side: `NodePersistence` as a finite map per store id (`StoreState`), `StorePersistence::apply_map`
  (`agent/store/mod.rs`: update / remove / clear), `put_value`;
* `persist_response` (`agent/task/mod.rs`): value / supply lane events and value-store events → `put_value`, map lane
  events and map-store events → `apply_map`, `Synced` → nothing, `store_id = None` (transient item) → nothing;
* registration of lanes and stores with the write task — in its prologue (items registered during the agent's
  initialisation phase) and at run time (`TaskMessageResult::AddLane` / `AddStore`: `AgentContext::add_lane` while the
  agent is running) — which fixes the `store_id` of the item's response stream (`laneStoreId`);
* the `WriteTaskEvent::Event` arm of `write_task`: `persist_response(&mut store, &response)?` and only then
  `handle_event` (the write-task model of `Model/WriteTask.lean`), producing one log of `Store op | Send frame`
  entries — its position in the log is the global counter; a crash point is a prefix of the log;
* restart: `ValueInit` / `MapInit` (`agent/store/mod.rs`) stream the stored state as `StoreInitMessage`s,
  `value_like_init` / `map_like_init` (`agent_model/init/mod.rs`, run by `run_item_initializer` before `on_start`)
  build the item's state from them; a transient item gets no initializer and keeps its default.

Keys are generic (`κ`): `Nat` key classes when composed with the write-task model, raw bytes for the line protocol.
-/
import SwimVerif.Model.Util
import SwimVerif.Model.AssocList
import SwimVerif.Model.WriteTask

namespace SwimVerif.Persist

abbrev Bytes := List Nat

/-! ### A map item in the store (association list without duplicate keys) -/

section KMap
variable {κ : Type} [DecidableEq κ]

def kGet : List (κ × Bytes) → κ → Option Bytes
  | [], _ => none
  | (k', v) :: rest, k => if k' = k then some v else kGet rest k

/-- `update_map`: replace in place, else append. -/
def kSet : List (κ × Bytes) → κ → Bytes → List (κ × Bytes)
  | [], k, v => [(k, v)]
  | (k', v') :: rest, k, v => if k' = k then (k, v) :: rest else (k', v') :: kSet rest k v

/-- `remove_map` -/
def kErase : List (κ × Bytes) → κ → List (κ × Bytes)
  | [], _ => []
  | (k', v') :: rest, k => if k' = k then kErase rest k else (k', v') :: kErase rest k

end KMap

/-- `MapOperation<K, V>` -/
inductive KOp (κ : Type)
  | upd (k : κ) (v : Bytes)
  | rem (k : κ)
  | clear
  deriving DecidableEq, Repr

/-- `StorePersistence::apply_map` on one map: `update_map` / `remove_map` / `clear_map`. -/
def applyK {κ : Type} [DecidableEq κ] (m : List (κ × Bytes)) : KOp κ → List (κ × Bytes)
  | .upd k v => kSet m k v
  | .rem k => kErase m k
  | .clear => []

/-- A mutating call on the `NodePersistence` of the agent. -/
inductive SOp (κ : Type)
  | put (sid : Nat) (b : Bytes)        -- `put_value`
  | map (sid : Nat) (op : KOp κ)       -- `apply_map`
  deriving DecidableEq, Repr

def SOp.sid {κ : Type} : SOp κ → Nat
  | .put i _ => i
  | .map i _ => i

/-- The durable state: per store id a value and/or a map. -/
structure StoreState (κ : Type) where
  values : List (Nat × Bytes) := []
  maps : List (Nat × List (κ × Bytes)) := []

def StoreState.getValue {κ : Type} (s : StoreState κ) (sid : Nat) : Option Bytes := alGet s.values sid   -- `get_value`
def StoreState.readMap {κ : Type} (s : StoreState κ) (sid : Nat) : List (κ × Bytes) :=                  -- `read_map`
  (alGet s.maps sid).getD []

def applyStore {κ : Type} [DecidableEq κ] (s : StoreState κ) : SOp κ → StoreState κ
  | .put sid b => { s with values := alSet s.values sid b }
  | .map sid op => { s with maps := alSet s.maps sid (applyK (s.readMap sid) op) }

def foldStore {κ : Type} [DecidableEq κ] (ops : List (SOp κ)) : StoreState κ := ops.foldl applyStore {}

/-! ### Restart: the init protocol -/

/-- `StoreInitMessage<M>` -/
inductive InitMsg (μ : Type)
  | command (m : μ)
  | initComplete
  deriving Repr

/-- `MapMessage` as far as `MapInit` can produce it plus the other forms `map_like_init` folds
(`Take` / `Drop` are never produced by the runtime's initializers and are not modelled). -/
abbrev MapMsg (κ : Type) := KOp κ

/-- `ValueInit::initialize`: the stored value, if any, then `InitComplete`. -/
def valueInitMsgs (stored : Option Bytes) : List (InitMsg Bytes) :=
  (match stored with | some b => [.command b] | none => []) ++ [.initComplete]

/-- `MapInit::initialize`: one `Update` per stored entry, then `InitComplete`. -/
def mapInitMsgs {κ : Type} (m : List (κ × Bytes)) : List (InitMsg (MapMsg κ)) :=
  m.map (fun p => .command (.upd p.1 p.2)) ++ [.initComplete]

/-- `init_stream`: the bodies of the commands up to the first `InitComplete`. -/
def initStream {μ : Type} : List (InitMsg μ) → List μ
  | [] => []
  | .command m :: rest => m :: initStream rest
  | .initComplete :: _ => []

/-- `value_like_init`: `try_last` of the stream; `None` leaves the item at its default. -/
def valueLikeInit (msgs : List (InitMsg Bytes)) : Option Bytes := (initStream msgs).getLast?

/-- `map_like_init`: fold the messages into a fresh map. -/
def mapLikeInit {κ : Type} [DecidableEq κ] (msgs : List (InitMsg (MapMsg κ))) : List (κ × Bytes) :=
  (initStream msgs).foldl applyK []

/-- What a value-like item (lane or store) holds after `run_item_initializer`; `sid = none`: transient item
(or no store): no initializer, the default stays. -/
def restoreValue {κ : Type} (s : StoreState κ) (sid : Option Nat) (dflt : Bytes) : Bytes :=
  match sid with
  | none => dflt
  | some i => (valueLikeInit (valueInitMsgs (s.getValue i))).getD dflt

/-- What a map-like item holds after `run_item_initializer`. -/
def restoreMap {κ : Type} [DecidableEq κ] (s : StoreState κ) (sid : Option Nat) : List (κ × Bytes) :=
  match sid with
  | none => []
  | some i => mapLikeInit (mapInitMsgs (s.readMap i))

/-! ### Specification of an item's state (what the operations handed to the store imply) -/

/-- Last value handed over for `sid`. -/
def lastPut {κ : Type} (sid : Nat) : List (SOp κ) → Option Bytes
  | [] => none
  | .put i b :: rest => (lastPut sid rest).orElse (fun _ => if i = sid then some b else none)
  | .map _ _ :: rest => lastPut sid rest

/-- The map operations handed over for `sid`, in order. -/
def mapOpsFor {κ : Type} (sid : Nat) : List (SOp κ) → List (KOp κ)
  | [] => []
  | .map i op :: rest => if i = sid then op :: mapOpsFor sid rest else mapOpsFor sid rest
  | .put _ _ :: rest => mapOpsFor sid rest

/-- One map operation on a map seen as a function. -/
def specApply {κ : Type} [DecidableEq κ] (f : κ → Option Bytes) : KOp κ → κ → Option Bytes
  | .upd k v => fun k' => if k = k' then some v else f k'
  | .rem k => fun k' => if k = k' then none else f k'
  | .clear => fun _ => none

/-- The entries implied by a sequence of map operations. -/
def specMap {κ : Type} [DecidableEq κ] (ops : List (KOp κ)) : κ → Option Bytes :=
  ops.foldl specApply (fun _ => none)

/-! ### The `Event` arm of the write task: `persist_response; handle_event` -/

open SwimVerif.WT (MapOp Resp Body Note Write)

def mapOpK : MapOp → KOp Nat
  | .upd k v => .upd k v
  | .rem k => .rem k
  | .clear => .clear

/-- `ResponseData` of an `ItemResponse`. -/
inductive RespData
  | lane (target : Option Nat) (r : Resp)   -- `ResponseData::Lane(LaneData { target, response })`
  | storeValue (b : Bytes)                  -- `ResponseData::Store(StoreData::Value)`
  | storeMap (op : MapOp)                   -- `ResponseData::Store(StoreData::Map)`
  deriving Repr

/-- `persist_response`: the store call made for a response (`none`: nothing is written). -/
def persistOp (storeId : Option Nat) (d : RespData) : Option (SOp Nat) :=
  match storeId with
  | none => none
  | some sid =>
    match d with
    | .lane _ (.value b) => some (.put sid b)
    | .lane _ (.supply b) => some (.put sid b)
    | .storeValue b => some (.put sid b)
    | .lane _ (.map op) => some (.map sid (mapOpK op))
    | .storeMap op => some (.map sid (mapOpK op))
    | .lane _ (.synced _) => none

/-- The store operation that hands the state carried by an event body to the store. -/
def storeOpOf (sid : Nat) : Body → Option (SOp Nat)
  | .raw b => some (.put sid b)
  | .map op => some (.map sid (mapOpK op))
  | .empty => none

/-- One entry of the merged log; its index is the global sequence number. -/
inductive Entry
  | store (op : SOp Nat)
  | send (r : Nat) (lid : Option Nat) (n : Note)   -- a frame handed to remote `r` (`lid`: the lane it is about)
  deriving DecidableEq, Repr

/-- `UplinkKind` of a lane (`WarpLaneKind::uplink_kind`). -/
inductive UKind | value | supply | map
  deriving DecidableEq, Repr

/-- What is fixed for an agent instance: the store's `id_for` (`AgentPersistence::store_id(name)`: one id per item
name, the same across restarts) and whether there is a store at all (`StoreError::NoStoreAvailable` otherwise). -/
structure Cfg where
  idFor : Nat → Nat
  hasStore : Bool := true

/-- The `store_id` a lane's response stream is built with (`LaneEndpoint::into_lane_stream(store_id, ..)`), for a
lane named `name` registered with `LaneConfig { transient, .. }`:

* `late = false` — the lane was registered in the initialisation phase and arrives in `initial_endpoints`; the
  prologue of `write_task` computes `if endpoint.transient { None } else { store.store_id(name) }`
  (`NoStoreAvailable ⇒ None`), whatever the kind of the lane;
* `late = true` — the lane is registered while the agent runs (`AgentContext::add_lane` →
  `WriteTaskMessage::Lane` → `handle_task_message` → `Initialization::add_lane`): a non-transient value or map
  lane is initialised from the store under `store.store_id(name)` and that id comes back in
  `TaskMessageResult::AddLane(lane, store_id)`; every other lane (transient, or supply) gets `None`. -/
def laneStoreId (cfg : Cfg) (late : Bool) (name : Nat) (kind : UKind) (transient : Bool) : Option Nat :=
  if transient then none
  else if cfg.hasStore then
    (if late then (match kind with | .supply => none | _ => some (cfg.idFor name)) else some (cfg.idFor name))
  else none

structure PSt where
  wt : WT.St := {}
  store : StoreState Nat := {}
  log : List Entry := []
  /-- `persist_response` (or `store_id`) returned an error: `write_task` has returned (`?`), nothing runs any more -/
  failed : Bool := false
  /-- lane id (`register_lane`) ↦ the `store_id` its `ResponseReceiver` was built with (absent: `None`) -/
  laneSid : List (Nat × Nat) := []
  /-- store item id (`item_id_for_store`) ↦ store id -/
  storeSid : List (Nat × Nat) := []
  /-- `WriteTaskState::store_counter` -/
  storeCounter : Nat := 0

/-- One iteration of the `write_task` loop (or of its prologue over the initial endpoints), seen with its
persistence side. -/
inductive PEv
  | resp (item : Nat) (d : RespData) (storeOk : Bool)   -- `WriteTaskEvent::Event(response)`; `storeOk`: the store call succeeds
  /-- a lane is registered: `late = false` in the prologue (initial endpoint), `late = true` by
  `TaskMessageResult::AddLane` at any later moment; `idOk`: `store.store_id(name)` does not fail -/
  | addLane (late : Bool) (name : Nat) (kind : UKind) (transient : Bool) (reporter : Bool) (idOk : Bool)
  /-- a store is registered (initial endpoint or `TaskMessageResult::AddStore`) -/
  | addStore (name : Nat) (idOk : Bool)
  | other (e : WT.Ev)                                   -- every other event (`event` / `lane` here are ignored)
  deriving Repr

/-- The write that a `WriteDone` for remote `r` completes (a removed remote's write completes as an orphan). -/
def inflightOf (s : WT.St) (r : Nat) : Option Write :=
  match s.remote? r with
  | some rem =>
    match rem.inflight with
    | some w => some w
    | none => (s.orphans.find? (fun p => p.1 = r)).map (fun p => p.2)
  | none => (s.orphans.find? (fun p => p.1 = r)).map (fun p => p.2)

/-- The frames a step hands to a remote's channel. -/
def sentBy (s : WT.St) : WT.Ev → List Entry
  | .done r true =>
    match inflightOf s r with
    | some w => w.notes.map (fun n => .send r w.lid n)
    | none => []
  | _ => []

/-- Events of the write-task model that have their own `PEv` form. -/
def isLaneEvent : WT.Ev → Bool
  | .event _ _ _ => true
  | .lane _ _ => true
  | _ => false

/-- A write-task step together with the frames it delivers. -/
def wtStep (s : PSt) (e : WT.Ev) : PSt :=
  { s with wt := (WT.step s.wt e).1, log := s.log ++ sentBy s.wt e }

/-- `ItemResponse.store_id` of a response of item `item`: fixed when its stream was created. Lanes and stores have
separate id spaces (`register_lane` / `item_id_for_store`); only registered items have a stream. -/
def PSt.sidOf (s : PSt) (item : Nat) : RespData → Option Nat
  | .lane _ _ => alGet s.laneSid item
  | _ => alGet s.storeSid item

def PSt.registered (s : PSt) (item : Nat) : RespData → Bool
  | .lane _ _ => decide (item < s.wt.reg.length)
  | _ => decide (item < s.storeCounter)

def pstep (cfg : Cfg) (s : PSt) : PEv → PSt
  | .resp item d storeOk =>
    if s.failed then s else
    if s.registered item d then
      match persistOp (s.sidOf item d) d with
      | some op =>
        if storeOk then
          -- `persist_response(..)?` succeeded; then `handle_event`
          let s1 : PSt := { s with store := applyStore s.store op, log := s.log ++ [.store op] }
          match d with
          | .lane target r => wtStep s1 (.event item target r)
          | _ => s1
        else { s with failed := true }
      | none =>
        match d with
        | .lane target r => wtStep s (.event item target r)
        | _ => s
    else s
  | .addLane late name kind transient reporter idOk =>
    if s.failed then s else
    match laneStoreId cfg late name kind transient with
    | some sid =>
      if idOk then
        -- `into_lane_stream(Some(sid), &mut state)`: `register_lane` gives the lane the next id
        let s1 : PSt := { s with laneSid := alSet s.laneSid s.wt.reg.length sid }
        wtStep s1 (.lane name reporter)
      else { s with failed := true }     -- `Err(err) => return Err(err)` / `StoreInitFailure(Store(err))`
    | none => wtStep s (.lane name reporter)
  | .addStore name idOk =>
    if s.failed then s else
    if cfg.hasStore then
      if idOk then
        { s with storeSid := alSet s.storeSid s.storeCounter (cfg.idFor name), storeCounter := s.storeCounter + 1 }
      else { s with failed := true }
    else s                               -- `OpenStoreError::StoresNotSupported`: no endpoint
  | .other e =>
    if s.failed then s
    else if isLaneEvent e then s
    else wtStep s e

def prun (cfg : Cfg) (s : PSt) (evs : List PEv) : PSt := evs.foldl (pstep cfg) s

/-- The store operations among log entries. -/
def storeOps : List Entry → List (SOp Nat)
  | [] => []
  | .store op :: rest => op :: storeOps rest
  | .send _ _ _ :: rest => storeOps rest

end SwimVerif.Persist
