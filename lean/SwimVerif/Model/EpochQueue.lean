/-
The coalescing operation queue shared (in structure) by the agent's `EventQueue<K, V>` (`event_queue/mod.rs`) and the
runtime's `MapOperationQueue` (`backpressure/map_queue/mod.rs`): a FIFO of operations, `head_epoch`, and `epoch_map`
from key to the epoch (mod 2^64) of the queued operation on that key. `push` replaces the queued operation on the same
key in place, `Clear` empties the queue and resets the epochs, `pop` advances `head_epoch` with wrap-around.
Keys are numbers (for the runtime queue: Recon key classes), payloads are numbers.
-/
import SwimVerif.Model.AssocList
import SwimVerif.Model.Util

namespace SwimVerif.EQV

inductive Entry
  | upd (k : Nat) (v : Nat)
  | rem (k : Nat)
  | clear
  deriving DecidableEq, Repr

def Entry.key? : Entry → Option Nat
  | .upd k _ => some k
  | .rem k => some k
  | .clear => none

def M64 : Nat := 18446744073709551616

structure Q where
  events : List Entry := []
  head : Nat := 0                     -- `head_epoch` (< 2^64)
  emap : List (Nat × Nat) := []       -- `epoch_map`
  deriving Repr

/-- index of the queued entry for key `k`, as `push` computes it (`epoch.wrapping_sub(head_epoch)`, `get_mut`) -/
def Q.slot (q : Q) (k : Nat) : Option Nat :=
  match alGet q.emap k with
  | some e => if (e + M64 - q.head) % M64 < q.events.length then some ((e + M64 - q.head) % M64) else none
  | none => none

def Q.push (q : Q) (a : Entry) : Q :=
  match a.key? with
  | none => { events := [.clear], head := 0, emap := [] }
  | some k =>
    match q.slot k with
    | some i => { q with events := q.events.set i a }
    | none => { q with events := q.events ++ [a], emap := alSet q.emap k ((q.head + q.events.length) % M64) }

def Q.pop (q : Q) : Option Entry × Q :=
  match q.events with
  | [] => (none, q)
  | a :: rest =>
    (some a, { events := rest, head := (q.head + 1) % M64,
               emap := (match a.key? with | some k => alErase q.emap k | none => q.emap) })

/-- specification: replace the queued entry on the same key in place, else append; `clear` resets -/
def specReplace (a : Entry) (k : Nat) : List Entry → Option (List Entry)
  | [] => none
  | e :: rest =>
    if e.key? = some k then some (a :: rest)
    else match specReplace a k rest with
      | some r => some (e :: r)
      | none => none

def specPush (q : List Entry) (a : Entry) : List Entry :=
  match a.key? with
  | none => [.clear]
  | some k => match specReplace a k q with
    | some q' => q'
    | none => q ++ [a]

/-- executable form of the index invariant (checked by the driver on every step as well as proved) -/
def Q.invOk (q : Q) : Bool :=
  q.head < M64 &&
  (q.emap.all fun p => match q.slot p.1 with
    | some i => (q.events[i]?.bind Entry.key?) == some p.1 && (q.head + i) % M64 == p.2
    | none => false) &&
  ((List.range q.events.length).all fun i => match q.events[i]? with
    | some e => (match e.key? with
        | some k => alGet q.emap k == some ((q.head + i) % M64)
        | none => i == 0)
    | none => true) &&
  ((q.emap.map (·.1)).eraseDups.length == q.emap.length)

/-! line protocol: `new <head>` | `push upd <k> <v>` | `push rem <k>` | `push clr` | `pop` -/

def Entry.render : Entry → String
  | .upd k v => s!"upd:{k}:{v}"
  | .rem k => s!"rem:{k}"
  | .clear => "clr"

structure St where
  q : Q := {}
  spec : List Entry := []     -- the specification queue run side by side
  deriving Repr

def stepLine (s : St) (line : String) : St × String :=
  let chk (s' : St) (out : String) : St × String :=
    (s', if !s'.q.invOk then out ++ " !index-invariant-broken"
         else if s'.q.events ≠ s'.spec then out ++ " !differs-from-specification" else out)
  match words line with
  | ["new", h] => match h.toNat? with
    | some h => ({ q := { head := h % M64 } }, "ok")
    | none => (s, "bad-op")
  | ["push", "upd", k, v] => match k.toNat?, v.toNat? with
    | some k, some v => chk { q := s.q.push (.upd k v), spec := specPush s.spec (.upd k v) } "ok"
    | _, _ => (s, "bad-op")
  | ["push", "rem", k] => match k.toNat? with
    | some k => chk { q := s.q.push (.rem k), spec := specPush s.spec (.rem k) } "ok"
    | none => (s, "bad-op")
  | ["push", "clr"] => chk { q := s.q.push .clear, spec := specPush s.spec .clear } "ok"
  | ["pop"] =>
    let r := s.q.pop
    chk { q := r.2, spec := s.spec.tail } (match r.1 with | some e => e.render | none => "none")
  | _ => (s, "bad-op")

/-- Monitor: what is popped, applied in order, must give the same map as everything pushed, once the queue is
empty; a popped update carries the latest value pushed for its key; nothing is popped that was not pushed. -/
structure Mon where
  target : List (Nat × Nat) := []     -- fold of everything pushed
  rep : List (Nat × Nat) := []        -- fold of everything popped
  pending : Nat := 0                  -- lower bound on queued entries is not observable; track emptiness via `none`
  deriving Repr

def applyE (m : List (Nat × Nat)) : Entry → List (Nat × Nat)
  | .upd k v => alSet m k v
  | .rem k => alErase m k
  | .clear => []

def sameMap (a b : List (Nat × Nat)) : Bool :=
  a.all (fun p => alGet b p.1 == some p.2) && b.all (fun p => alGet a p.1 == some p.2)

def parseEntry (s : String) : Option Entry :=
  match s.splitOn ":" with
  | ["upd", k, v] => match k.toNat?, v.toNat? with
    | some k, some v => some (.upd k v)
    | _, _ => none
  | ["rem", k] => k.toNat?.map .rem
  | ["clr"] => some .clear
  | _ => none

def Mon.step (m : Mon) (line : String) (out : String) : Mon × Option String :=
  match words line with
  | ["new", _] => ({}, none)
  | ["push", "upd", k, v] => match k.toNat?, v.toNat? with
    | some k, some v => ({ m with target := applyE m.target (.upd k v) }, none)
    | _, _ => (m, some "unparsable")
  | ["push", "rem", k] => match k.toNat? with
    | some k => ({ m with target := applyE m.target (.rem k) }, none)
    | none => (m, some "unparsable")
  | ["push", "clr"] => ({ m with target := [] }, none)
  | ["pop"] =>
    match (words out).head? with
    | some "none" => (m, if sameMap m.rep m.target then none else some "map-replica-diverged")
    | some e => match parseEntry e with
      | some (.upd k v) =>
        if alGet m.target k ≠ some v then (m, some "map-popped-value-not-latest")
        else ({ m with rep := applyE m.rep (.upd k v) }, none)
      | some en => ({ m with rep := applyE m.rep en }, none)
      | none => (m, some "unparsable")
    | none => (m, some "unparsable")
  | _ => (m, some "unparsable")

end SwimVerif.EQV
