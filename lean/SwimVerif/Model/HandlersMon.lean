/-
C06 monitor: decides the property on an implementation trace alone (the trace recorded through `context.effect`
closures, the status of the agent task and the lane values read back through the probe command).

It tracks the lane values implied by the *intent* entries (`ws`, `wu`, `wr`, `wx`) and by the runtime requests of the
op line, and checks
* nesting: lifecycle brackets are properly nested and a top-level handler (`<C`, `<Z`, `<T`, `<P`) only starts when
  no other handler is open (handlers never overlap, depth-first);
* exactly once / documented order / true previous: right after a change the lane's handlers run — `on_event new` then
  `on_set prev new` (value lane), `on_update k prev new` | `on_remove k prev` | `on_clear before` (map lane), with the
  previous value the monitor tracked; no lifecycle handler runs without a change; a remove of an absent key runs none;
* resumed handlers observe the effects of the handlers they triggered (`g`/`q` reads equal the tracked values);
* failure: after `w!` / `w$` nothing further of that handler or of the handlers it interrupted is executed;
* `on_start` is the first handler, `on_stop` the last; suspended handlers run (once each) when nothing else runs;
* the final lane values equal the tracked ones;
* a `@drop(n)` / `@take(n)` command (`mdrop`, `mtake`) removes its keys one at a time in ASCENDING KEY ORDER (numeric:
  2 before 10), the lane's `on_remove k prev` running after each removal and seeing the map without the keys removed
  before it; an `on_remove` of a key whose turn has not come is `drop-take-handlers-out-of-key-order`;
* `transform_entry` (`wt` intent): insert / replace ⇒ `on_update k prev new` with the tracked previous entry (none for
  an insert), remove ⇒ `on_remove k prev`, no change ⇒ no handler; reads through `with_entry` (`y`) are checked like
  `get_entry` reads;
* sync requests (`vsync`, `msync`) and reads of the lanes' output by the runtime (`rd`) run no handler at all: a
  lifecycle entry during such an op is a `spurious-trigger` (a change's handlers run exactly once — not again when
  the write of the change's event completes).
-/
import SwimVerif.Model.HandlersIO

namespace SwimVerif.Handlers

/-! ### token parser -/

def pOptInt : List Char → Option (Option Int × List Char)
  | '-' :: c :: cs => if c.isDigit then (pInt ('-' :: c :: cs)).map fun r => (some r.1, r.2) else some (none, c :: cs)
  | ['-'] => some (none, [])
  | cs => (pInt cs).map fun r => (some r.1, r.2)

def pEntries : Nat → List Char → Option (List (Nat × Int) × List Char)
  | 0, _ => none
  | f + 1, cs => do
    let (k, r) ← pNat cs
    let r ← pEat '=' r
    let (v, r) ← pInt r
    match r with
    | ',' :: r => let (es, r) ← pEntries f r; pure ((k, v) :: es, r)
    | '}' :: r => pure ([(k, v)], r)
    | _ => none

def pMapLit (cs : List Char) : Option (List (Nat × Int) × List Char) :=
  match cs with
  | '{' :: '}' :: r => some ([], r)
  | '{' :: r => pEntries (r.length + 1) r
  | _ => none

def topOfTag : Char → Option Top
  | 'T' => some .start | 'P' => some .stop | 'C' => some .cmd | 'Z' => some .susp | _ => none

def pEvAux : List Char → Option (Ev × List Char)
  | 'e' :: cs => (pNat cs).map fun r => (.eff r.1, r.2)
  | 'g' :: cs => do
    let (l, r) ← pDigit cs
    let r ← pEat ':' r
    let (v, r) ← pInt r
    pure (.got l v, r)
  | 'q' :: cs => do
    let (m, r) ← pDigit cs
    let r ← pEat '.' r
    let (k, r) ← pNat r
    let r ← pEat ':' r
    let (v, r) ← pOptInt r
    pure (.gotE m k v, r)
  | 'y' :: cs => do
    let (m, r) ← pDigit cs
    let r ← pEat '.' r
    let (k, r) ← pNat r
    let r ← pEat ':' r
    let (v, r) ← pOptInt r
    pure (.gotW m k v, r)
  | 'w' :: 't' :: cs => do
    let (m, r) ← pDigit cs
    let r ← pEat '.' r
    let (k, r) ← pNat r
    let (x, r) ← pXf r
    pure (.wxf m k x, r)
  | 'w' :: 's' :: cs => do
    let (l, r) ← pDigit cs
    let r ← pEat '=' r
    let (n, r) ← pInt r
    pure (.wset l n, r)
  | 'w' :: 'u' :: cs => do
    let (m, r) ← pDigit cs
    let r ← pEat '.' r
    let (k, r) ← pNat r
    let r ← pEat '=' r
    let (n, r) ← pInt r
    pure (.wupd m k n, r)
  | 'w' :: 'r' :: cs => do
    let (m, r) ← pDigit cs
    let r ← pEat '.' r
    let (k, r) ← pNat r
    pure (.wrem m k, r)
  | 'w' :: 'x' :: cs => (pDigit cs).map fun r => (.wclr r.1, r.2)
  | 'w' :: '!' :: cs => some (.wfail, cs)
  | 'w' :: '$' :: cs => some (.wstop, cs)
  | 'w' :: 'z' :: cs => some (.wsusp, cs)
  | '<' :: 'E' :: cs => do
    let (l, r) ← pDigit cs
    let r ← pEat '(' r
    let (n, r) ← pInt r
    let r ← pEat ')' r
    pure (.enEvent l n, r)
  | '<' :: 'S' :: cs => do
    let (l, r) ← pDigit cs
    let r ← pEat '(' r
    let (p, r) ← pOptInt r
    let r ← pEat ',' r
    let (n, r) ← pInt r
    let r ← pEat ')' r
    pure (.enSet l p n, r)
  | '<' :: 'U' :: cs => do
    let (m, r) ← pDigit cs
    let r ← pEat '.' r
    let (k, r) ← pNat r
    let r ← pEat '(' r
    let (p, r) ← pOptInt r
    let r ← pEat ',' r
    let (n, r) ← pInt r
    let r ← pEat ')' r
    pure (.enUpd m k p n, r)
  | '<' :: 'R' :: cs => do
    let (m, r) ← pDigit cs
    let r ← pEat '.' r
    let (k, r) ← pNat r
    let r ← pEat '(' r
    let (p, r) ← pInt r
    let r ← pEat ')' r
    pure (.enRem m k p, r)
  | '<' :: 'X' :: cs => do
    let (m, r) ← pDigit cs
    let (b, r) ← pMapLit r
    pure (.enClr m b, r)
  | '>' :: 'E' :: cs => (pDigit cs).map fun r => (.exEvent r.1, r.2)
  | '>' :: 'S' :: cs => (pDigit cs).map fun r => (.exSet r.1, r.2)
  | '>' :: 'U' :: cs => (pDigit cs).map fun r => (.exUpd r.1, r.2)
  | '>' :: 'R' :: cs => (pDigit cs).map fun r => (.exRem r.1, r.2)
  | '>' :: 'X' :: cs => (pDigit cs).map fun r => (.exClr r.1, r.2)
  | '<' :: c :: cs => (topOfTag c).map fun t => (.enTop t, cs)
  | '>' :: c :: cs => (topOfTag c).map fun t => (.exTop t, cs)
  | _ => none

def parseEv (s : String) : Option Ev :=
  match pEvAux s.toList with
  | some (e, []) => some e
  | _ => none

/-! ### monitor state -/

/-- A request sent by the runtime side on a lane (in order per lane). -/
inductive Req
  | cmd
  | vset (l : Nat) (n : Int)
  | mupd (m k : Nat) (n : Int)
  | mrem (m k : Nat)
  | mclr (m : Nat)
  | mdt (m : Nat) (drop : Bool) (n : Nat)     -- `@drop(n)` / `@take(n)`
  | sync            -- a sync request: `ValueLaneSync` / `MapLaneSync` change nothing and trigger nothing
  deriving DecidableEq, Repr

/-- What may still happen after the current top-level handler failed. -/
inductive After
  | normal
  | onlyStop        -- `Stop`: only `on_stop` may run
  | nothing         -- the agent has ended
  deriving DecidableEq, Repr

structure Frame where
  exit : Ev
  pending : List Ev     -- lifecycle entries that must come next once this frame is the innermost open one
  deriving Repr

structure Mon where
  vals : List Int := []
  maps : List (List (Nat × Int)) := []
  alive : Bool := false
  -- per op
  stack : List Frame := []
  base : List Ev := []              -- pending entries at top level
  cur : Option Top := none          -- kind of the running top-level handler (`none` with a non-empty stack: a runtime request)
  inReq : Bool := false
  susp : Nat := 0
  reqs : List Req := []
  dtQueue : List (Nat × Nat) := []   -- (map, key): removals of the running take/drop still to come, in key order
  after : After := .normal
  justFailed : Bool := false        -- a handler failed and no other top-level handler has started since
  stopSeen : Bool := false          -- `<P` … has run
  stopFailed : Bool := false
  ended : Option String := none     -- expected final status when the agent is expected to have ended
  deriving Repr

def exitOf : Ev → Option Ev
  | .enEvent l _ => some (.exEvent l)
  | .enSet l _ _ => some (.exSet l)
  | .enUpd m _ _ _ => some (.exUpd m)
  | .enRem m _ _ => some (.exRem m)
  | .enClr m _ => some (.exClr m)
  | .enTop t => some (.exTop t)
  | _ => none

def isLifecycleEnter : Ev → Bool
  | .enEvent .. | .enSet .. | .enUpd .. | .enRem .. | .enClr .. => true
  | _ => false

def Mon.pendingNow (m : Mon) : List Ev :=
  match m.stack with
  | f :: _ => f.pending
  | [] => m.base

def Mon.setPending (m : Mon) (p : List Ev) : Mon :=
  match m.stack with
  | f :: rest => { m with stack := { f with pending := p } :: rest }
  | [] => { m with base := p }

def Mon.valOf (m : Mon) (l : Nat) : Int := m.vals.getD l 0
def Mon.mapOf (m : Mon) (i : Nat) : List (Nat × Int) := m.maps.getD i []

/-- Same entry up to the order of the entries of a cleared map. -/
def evSame (a b : Ev) : Bool :=
  match a, b with
  | .enClr m x, .enClr m' y => m == m' && sortByKey x == sortByKey y
  | _, _ => a == b

def samePrevButValue (a b : Ev) : Bool :=
  match a, b with
  | .enSet l p n, .enSet l' p' n' => l == l' && n == n' && p != p'
  | .enUpd m k p n, .enUpd m' k' p' n' => m == m' && k == k' && n == n' && p != p'
  | .enRem m k p, .enRem m' k' p' => m == m' && k == k' && p != p'
  | .enClr m x, .enClr m' y => m == m' && sortByKey x != sortByKey y
  | _, _ => false

/-- Apply a change to the tracked lane values; returns the lifecycle entries that must follow at once. -/
def Mon.change (m : Mon) (e : Ev) : Mon × List Ev :=
  match e with
  | .wset l n => ({ m with vals := m.vals.set l n }, [.enEvent l n, .enSet l (some (m.valOf l)) n])
  | .wupd i k n => ({ m with maps := m.maps.set i (alSet (m.mapOf i) k n) }, [.enUpd i k (alGet (m.mapOf i) k) n])
  | .wrem i k =>
    match alGet (m.mapOf i) k with
    | some p => ({ m with maps := m.maps.set i (alErase (m.mapOf i) k) }, [.enRem i k p])
    | none => (m, [])
  | .wclr i => ({ m with maps := m.maps.set i [] }, [.enClr i (m.mapOf i)])
  | .wxf i k f =>
    -- `transform_entry`: insert / replace ⇒ `on_update k prev new`; remove ⇒ `on_remove k prev`; no change ⇒ nothing
    match f.app (alGet (m.mapOf i) k), alGet (m.mapOf i) k with
    | some v2, prev => ({ m with maps := m.maps.set i (alSet (m.mapOf i) k v2) }, [.enUpd i k prev v2])
    | none, some p => ({ m with maps := m.maps.set i (alErase (m.mapOf i) k) }, [.enRem i k p])
    | none, none => (m, [])
  | _ => (m, [])

def Req.intent : Req → Option Ev
  | .cmd => none
  | .vset l n => some (.wset l n)
  | .mupd m k n => some (.wupd m k n)
  | .mrem m k => some (.wrem m k)
  | .mclr m => some (.wclr m)
  | .mdt .. => none
  | .sync => none

def Req.lane : Req → Nat
  | .cmd => 99
  | .vset l _ => l
  | .mupd m _ _ => 10 + m
  | .mrem m _ => 10 + m
  | .mclr m => 10 + m
  | .mdt m _ _ => 10 + m
  | .sync => 97

def evLane : Ev → Nat
  | .enEvent l _ => l
  | .enUpd m .. => 10 + m
  | .enRem m .. => 10 + m
  | .enClr m _ => 10 + m
  | _ => 98

/-- Remove the first request addressed to `lane`, skipping (and applying: they change nothing) requests to that lane
that trigger no handler (remove of an absent key). -/
def takeReq (m : Mon) (lane : Nat) : List Req → Option (Req × List Req)
  | [] => none
  | r :: rest =>
    if r.lane = lane then
      match r with
      | .mrem i k => if (alGet (m.mapOf i) k).isNone then takeReq m lane rest else some (r, rest)
      | .mdt i d n => if (dropTakeKeys (m.mapOf i) d n).isEmpty then takeReq m lane rest else some (r, rest)
      | _ => some (r, rest)
    else (takeReq m lane rest).map fun p => (p.1, r :: p.2)

def Mon.fail (m : Mon) (isStop : Bool) : Mon :=
  -- every open handler is abandoned
  let m1 := { m with stack := [], base := [], inReq := false, justFailed := true, dtQueue := [] }
  match m.cur, isStop with
  | some .start, _ => { m1 with cur := none, after := .nothing, ended := some "nostart", alive := false }
  | some .stop, true => { m1 with cur := none, after := .nothing, alive := false }
  | some .stop, false => { m1 with cur := none, after := .nothing, stopFailed := true, alive := false }
  | _, true => { m1 with cur := none, after := .onlyStop, alive := false }
  | some .susp, false => { m1 with cur := none, after := .nothing, ended := some "failed", alive := false }
  | _, false => { m1 with cur := none }   -- a rejected command: the agent carries on

/-- `on_remove` of a key that the running take/drop is going to remove LATER (its turn has not come). -/
def dtOutOfOrder (m : Mon) (e : Ev) : Bool :=
  match e with
  | .enRem i k _ => m.dtQueue.contains (i, k)
  | _ => false

/-- Between two removals of a take/drop (nothing open, nothing pending): the next key of the queue is removed now;
its `on_remove` must be the next entry. A key that is no longer there is skipped (`MapLaneRemove` of an absent key). -/
def Mon.nextRemoval : Nat → Mon → Mon
  | 0, m => m
  | f + 1, m =>
    if m.stack.isEmpty && m.base.isEmpty then
      match m.dtQueue with
      | (i, k) :: rest =>
        let r := ({ m with dtQueue := rest } : Mon).change (.wrem i k)
        if r.2.isEmpty then Mon.nextRemoval f r.1
        else { r.1 with base := r.2 }
      | [] => m
    else m

/-- A change has just happened: the handler `x` must start now (`rest`: what must follow it at the same level). -/
def Mon.expect (m : Mon) (x : Ev) (rest : List Ev) (e : Ev) : Mon × Option String :=
  if evSame x e then
    match exitOf x with
    | some ex => ({ (m.setPending rest) with stack := { exit := ex, pending := [] } :: (m.setPending rest).stack }, none)
    | none => (m, some "internal")
  else if samePrevButValue x e then (m, some "wrong-previous-value")
  else if dtOutOfOrder m e then (m, some "drop-take-handlers-out-of-key-order")
  else if isLifecycleEnter e then (m, some "wrong-trigger")
  else (m, some "missing-trigger")

def Mon.token1 (m0 : Mon) (e : Ev) : Mon × Option String :=
  let m := Mon.nextRemoval (m0.dtQueue.length + 1) m0
  match m.pendingNow with
  | x :: rest => m.expect x rest e
  | [] =>
    match e with
    | .enTop t =>
      if !m.stack.isEmpty || m.inReq || m.cur.isSome then (m, some "handler-overlap")
      else
        let push : Mon := { m with cur := some t, stack := [{ exit := .exTop t, pending := [] }], justFailed := false }
        match t with
        | .start => (m, some "start-not-first")       -- `<T` is consumed by the `agent` op itself
        | .cmd =>
          if m.after != .normal then (m, some "ran-after-failure")
          else match takeReq m 99 m.reqs with
            | some (_, rest) => ({ push with reqs := rest }, none)
            | none => (m, some "spurious-handler")
        | .susp =>
          if m.after != .normal then (m, some "ran-after-failure")
          else if m.susp = 0 then (m, some "spurious-handler")
          else ({ push with susp := m.susp - 1 }, none)
        | .stop =>
          if m.after == .nothing || m.stopSeen then (m, some "ran-after-failure")
          else ({ push with stopSeen := true, alive := false, after := .normal }, none)
    | .exTop t =>
      match m.stack with
      | [f] =>
        if f.exit == .exTop t then
          ({ m with stack := [], cur := none, after := if t == .stop then .nothing else m.after }, none)
        else (m, some "bad-nesting")
      | _ => (m, some "bad-nesting")
    | .exEvent _ | .exSet _ | .exUpd _ | .exRem _ | .exClr _ =>
      match m.stack with
      | f :: rest =>
        if f.exit == e then
          let m1 := { m with stack := rest }
          (if rest.isEmpty && m.cur.isNone && m1.base.isEmpty && m1.dtQueue.isEmpty then { m1 with inReq := false }
           else m1, none)
        else (m, some "bad-nesting")
      | [] => (m, some "bad-nesting")
    | .enEvent .. | .enUpd .. | .enRem .. | .enClr .. =>
      -- a lifecycle handler nobody asked for, unless it answers a request of the runtime side
      if !m.stack.isEmpty || m.cur.isSome || m.inReq then (m, some "spurious-trigger")
      else if m.after != .normal then (m, some "ran-after-failure")
      else
        match takeReq m (evLane e) m.reqs with
        | some (r, rest) =>
          match r.intent with
          | some w =>
            let (m1, exp) := m.change w
            match exp with
            | x :: more =>
              if evSame x e then
                match exitOf x with
                | some ex => ({ m1 with reqs := rest, inReq := true, base := more, justFailed := false,
                                        stack := [{ exit := ex, pending := [] }] }, none)
                | none => (m, some "internal")
              else if samePrevButValue x e then (m, some "wrong-previous-value")
              else (m, some "wrong-trigger")
            | [] => (m, some "spurious-trigger")
          | none =>
            match r with
            | .mdt i d n =>
              -- a take/drop starts: its removals come one at a time in ascending key order, each followed by the
              -- lane's handlers; the first one is due now
              let keys := (dropTakeKeys (m.mapOf i) d n).map fun k => (i, k)
              let m1 : Mon := { m with reqs := rest, inReq := true, justFailed := false, dtQueue := keys }
              let m2 := Mon.nextRemoval (keys.length + 1) m1
              match m2.base with
              | x :: more => m2.expect x more e
              | [] => (m, some "internal")
            | _ => (m, some "spurious-trigger")
        | none => (m, some "spurious-trigger")
    | .enSet .. => (m, some "spurious-trigger")
    | .wfail => if m.stack.isEmpty then (m, some "effect-outside-handler") else (m.fail false, none)
    | .wstop => if m.stack.isEmpty then (m, some "effect-outside-handler") else (m.fail true, none)
    | .wsusp => if m.stack.isEmpty then (m, some "effect-outside-handler") else ({ m with susp := m.susp + 1 }, none)
    | .wset .. | .wupd .. | .wrem .. | .wclr .. | .wxf .. =>
      if m.stack.isEmpty then (m, some "effect-outside-handler")
      else
        let (m1, exp) := m.change e
        (m1.setPending exp, none)
    | .got l v =>
      if m.stack.isEmpty then (m, some "effect-outside-handler")
      else if m.valOf l = v then (m, none) else (m, some "stale-read")
    | .gotE i k v | .gotW i k v =>
      if m.stack.isEmpty then (m, some "effect-outside-handler")
      else if alGet (m.mapOf i) k = v then (m, none) else (m, some "stale-read")
    | .eff _ => if m.stack.isEmpty then (m, some "effect-outside-handler") else (m, none)

/-- Anything but the start of a new top-level handler right after a failure is "something ran after the failure". -/
def Mon.token (m : Mon) (e : Ev) : Mon × Option String :=
  if m.after == .nothing then (m, some "ran-after-end")
  else
    match m.token1 e with
    | (m1, some r) =>
      if m.justFailed && (r == "effect-outside-handler" || r == "bad-nesting" || r == "spurious-trigger")
      then (m1, some "ran-after-failure") else (m1, some r)
    | r => r

def Mon.tokens (m : Mon) : List Ev → Mon × Option String
  | [] => (m, none)
  | e :: rest =>
    match m.token e with
    | (m1, none) => m1.tokens rest
    | (m1, some r) => (m1, some r)

def renderTracked (m : Mon) : String :=
  "v=" ++ ",".intercalate (m.vals.map fun v => toString v) ++ " "
    ++ " ".intercalate ((List.range m.maps.length).map fun i => s!"m{i}={renderMap (m.mapOf i)}")

/-- Checks at quiescence (end of an op). -/
def Mon.finish (m : Mon) (status : String) (state : String) : Mon × Option String :=
  -- removals of a take/drop whose keys are still there have not been made
  let m := Mon.nextRemoval (m.dtQueue.length + 1) m
  if !m.stack.isEmpty || !m.pendingNow.isEmpty then (m, some "handler-not-finished")
  else
    -- requests that trigger nothing (remove of an absent key) are applied silently
    let silent := m.reqs.all fun r => match r with
      | .mrem i k => (alGet (m.mapOf i) k).isNone
      | .mdt i d n => (dropTakeKeys (m.mapOf i) d n).isEmpty
      | .sync => true
      | _ => false
    if m.alive then
      if !silent then (m, some "request-not-handled")
      else if m.susp != 0 then (m, some "suspended-not-run")
      else if status != "alive" then (m, some "status-mismatch")
      else if state != renderTracked m then (m, some "state-mismatch")
      else ({ m with reqs := [], after := .normal }, none)
    else
      let want := match m.ended with
        | some s => s
        | none => if m.stopFailed then "failed" else "stopped"
      if m.ended.isNone && !m.stopSeen then (m, some "on-stop-not-run")
      else if status != want then (m, some "status-mismatch")
      else ({ m with reqs := [] }, none)

def parseReq (parts : List String) : Option Req :=
  match parts with
  | ["cmd", _] => some .cmd
  | ["vset", l, n] => do let l ← l.toNat?; let n ← parseInt n; pure (.vset l n)
  | ["mupd", i, k, n] => do let i ← i.toNat?; let k ← k.toNat?; let n ← parseInt n; pure (.mupd i k n)
  | ["mrem", i, k] => do let i ← i.toNat?; let k ← k.toNat?; pure (.mrem i k)
  | ["mclr", i] => do let i ← i.toNat?; pure (.mclr i)
  | ["mdrop", i, n] => do let i ← i.toNat?; let n ← n.toNat?; pure (.mdt i true n)
  | ["mtake", i, n] => do let i ← i.toNat?; let n ← n.toNat?; pure (.mdt i false n)
  | ["vsync", _] => some .sync
  | ["msync", _] => some .sync
  | _ => none

/-- `<status> <tokens…> | <state>` -/
def splitOut (out : String) : Option (String × List String × String) :=
  match out.splitOn " | " with
  | [l, r] =>
    match words l with
    | st :: toks => some (st, if toks == ["-"] then [] else toks, r.trimAscii.toString)
    | [] => none
  | _ => none

def Mon.step (m : Mon) (line : String) (out : String) : Mon × Option String :=
  if out == "bad-op" then (m, none)
  else if out == "dead" then (m, if m.alive then some "status-mismatch" else none)
  else
  match splitOut out with
  | none => (m, some "unparsable")
  | some (status, toks, state) =>
    match toks.mapM parseEv with
    | none => (m, some "unparsable-token")
    | some evs =>
      let w := words line
      -- `agentd <cap> …` is the same agent with the harness as the runtime
      let w := if w.head? == some "agentd" then "agent" :: w.drop 2 else w
      match w with
      | "agent" :: _ =>
        let m0 : Mon := { vals := List.replicate nv 0, maps := List.replicate nm [], alive := true }
        -- `on_start` is the first handler to run
        match evs with
        | .enTop .start :: rest =>
          let m1 := { m0 with cur := some .start, stack := [{ exit := .exTop .start, pending := [] }] }
          match m1.tokens rest with
          | (m2, none) => m2.finish status state
          | (m2, some r) => (m2, some r)
        | _ => (m0, some "start-not-first")
      | ["stop"] =>
        if !m.alive then (m, some "status-mismatch")
        else
          match ({ m with after := .onlyStop, alive := false } : Mon).tokens evs with
          | (m2, none) => m2.finish status state
          | (m2, some r) => (m2, some r)
      | _ =>
        -- `rd lane k`: the runtime reads the lanes' output; no request is outstanding, so no handler may run
        let items := if w.head? == some "burst" then (w.drop 1).map (fun it => it.splitOn ":")
                     else if w.head? == some "rd" then [] else [w]
        match items.mapM parseReq with
        | none => (m, some "unparsable")
        | some rs =>
          if !m.alive then (m, some "status-mismatch")
          else
            match ({ m with reqs := rs } : Mon).tokens evs with
            | (m2, none) => m2.finish status state
            | (m2, some r) => (m2, some r)

end SwimVerif.Handlers
