import SwimVerif.Model.HandlersIO
namespace SwimVerif.Handlers
structure Mon where
  x : Nat := 0
def Mon.step (m : Mon) (_line : String) (_out : String) : Mon × Option String := (m, none)
end SwimVerif.Handlers
