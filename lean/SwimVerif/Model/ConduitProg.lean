/-
The statement language the C12 translator (`tools/extractors/c12.py`) emits for the bodies of
`swimos_byte_channel/src/channel/mod.rs`, and its semantics.

The translator derives the STRUCTURE of each function from the source (sequence, if / else chains, `if let`,
early returns, tail expressions, inlined helper calls, where the lock is taken, where the coop budget gate and
`track_progress` sit); the primitive statements and conditions below are the vocabulary it recognises by exact
text.  `exec` gives every primitive the meaning of the Rust statement it stands for, on the state of `Model/Conduit`
(ghost fields included).  `Proofs/ConduitProg.lean` proves that the generated programs compute exactly the
hand-written `pollRead` / `pollWrite` / `pollFlush` / `pollShutdown` / drop steps the C12 theorems are about.
-/
import SwimVerif.Model.Conduit

namespace SwimVerif.ConduitProg
open SwimVerif.Conduit

inductive Cond
  | hasData      -- `self.data.has_remaining()`
  | countPos     -- `count > 0`
  | closed       -- `self.closed`
  | bufEmpty     -- `buf.is_empty()`
  | availZero    -- `available == 0`
  | takeWaker    -- `let Some(waker) = self.waker.take()` (takes the waker: a test with an effect)
  deriving Repr, DecidableEq

inductive Ret
  | okUnit | okZero | okLen | pending | err
  deriving Repr, DecidableEq

inductive Stmt
  | skip
  | seq (a b : Stmt)
  | ite (c : Cond) (t e : Stmt)
  | ret (r : Ret)            -- `return r` / `r` in tail position
  | letCount                 -- `let count = self.data.remaining().min(buf.remaining())`
  | putSlice                 -- `buf.put_slice(&self.data[..count])`
  | advance                  -- `self.data.advance(count)`
  | setWaker                 -- `self.waker = Some(cx.waker().clone())`
  | letAvail                 -- `let available = self.capacity - self.data.len()`
  | letLen                   -- `let len = buf.len().min(avail)` (`avail` = the argument `available`)
  | extend                   -- `self.data.extend_from_slice(&buf[..len])`
  | setClosed                -- `self.closed = true`
  | fireWaker                -- `waker.wake()` on the waker just taken
  | budgetGate               -- `ready!(coop::consume_budget(cx))`
  | lock                     -- `let inner = &mut *(self.inner.lock())`
  | track (p : Stmt)         -- `coop::track_progress(p)`
  deriving Repr

/-- Machine state of one call: the shared state, the caller, its arguments, the locals and what happened. -/
structure M where
  s : St
  side : Side                -- whose task polls (the waker in `cx`)
  k : Nat                    -- `buf.remaining()` of a read
  bs : List Nat              -- `buf` of a write
  count : Nat := 0
  avail : Nat := 0
  len : Nat := 0
  outb : List Nat := []      -- bytes put into the read buffer
  taken : Option Side := none
  ret : Option Ret := none
  wokeR : Bool := false
  wokeW : Bool := false
  locks : Nat := 0           -- lock acquisitions of this call
  locked : Bool := false     -- shared state touched only while this is set (checked by `touch`)
  unlockedTouch : Bool := false
  deriving Repr

def evalCond (m : M) : Cond → M × Bool
  | .hasData => (m, decide (m.s.data ≠ []))
  | .countPos => (m, decide (0 < m.count))
  | .closed => (m, m.s.closed)
  | .bufEmpty => (m, decide (m.bs = []))
  | .availZero => (m, decide (m.avail = 0))
  | .takeWaker => ({ m with s := { m.s with waker := none }, taken := m.s.waker }, m.s.waker.isSome)

/-- every primitive that reads or writes the shared `Conduit` records whether the lock was held -/
def touch (m : M) : M := if m.locked then m else { m with unlockedTouch := true }

def setWait (s : St) (side : Side) (b : Bool) : St :=
  match side with
  | .R => { s with waitR := b }
  | .W => { s with waitW := b }

def exec : Stmt → M → M
  | .skip, m => m
  | .seq a b, m => let m' := exec a m; if m'.ret.isSome then m' else exec b m'
  | .ite c t e, m =>
      let m0 := match c with | .countPos | .bufEmpty | .availZero => m | _ => touch m
      let (m', b) := evalCond m0 c
      if b then exec t m' else exec e m'
  | .ret r, m => { m with ret := some r }
  | .letCount, m => let m := touch m; { m with count := min m.s.data.length m.k }
  | .putSlice, m => let m := touch m
      { m with outb := m.outb ++ m.s.data.take m.count, s := { m.s with readout := m.s.readout ++ m.s.data.take m.count } }
  | .advance, m => let m := touch m; { m with s := { m.s with data := m.s.data.drop m.count } }
  | .setWaker, m => let m := touch m; { m with s := setWait { m.s with waker := some m.side } m.side true }
  | .letAvail, m => let m := touch m; { m with avail := m.s.cap - m.s.data.length }
  | .letLen, m => { m with len := min m.bs.length m.avail }
  | .extend, m => let m := touch m
      { m with s := { m.s with data := m.s.data ++ m.bs.take m.len, written := m.s.written ++ m.bs.take m.len } }
  | .setClosed, m => let m := touch m; { m with s := { m.s with closed := true } }
  | .fireWaker, m =>
      match m.taken with
      | none => m
      | some .R => { m with s := { m.s with waitR := false }, wokeR := true }
      | some .W => { m with s := { m.s with waitW := false }, wokeW := true }
  | .budgetGate, m =>
      let r := budgetStep m.s.budget
      let m' := { m with s := { m.s with budget := r.1 } }
      if r.2 then m'
      else match m.side with                      -- `cx.waker().wake_by_ref(); Poll::Pending`
        | .R => { m' with ret := some .pending, wokeR := true }
        | .W => { m' with ret := some .pending, wokeW := true }
  | .lock, m => { m with locks := m.locks + 1, locked := true }
  | .track p, m =>
      let m' := exec p m
      if m'.ret = some .pending then { m' with s := trackPending m'.s } else m'

/-- entry of a poll by `side`: the ghost flag "parked" of that side is cleared -/
def enter (s : St) (side : Side) (k : Nat) (bs : List Nat) : M :=
  { s := setWait s side false, side := side, k := k, bs := bs }

/-- entry of a drop of `side`'s handle -/
def enterDrop (s : St) (side : Side) : M :=
  match side with
  | .R => { s := { s with rAlive := false, waitR := false }, side := .R, k := 0, bs := [] }
  | .W => { s := { s with wAlive := false, waitW := false }, side := .W, k := 0, bs := [] }

def resRead (m : M) : Res :=
  match m.ret with
  | some .okUnit => .bytes m.outb
  | some .pending => .pending
  | some .err => .err
  | some .okZero => .count 0
  | some .okLen => .count m.len
  | none => .na

def resWrite (m : M) : Res :=
  match m.ret with
  | some .okUnit => .unit
  | some .pending => .pending
  | some .err => .err
  | some .okZero => .count 0
  | some .okLen => .count m.len
  | none => .na

/-- a drop returns nothing -/
def resDrop (m : M) : Res :=
  match m.ret with
  | none => .unit
  | _ => .na

def outOf (m : M) (res : Res) : St × Out := (m.s, ⟨res, m.wokeR, m.wokeW⟩)

/-! ### `coop/mod.rs`: the thread-local budget cell -/

inductive BCond
  | bZero          -- `b == 0`
  | pollPending    -- `poll.is_pending()`
  | getSome        -- `let Some(mut b) = budget.get()` (binds `b`)
  deriving Repr, DecidableEq

inductive BRet
  | pending | ready | same     -- `same`: `track_progress` returns the poll it was given
  deriving Repr, DecidableEq

inductive BStmt
  | skip
  | seq (a b : BStmt)
  | ite (c : BCond) (t e : BStmt)
  | matchGet (some none : BStmt)   -- `match budget.get() { Some(mut b) => .., None => .. }`
  | ret (r : BRet)
  | subOne                         -- `b = b.saturating_sub(1)`
  | addOne                         -- `b = b.saturating_add(1)` (usize)
  | setNone                        -- `budget.set(None)`
  | setB                           -- `budget.set(Some(b))`
  | setDefault                     -- `budget.set(Some(DEFAULT_START_BUDGET.get()))`
  | wakeSelf                       -- `context.waker().wake_by_ref()`
  deriving Repr

structure BM where
  cell : Option Nat            -- `TASK_BUDGET`
  b : Nat := 0
  pollPending : Bool := false  -- the argument of `track_progress`
  ret : Option BRet := none
  wokeSelf : Bool := false
  deriving Repr

def execB : BStmt → BM → BM
  | .skip, m => m
  | .seq a b, m => let m' := execB a m; if m'.ret.isSome then m' else execB b m'
  | .ite c t e, m =>
      match c with
      | .bZero => if m.b = 0 then execB t m else execB e m
      | .pollPending => if m.pollPending then execB t m else execB e m
      | .getSome => match m.cell with
          | some v => execB t { m with b := v }
          | none => execB e m
  | .matchGet s n, m =>
      match m.cell with
      | some v => execB s { m with b := v }
      | none => execB n m
  | .ret r, m => { m with ret := some r }
  | .subOne, m => { m with b := m.b - 1 }
  | .addOne, m => { m with b := min (m.b + 1) usizeMax }
  | .setNone, m => { m with cell := none }
  | .setB, m => { m with cell := some m.b }
  | .setDefault, m => { m with cell := some Generated.defaultStartBudget }
  | .wakeSelf, m => { m with wokeSelf := true }

end SwimVerif.ConduitProg
