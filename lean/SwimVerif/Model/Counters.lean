/-
The event / command counters of `UplinkReporter` (`swimos_runtime::agent::reporting`) at the granularity of their
atomic steps: `count_events(m)` is one atomic read-modify-write (`fetch_update` with `saturating_add`, saturation
excluded: counters are natural numbers here), `snapshot_value` is a loop of `load` followed by
`compare_exchange_weak(count, 0)` which, on failure (another thread changed the counter, or spuriously), loads again.
An execution is any interleaving (`List Ev`) of the counting threads' steps with the snapshot thread's steps.
-/
import SwimVerif.Model.Util

namespace SwimVerif.Ctr

structure St where
  n : Nat := 0                  -- the atomic counter
  loaded : Option Nat := none   -- snapshot thread: the value read by `load`, while inside the loop
  taken : Nat := 0              -- sum of the values returned by completed `snapshot_value` calls
  added : Nat := 0              -- ghost: sum of all amounts counted
  deriving Repr

inductive Ev
  | add (m : Nat)            -- a counting thread's `fetch_update`
  | load                     -- snapshot thread: `n.load()`
  | cas (spurious : Bool)    -- snapshot thread: `compare_exchange_weak(count, 0)`; may fail spuriously
  deriving Repr

def step (s : St) : Ev → St
  | .add m => { s with n := s.n + m, added := s.added + m }
  | .load => { s with loaded := some s.n }
  | .cas spurious =>
    match s.loaded with
    | none => s                                   -- not enabled
    | some c =>
      if s.n = c ∧ spurious = false then { s with n := 0, taken := s.taken + c, loaded := none }
      else { s with loaded := none }              -- failed: the loop starts again with a `load`

def run (s : St) (evs : List Ev) : St := evs.foldl step s

/-! Monitor for the multi-threaded stress run of the real counters: `stress t n a ;; added=<e>,<c> taken=<e>,<c>` -/

def Mon.step (_ : Unit) (line : String) (out : String) : Unit × Option String :=
  match words line with
  | "stress" :: _ =>
    match words out with
    | [a, t] =>
      if a.startsWith "added=" && t.startsWith "taken=" then
        if (a.drop 6).toString == (t.drop 6).toString then ((), none) else ((), some "counter-updates-lost-or-duplicated")
      else ((), some "stress-unparsable")
    | _ => ((), some "stress-unparsable")
  | _ => ((), some "stress-unparsable")

end SwimVerif.Ctr
