/-
Association lists keyed by `Nat` (finite maps of the models; `HashMap` in the code).
`alGet` reads the first entry, `alSet` replaces the first entry or appends, `alErase` removes every entry with the
key — so the three basic laws hold unconditionally (no `Nodup` side condition).
-/
namespace SwimVerif

def alGet {α : Type} : List (Nat × α) → Nat → Option α
  | [], _ => none
  | (k', v) :: rest, k => if k' = k then some v else alGet rest k

def alSet {α : Type} : List (Nat × α) → Nat → α → List (Nat × α)
  | [], k, v => [(k, v)]
  | (k', v') :: rest, k, v => if k' = k then (k, v) :: rest else (k', v') :: alSet rest k v

def alErase {α : Type} : List (Nat × α) → Nat → List (Nat × α)
  | [], _ => []
  | (k', v') :: rest, k => if k' = k then alErase rest k else (k', v') :: alErase rest k

def setInsert (l : List Nat) (x : Nat) : List Nat := if l.contains x then l else l ++ [x]

def setErase : List Nat → Nat → List Nat
  | [], _ => []
  | y :: ys, x => if y = x then setErase ys x else y :: setErase ys x

end SwimVerif
