/-
C09 line protocol for the incremental decoders (`chunk <hex> <all|k1,k2,..>`), model side: the same five fields the
harness prints for the real decoders — `one=<res> wl=<res> wlc=<same|cutK:res> raw=<res> rawc=<same|cutK:res>`.
-/
import SwimVerif.Model.ReconInc
import SwimVerif.Model.ReconProto

namespace SwimVerif.ReconInc
open SwimVerif.Recon

def Out.enc : Out → String
  | .value v => "ok:" ++ venc v
  | .none => "none"
  | .err => "err"
  | .panic => "panic"
  | .fuel => "fuel"

/-- The harness' `split_at_cuts`: cut positions that are increasing and strictly inside the body. -/
def splitAtCuts (body : List Nat) (cuts : List Nat) : List (List Nat) :=
  let rec go (last : Nat) (cs : List Nat) (acc : List (List Nat)) : List (List Nat) :=
    match cs with
    | [] => (acc ++ [body.drop last])
    | c :: cs' =>
      if last < c ∧ c < body.length then go c cs' (acc ++ [(body.drop last).take (c - last)])
      else go last cs' acc
  go 0 cuts []

def be8 (n : Nat) : List Nat :=
  [n / 2 ^ 56 % 256, n / 2 ^ 48 % 256, n / 2 ^ 40 % 256, n / 2 ^ 32 % 256, n / 2 ^ 24 % 256, n / 2 ^ 16 % 256,
    n / 2 ^ 8 % 256, n % 256]

def withLen (body : List Nat) (cuts : List Nat) : Out :=
  match splitAtCuts body cuts with
  | [] => .none
  | p :: ps => wlRun {} [] ((be8 body.length ++ p) :: ps)

def bare (body : List Nat) (cuts : List Nat) : Out := rawRunB {} [] (splitAtCuts body cuts)

/-- First single cut (1 ≤ k < length) whose outcome differs from the uncut one. -/
def firstDiff (f : List Nat → Out) (whole : Out) (len : Nat) : Nat → Nat → String
  | 0, _ => "same"
  | fuel + 1, k =>
    if k < len then
      (if f [k] = whole then firstDiff f whole len fuel (k + 1) else "cut" ++ toString k ++ ":" ++ (f [k]).enc)
    else "same"

def chunkOut (h : String) (cutspec : String) : String :=
  match bytesOfHex h with
  | none => "bad-op"
  | some body =>
    let one : String := match charsOfBytes body with
      | some cs => (parseOne cs).enc
      | none => "err"
    let wl := withLen body []
    let raw := bare body []
    let (wlc, rawc) :=
      if cutspec == "all" then
        (firstDiff (withLen body) wl body.length body.length 1, firstDiff (bare body) raw body.length body.length 1)
      else
        let cuts := (cutspec.splitOn ",").filterMap String.toNat?
        let a := withLen body cuts
        let b := bare body cuts
        ((if a = wl then "same" else "cut" ++ toString (cuts.headD 0) ++ ":" ++ a.enc),
         (if b = raw then "same" else "cut" ++ toString (cuts.headD 0) ++ ":" ++ b.enc))
    "one=" ++ one ++ " wl=" ++ wl.enc ++ " wlc=" ++ wlc ++ " raw=" ++ raw.enc ++ " rawc=" ++ rawc

def apiLine (line : String) : String :=
  match words line with
  | ["chunk", h, cs] => chunkOut h cs
  | _ => Recon.apiLine line

end SwimVerif.ReconInc
