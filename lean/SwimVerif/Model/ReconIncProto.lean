/-
C09 line protocol for the incremental decoders (`chunk <hex> <all|k1,k2,..>`), model side: the same five fields the
harness prints for the real decoders — `one=<res> wl=<res> wlc=<same|cutK:res> raw=<res> rawc=<same|cutK:res>`.
-/
import SwimVerif.Model.ReconInc
import SwimVerif.Model.ReconProto

namespace SwimVerif.ReconInc
open SwimVerif.Recon

def Out.enc : Out → String
  | .value v => "ok:" ++ venc v
  | .none => "none"
  | .err => "err"
  | .panic => "panic"
  | .fuel => "fuel"

/-- The harness' `split_at_cuts`: cut positions that are increasing and strictly inside the body. -/
def splitAtCuts (body : List Nat) (cuts : List Nat) : List (List Nat) :=
  let rec go (last : Nat) (cs : List Nat) (acc : List (List Nat)) : List (List Nat) :=
    match cs with
    | [] => (acc ++ [body.drop last])
    | c :: cs' =>
      if last < c ∧ c < body.length then go c cs' (acc ++ [(body.drop last).take (c - last)])
      else go last cs' acc
  go 0 cuts []

def be8 (n : Nat) : List Nat :=
  [n / 2 ^ 56 % 256, n / 2 ^ 48 % 256, n / 2 ^ 40 % 256, n / 2 ^ 32 % 256, n / 2 ^ 24 % 256, n / 2 ^ 16 % 256,
    n / 2 ^ 8 % 256, n % 256]

def withLen (body : List Nat) (cuts : List Nat) : Out :=
  match splitAtCuts body cuts with
  | [] => .none
  | p :: ps => wlRun {} [] ((be8 body.length ++ p) :: ps)

def bare (body : List Nat) (cuts : List Nat) : Out := rawRunB {} [] (splitAtCuts body cuts)

/-- First single cut (1 ≤ k < length) whose outcome differs from the uncut one. -/
def firstDiff (f : List Nat → Out) (whole : Out) (len : Nat) : Nat → Nat → String
  | 0, _ => "same"
  | fuel + 1, k =>
    if k < len then
      (if f [k] = whole then firstDiff f whole len fuel (k + 1) else "cut" ++ toString k ++ ":" ++ (f [k]).enc)
    else "same"

def chunkOut (h : String) (cutspec : String) : String :=
  match bytesOfHex h with
  | none => "bad-op"
  | some body =>
    let one : String := match charsOfBytes body with
      | some cs => (parseOne cs).enc
      | none => "err"
    let wl := withLen body []
    let raw := bare body []
    let (wlc, rawc) :=
      if cutspec == "all" then
        (firstDiff (withLen body) wl body.length body.length 1, firstDiff (bare body) raw body.length body.length 1)
      else
        let cuts := (cutspec.splitOn ",").filterMap String.toNat?
        let a := withLen body cuts
        let b := bare body cuts
        ((if a = wl then "same" else "cut" ++ toString (cuts.headD 0) ++ ":" ++ a.enc),
         (if b = raw then "same" else "cut" ++ toString (cuts.headD 0) ++ ":" ++ b.enc))
    "one=" ++ one ++ " wl=" ++ wl.enc ++ " wlc=" ++ wlc ++ " raw=" ++ raw.enc ++ " rawc=" ++ rawc

/-! ## `seq <hex>.<hex>… <all|k1,k2,..>`: several documents through one decoder instance -/

def encList (l : List Out) : String := if l.isEmpty then "-" else "|".intercalate (l.map Out.enc)

/-- The harness' `wl_seq`: the frames back to back, the stream cut at `cuts`. -/
def wlSeqOf (docs : List (List Nat)) (cuts : List Nat) : List Out :=
  wlSeq {} [] (splitAtCuts (docs.flatMap fun d => be8 d.length ++ d) cuts)

/-- The harness' `bare_seq`: `cuts` index the concatenation of the documents. -/
def bareSeqOf (docs : List (List Nat)) (cuts : List Nat) : List Out :=
  let rec pieces (off : Nat) (ds : List (List Nat)) : List (List (List Nat)) :=
    match ds with
    | [] => []
    | d :: ds' =>
      splitAtCuts d ((cuts.filter fun c => off < c ∧ c < off + d.length).map (· - off)) :: pieces (off + d.length) ds'
  rawSeqB {} (pieces 0 docs)

/-- The harness' `differs`: positions whose document is not UTF-8 do not count. -/
def seqDiffers (valid : List Bool) (a b : List Out) : Bool :=
  a.length != b.length ||
    ((List.range a.length).any fun i => valid.getD i true && a.getD i .none != b.getD i .none)

def firstDiffSeq (valid : List Bool) (f : List Nat → List Out) (whole : List Out) (len : Nat) : Nat → Nat → String
  | 0, _ => "same"
  | fuel + 1, k =>
    if k < len then
      (if seqDiffers valid (f [k]) whole then "cut" ++ toString k ++ ":" ++ encList (f [k])
       else firstDiffSeq valid f whole len fuel (k + 1))
    else "same"

def seqOut (hs : String) (cutspec : String) : String :=
  match (hs.splitOn ".").mapM bytesOfHex with
  | none => "bad-op"
  | some docs =>
    let valid := docs.map fun d => (charsOfBytes d).isSome
    let one : List String := docs.map fun d => match charsOfBytes d with
      | some cs => (parseOne cs).enc
      | none => "err"
    let wl := wlSeqOf docs []
    let raw := bareSeqOf docs []
    let total := (docs.map List.length).sum
    let (wlc, rawc) :=
      if cutspec == "all" then
        (firstDiffSeq valid (wlSeqOf docs) wl (total + 8 * docs.length) (total + 8 * docs.length) 1,
         firstDiffSeq valid (bareSeqOf docs) raw total total 1)
      else
        let cuts := (cutspec.splitOn ",").filterMap String.toNat?
        let a := wlSeqOf docs cuts
        let b := bareSeqOf docs cuts
        ((if seqDiffers valid a wl then "cut" ++ toString (cuts.headD 0) ++ ":" ++ encList a else "same"),
         (if seqDiffers valid b raw then "cut" ++ toString (cuts.headD 0) ++ ":" ++ encList b else "same"))
    "one=" ++ (if one.isEmpty then "-" else "|".intercalate one) ++ " wl=" ++ encList wl ++ " wlc=" ++ wlc ++
      " raw=" ++ encList raw ++ " rawc=" ++ rawc

def apiLine (line : String) : String :=
  match words line with
  | ["chunk", h, cs] => chunkOut h cs
  | ["seq", hs, cs] => seqOut hs cs
  | _ => Recon.apiLine line

end SwimVerif.ReconInc
